"""reward engine: C26 (reward / fee split conserves coins), C27 (stake-weighted reward and burn: terminate,
monotone, plateau), C33 (session node selection).  Spec: spec/reward.  Harness: harness/cmd/vh-reward."""
import json
import os
import threading

import vf

SPEC = os.path.join(vf.VERIF, "spec", "reward")
H = "vh-reward"


def _tlc_ok(res, what):
    if not res.ok:
        raise vf.MachineryError("design model %s violates %s: the specification itself is inconsistent" % (what, res.violated))


def _behaviours(c, res, name):
    beh = os.path.join(c.scratch, name)
    n = vf.extract_behaviours(res.stdout_path, beh)
    if n == 0:
        raise vf.MachineryError("no behaviours emitted for " + name)
    os.remove(res.stdout_path)
    return beh


def _event(path, line):
    with open(path) as f:
        for i, l in enumerate(f, 1):
            if i == line:
                return json.loads(l)
    return None


def _err_line(res):
    import re
    m = re.search(r"<<(\d+)", res.final_state.get("err", ""))
    return int(m.group(1)) if m else None


def _corrupt(pred, mutate, skip=20):
    def f(lines):
        for i, l in enumerate(lines):
            if i < skip:
                continue
            e = json.loads(l)
            if pred(e):
                mutate(e)
                return lines[:i] + [json.dumps(e)] + lines[i + 1:]
        return None
    return f


# ------------------------------------------------------------------------------ C26
def c26(c):
    thorough = c.tier == "thorough"
    vf.build_harness([H])
    c.assume("keeper level: real auth + nodes keepers over an in-memory root multistore at height 100000 (beyond "
             "codec.NonCustodial2AllowanceHeight, so the output address is paid), every feature active through the real "
             "codec.UpgradeFeatureMap (not codec.TestMode); the validator is written with SetValidator")
    c.assume("the computed relay reward is taken as given (coins = relays: multiplier 1, weight 1); C27 covers its computation")
    c.assume("reward cost = fee(claim)+fee(proof) x auth fee multiplier: 0 in the exhaustive model, 0/20000/40000 in simulation and traces")
    c.assume("blockReward with dao+proposer allocation = 0 and a non-empty fee collector panics (division by zero) in the "
             "real code; that configuration is outside the specification's domain and is not exercised")
    c.assume("validator found, delegator map valid (positive shares, total <= 100), operator / output / delegator addresses distinct")

    arith = {}
    th = None
    if thorough:
        def run_arith():
            try:
                arith["res"] = vf.run_tlc(SPEC, "MCRewardArith", "MCRewardArith.cfg", os.path.join(c.scratch, "arith"), workers=1, timeout=3000)
            except Exception as e:  # noqa: BLE001
                arith["err"] = e
        os.makedirs(os.path.join(c.scratch, "arith"))
        th = threading.Thread(target=run_arith)
        th.start()

    # 1. spec -> code, exhaustive transition covers
    covers = ["MCReward_cover_t1a.cfg", "MCReward_cover_t1b.cfg", "MCReward_cover_t2.cfg"] if thorough else \
             ["MCReward_cover_q1.cfg", "MCReward_cover_q2.cfg"]
    cmd = [H, "replay-split", "-in", "{in}", "-payer", "1000"]
    for cfg in covers:
        res = vf.run_tlc(SPEC, "MCReward", cfg, c.scratch, workers=8, timeout=3000)
        _tlc_ok(res, cfg)
        c.add_tlc(res, "TLC exhaustive " + cfg)
        beh = _behaviours(c, res, cfg + ".beh")
        rep = vf.run_harness(H, ["replay-split", "-in", beh, "-payer", 1000], env={"VERIF_SEED": c.seed}, timeout=3000)
        c.add_replay(rep, "transition cover %s replayed on RewardForRelays / BeginBlocker / CalculateRelayReward / SplitNodeRewards" % cfg)
        vf.replay_mismatch_violations(c, rep, "C26 replay " + cfg, cmd)
        os.remove(beh)
        if c.violations:
            break
    if c.violations:
        if th:
            th.join()
        return c.finish(rule="stopped after the first failing stage")

    # 2. spec -> code, random deep behaviours (free interleaving, amounts around the reward cost and large)
    res = vf.run_tlc(SPEC, "MCReward", "MCReward_sim.cfg", c.scratch, workers=8, simulate=dict(num=40 if thorough else 5, depth=14),
                     seed=c.seed, timeout=3000, tag="sim")
    _tlc_ok(res, "MCReward_sim.cfg")
    beh = _behaviours(c, res, "sim.beh")
    rep = vf.run_harness(H, ["replay-split", "-in", beh, "-payer", 100000], env={"VERIF_SEED": c.seed}, timeout=3000)
    c.add_replay(rep, "TLC -simulate depth 12 (rewards, fee payments, block rewards interleaved; reward cost 0 / 20000)")
    vf.replay_mismatch_violations(c, rep, "C26 simulate", [H, "replay-split", "-in", "{in}", "-payer", "100000"])
    if c.violations:
        if th:
            th.join()
        return c.finish(rule="stopped after the first failing stage")

    # 3. code -> spec: random worlds (any allocations, up to 8 delegators, amounts up to 2*10^7)
    n, steps = (3000, 14) if thorough else (500, 12)
    tr = os.path.join(c.scratch, "trace-split.ndjson")
    targs = ["trace-split", "-out", tr, "-n", n, "-steps", steps]
    rep = vf.run_harness(H, targs, env={"VERIF_SEED": c.seed})
    c.add("impl_steps", rep["steps"])
    res = vf.validate_trace(c, SPEC, "TraceSplit", "TraceSplit.cfg", tr, "random reward worlds (0-8 delegators, any allocation, amounts < 2*10^7)",
                            [H] + [str(a) for a in targs], n, timeout=3000)
    with open(tr) as f:
        c.sample([json.loads(next(f)) for _ in range(6)])
    if res.ok:
        def bump(e):
            e["bal"]["out"] += 1
        vf.binding_selftest(c, SPEC, "TraceSplit", "TraceSplit.cfg", tr,
                            _corrupt(lambda e: e.get("op") == "RelayReward" and e["r"] > 100, bump), "one output-address balance altered by 1")
    if th:
        th.join()
        if "err" in arith:
            raise arith["err"]
        _tlc_ok(arith["res"], "MCRewardArith")
        c.parts.append("TLC constant-level check MCRewardArith (all amounts 0..300 x all 5151 allocation pairs x all delegator maps "
                       "with <= 3 entries): ASSUMEs hold, %.0fs" % arith["res"].wall)
    return c.finish(
        rule="behaviours = (a) every transition of the bounded ledger model (Configure; RelayReward r | CollectFee n; BlockReward), each "
             "as shortest history + transition, (b) TLC-simulated interleavings, (c) recorded random worlds; distinct = distinct "
             "history text; non-trivial = contains a reward > 0 that is actually divided (delegators present or reward >= 3)",
        exhaustive=True)


# ------------------------------------------------------------------------------ C27
KNOWN_PATTERNS = {
    # pattern name -> (strict cfg, predicate on (event, series), text)
    "burn-above-ceiling": ("TraceReward_noburn.cfg",
                           lambda e, s: s["fn"] == "burn" and e["stake"] > s["ceil"] and e["stake"] % s["f"] != 0),
    "root-overflow": ("TraceReward_nooverflow.cfg",
                      lambda e, s: s["exp"] > 0 and _bin(s["fn"], e["stake"], s["f"], s["ceil"]) >= 499),
}


def _bin(fn, stake, f, ceil):
    """StakeWeightOps.BinOf (reward formula / burn formula as coded)"""
    other = ceil - stake % f if fn == "burn" else ceil - ceil % f
    fl = min(stake - stake % f, other)
    return fl // f if fl >= 0 else -((-fl) // f)


def _series_of(path, line):
    ser = None
    with open(path) as f:
        for i, l in enumerate(f, 1):
            if i > line:
                break
            e = json.loads(l)
            if e.get("op") == "series":
                ser = e
    return ser


def _strict_pass(c, trace, pattern, what, cmd):
    """Validate `trace` with one known pattern NOT excluded.  A rejection whose event matches the pattern reproduces the
    known finding on the real code; any other rejection is a violation."""
    cfg, pred = KNOWN_PATTERNS[pattern]
    res = vf.run_tlc(SPEC, "TraceReward", cfg, c.scratch, workers=1, env={"TRACE_FILE": trace}, timeout=3000,
                     tag="strict-" + pattern + "-" + what.replace(" ", "_"), heap="6g")
    if res.ok:
        return None
    line = _err_line(res)
    ev = _event(trace, line) if line else None
    ser = _series_of(trace, line) if line else None
    prev = _event(trace, line - 1) if line and line > 1 else None
    if ev and ser and ev.get("op") == "eval" and (pred(ev, ser) or (prev and prev.get("op") == "eval" and pred(prev, ser))):
        entry = [k for k in c.known if k.get("match", {}).get("pattern") == pattern]
        text = "%s fn=%s f=%d ceil=%d exp=%d/100: amount at stake %s is %s after %s at stake %s (%s)" % (
            pattern, ser["fn"], ser["f"], ser["ceil"], ser["exp"], ev["stake"], _limbs(ev["coins"]),
            _limbs(prev["coins"]) if prev and prev.get("op") == "eval" else "?", prev.get("stake") if prev else "?",
            res.final_state.get("err", ""))
        if entry:
            c.known_finding(entry[0]["id"] + " " + text)
            return text
        c.violation("C27 %s: %s" % (what, text), {"kind": "trace", "harness_cmd": cmd, "line": line, "event": ev, "series": ser})
        return text
    vf.trace_violation_from_tlc(c, res, trace, what + " (strict " + pattern + ")", cmd)
    return None


def _limbs(ls):
    v = 0
    for x in ls:
        v = v * 10000 + x
    return v


def c27(c):
    thorough = c.tier == "thorough"
    vf.build_harness([H])
    c.assume("valid parameter set: ServicerStakeFloorMultiplier f >= 1, ceiling >= f, exponent on the 1/100 grid in [0,1], weight "
             "multiplier > 0 (the code validates none of these); numeric sweep: 4 (f, ceiling) shapes (4 bins, 40 bins, ceiling not a "
             "multiple of f, 1 bin), stakes < 2^31 so that the specification can compute bins")
    c.assume("the burn is observed as the decrease of the validator's staked tokens (simpleSlash caps it at the stake); the sweep keeps "
             "multiplier x challenges <= f x min(1, weight multiplier) so the cap cannot bind from the first bin on")
    c.assume("termination = every evaluation returns within a 30 s deadline (typical evaluation: < 1 ms)")
    c.assume("structural replay realises W(bin) = bin with exponent 1 / weight multiplier 1 (checked at start: FracPow(bin,1.00) in [bin, bin+1e-9])")

    # 1. structural design model: all (f, ceil) x all monotone W
    res = vf.run_tlc(SPEC, "MCStakeWeight", "MCStakeWeight.cfg", c.scratch, workers=8, timeout=3000)
    _tlc_ok(res, "MCStakeWeight.cfg")
    c.add_tlc(res, "TLC structural model, every (f, ceil <= 6) x every monotone W (known burn defect excluded)")

    # 2. the burn formula as coded, without the exclusion: expected counterexample, confirmed on the real function
    res = vf.run_tlc(SPEC, "MCStakeWeight", "MCStakeWeight_strict.cfg", c.scratch, workers=1, timeout=3000)
    if not res.ok:
        try:
            f, ceil = int(res.final_state["f"]), int(res.final_state["ceil"])
        except (KeyError, ValueError):
            raise vf.MachineryError("cannot read the counterexample of MCStakeWeight_strict.cfg: %r" % res.final_state)
        c.note("design counterexample: %s violated for f=%d ceil=%d; confirming on BurnForChallenge" % (res.violated, f, ceil))
        tr = os.path.join(c.scratch, "confirm.ndjson")
        targs = ["trace-weight", "-out", tr, "-mode", "confirm", "-f", f, "-ceil", ceil]
        rep = vf.run_harness(H, targs, env={"VERIF_SEED": c.seed})
        c.add("impl_steps", rep["steps"])
        cmd = [H] + [str(a) for a in targs]
        hit = _strict_pass(c, tr, "burn-above-ceiling", "design counterexample on the real burn", cmd)
        if hit is None and not c.violations:
            raise vf.MachineryError("the design model's burn counterexample (f=%d ceil=%d) does not reproduce on the real code: "
                                    "StakeWeightOps.BurnFloored no longer transcribes slash.go" % (f, ceil))
        # with the exclusion the same real observations must be fine
        vf.validate_trace(c, SPEC, "TraceReward", "TraceReward.cfg", tr, "confirm trace with the known pattern excluded", cmd, 1)
    if c.violations:
        return c.finish(rule="stopped after the first failing stage")

    # 3. structural replay: W(bin) = bin on the real functions
    res = vf.run_tlc(SPEC, "MCStakeWeight", "MCStakeWeight_cover.cfg", c.scratch, workers=4, timeout=3000)
    _tlc_ok(res, "MCStakeWeight_cover.cfg")
    c.add_tlc(res, "TLC evaluation cover (f in 1..3, ceil <= 7, all stakes to 2*ceil+f, W(bin)=bin)")
    beh = _behaviours(c, res, "weight.beh")
    rep = vf.run_harness(H, ["replay-weight", "-in", beh], env={"VERIF_SEED": c.seed})
    c.add_replay(rep, "structural cover replayed on CalculateRelayReward / BurnForChallenge (exponent 1, weight multiplier 1)")
    vf.replay_mismatch_violations(c, rep, "C27 structural replay", [H, "replay-weight", "-in", "{in}"])
    if c.violations:
        return c.finish(rule="stopped after the first failing stage")

    # 4. numeric layer: sweep of the real functions, relations checked by TraceReward
    tr = os.path.join(c.scratch, "sweep.ndjson")
    targs = ["trace-weight", "-out", tr, "-mode", "main", "-tier", c.tier]
    rep = vf.run_harness(H, targs, env={"VERIF_SEED": c.seed}, timeout=3000)
    c.add("impl_steps", rep["steps"])
    c.add("evaluations", rep["steps"])
    c.add("distinct_nontrivial", rep["nontrivial"])
    cmd = [H] + [str(a) for a in targs]
    if rep.get("op_counts", {}).get("timeout", 0):
        c.note("%d evaluations exceeded the deadline" % rep["op_counts"]["timeout"])
    res = vf.validate_trace(c, SPEC, "TraceReward", "TraceReward.cfg", tr,
                            "numeric sweep (%d series, exponents %s)" % (rep["extra"]["series"], "0..100" if thorough else "0, 100 and e = seed mod 10"),
                            cmd, rep["behaviours"], timeout=3000)
    with open(tr) as f:
        c.sample([json.loads(next(f)) for _ in range(6)])
    if res.ok:
        def lower(e):
            e["coins"] = e["coins"][:-1] if len(e["coins"]) > 1 else []
        vf.binding_selftest(c, SPEC, "TraceReward", "TraceReward.cfg", tr,
                            _corrupt(lambda e: e.get("op") == "eval" and len(e.get("coins", [])) >= 1 and e["stake"] >= 100000000 and e["count"] > 0,
                                     lower, skip=200), "one logged amount truncated")
        _strict_pass(c, tr, "burn-above-ceiling", "numeric sweep", cmd)
    if c.violations:
        return c.finish(rule="stopped after the first failing stage")

    # 5. many bins (600-bin parameter set, 8 series; both tiers - it is cheap): the 100th-root iteration overflows
    #    from bin 499 on (F-C27-b); any collapse at a lower bin is a violation
    if True:
        tr2 = os.path.join(c.scratch, "manybins.ndjson")
        targs = ["trace-weight", "-out", tr2, "-mode", "manybins"]
        rep = vf.run_harness(H, targs, env={"VERIF_SEED": c.seed})
        c.add("impl_steps", rep["steps"])
        cmd = [H] + [str(a) for a in targs]
        vf.validate_trace(c, SPEC, "TraceReward", "TraceReward.cfg", tr2, "600-bin parameter set", cmd, rep["behaviours"])
        _strict_pass(c, tr2, "root-overflow", "600-bin parameter set", cmd)
    return c.finish(
        rule="structural: every (f, ceil, fn, stake, count, mult) of the bounded model replayed once; numeric: one evaluation of the "
             "real function per (series, sweep point), series = (fn, f, ceil, exponent, weight multiplier, multiplier, fixed count or "
             "stake); distinct = distinct (fn, f, ceil, exponent, weight multiplier); non-trivial = exponent > 0 and at least 2 bins",
        exhaustive=True)


# ------------------------------------------------------------------------------ C33
def c33(c):
    thorough = c.tier == "thorough"
    vf.build_harness([H])
    c.assume("keeper level: types.NewSessionNodes / NewSession over a real nodes keeper; the session-start state and the reference "
             "state are two independent cache-wrapped views (exhaustive replay and traces)")
    c.assume("HandleDispatch worlds: real auth / nodes / apps / pocketcore keepers over a committed root multistore and a block store; "
             "4 blocks per session, dispatch at height 5..8 of the session starting at 5; process-global session and staked-by-chain caches "
             "are cleared between worlds")
    c.assume("MaxChains is the same in both states (the code reads the limit from the session-start state and the node's chains "
             "from the reference state); a node that began unstaking after the session started is still eligible, as in the code")
    c.assume("the index stream is computed by the harness with the exported PseudorandomSelection / Hash; in replay a session key "
             "whose real stream starts with the behaviour's picks is found by search")
    cfgs = [("MCSession_t1.cfg", 5, 5), ("MCSession_t2.cfg", 5, 6), ("MCSession_t3.cfg", 3, 6)] if thorough else [("MCSession_q.cfg", 4, 5)]
    for cfg, mn, mp in cfgs:
        res = vf.run_tlc(SPEC, "MCSession", cfg, c.scratch, workers=8, timeout=3000)
        _tlc_ok(res, cfg)
        c.add_tlc(res, "TLC exhaustive " + cfg)
        beh = _behaviours(c, res, cfg + ".beh")
        cmd = [H, "replay-session", "-in", "{in}", "-maxnodes", str(mn), "-maxpicks", str(mp)]
        rep = vf.run_harness(H, ["replay-session", "-in", beh, "-maxnodes", mn, "-maxpicks", mp], env={"VERIF_SEED": c.seed}, timeout=3000)
        c.add_replay(rep, "every finished selection of %s replayed on NewSessionNodes (twice: fresh and cached index)" % cfg)
        vf.replay_mismatch_violations(c, rep, "C33 replay " + cfg, cmd)
        os.remove(beh)
        if c.violations:
            return c.finish(rule="stopped after the first failing stage")

    n = 3000 if thorough else 800
    tr = os.path.join(c.scratch, "trace-session.ndjson")
    targs = ["trace-session", "-out", tr, "-n", n]
    rep = vf.run_harness(H, targs, env={"VERIF_SEED": c.seed})
    c.add("impl_steps", rep["steps"])
    c.add("distinct_nontrivial", rep["nontrivial"])
    res = vf.validate_trace(c, SPEC, "TraceSession", "TraceSession.cfg", tr,
                            "random populations (0-30 candidates, N up to 24, real session keys; 4 calls each: fresh, cached, purged, NewSession)",
                            [H] + [str(a) for a in targs], n, timeout=3000)
    with open(tr) as f:
        c.sample([json.loads(next(f)) for _ in range(4)])
    if res.ok:
        def swap(e):
            e["sel"][0], e["sel"][1] = e["sel"][1], e["sel"][0]
        vf.binding_selftest(c, SPEC, "TraceSession", "TraceSession.cfg", tr,
                            _corrupt(lambda e: e.get("res") == "ok" and len(e["sel"]) >= 2 and e["call"] == 1, swap), "two selected nodes swapped")
    if c.violations:
        return c.finish(rule="stopped after the first failing stage")

    # the keeper's entry point: HandleDispatch over committed versions + block store (PrevCtx), fresh and from the session cache
    nd = 600 if thorough else 80
    tr2 = os.path.join(c.scratch, "trace-dispatch.ndjson")
    targs = ["trace-dispatch", "-out", tr2, "-n", nd]
    rep = vf.run_harness(H, targs, env={"VERIF_SEED": c.seed})
    c.add("impl_steps", rep["steps"])
    c.add("distinct_nontrivial", rep["nontrivial"])
    vf.validate_trace(c, SPEC, "TraceSession", "TraceSession.cfg", tr2,
                      "keeper.HandleDispatch on chains of 5-8 committed blocks (population staked in blocks 1-5, jailed / edited / "
                      "unstaked / deleted in block 6 through the keeper's own transitions)",
                      [H] + [str(a) for a in targs], nd, timeout=3000)
    return c.finish(
        rule="behaviours = every finished run of the selection loop of the bounded model (population x reference conditions x N x "
             "index stream), each replayed on the real code with a session key realising the stream; plus recorded random worlds; "
             "non-trivial = at least 2 candidates and at least 2 loop iterations",
        exhaustive=True)


ENGINE_KIND = "TLA+ specs Reward / StakeWeight / Session (TLC exhaustive + simulation) replayed into x/nodes reward/burn functions and " \
              "x/pocketcore session selection; recorded traces validated by TraceSplit / TraceReward / TraceSession"
PROPERTIES = {
    "C26": {"run": c26, "level": "model_checking", "engine": "reward", "design_ref": "DESIGN.md section 6 C26",
            "technique": "TLA+ ledger model (Reward.tla, RewardOps.tla) checked by TLC; transition-cover and simulated behaviours replayed "
                         "into keeper.RewardForRelays / BeginBlocker(blockReward) / CalculateRelayReward / SplitNodeRewards; recorded "
                         "traces validated by TLC (TraceSplit.tla)",
            "text": "Every reward 0..300 and fee against an allocation grid and delegator-map grid (thorough: every total allocation, "
                    "every <<dao,proposer>> pair x fees 0..120, 14-value share grid) is executed on real keepers and the whole ledger "
                    "(operator, output, delegators, fee collector, DAO, supply) compared with the specification; random worlds with up "
                    "to 8 delegators and amounts up to 2*10^7 are accepted by the specification. Bounded exhaustive + sampled.",
            "note": "Trusted: TLC, the Go replay glue, the hand transcription of the 18-digit rounding of splitFeesCollected "
                    "(DaoCut). Proposer-not-found and dao+proposer=0 (division by zero in blockReward) are outside the model."},
    "C27": {"run": c27, "level": "model_checking", "engine": "reward", "design_ref": "DESIGN.md section 6 C27",
            "technique": "TLA+ structural model (StakeWeight.tla) checked by TLC over all monotone weight functions and replayed into "
                         "CalculateRelayReward / BurnForChallenge; numeric sweep of the real functions validated by TLC (TraceReward.tla) "
                         "with limb-encoded comparisons; design counterexample of the burn formula confirmed on the real code",
            "text": "Monotonicity in stake and count, non-negativity and the plateau are model-checked for every bin layout and monotone "
                    "weight; the real functions are swept over every bin boundary +-1 up to twice the ceiling, exponents on the 1/100 "
                    "grid, 5 counts, 3 multipliers under a deadline and TLC checks the relations on the logged results.",
            "note": "The numeric layer is trace validation only: there is no exhaustive model of ApproxRoot. Known findings: burn just "
                    "above the ceiling (F-C27-a), weight collapse from bin 499 on (F-C27-b)."},
    "C33": {"run": c33, "level": "model_checking", "engine": "reward", "design_ref": "DESIGN.md section 6 C33",
            "technique": "TLA+ model of the selection loop over an index stream (Session.tla) checked by TLC; every finished run replayed "
                         "into types.NewSessionNodes over a real nodes keeper; recorded traces validated by TLC (TraceSession.tla)",
            "text": "All populations up to 4 (thorough 5) candidates x reference conditions x N in 1..3 x all index streams up to length "
                    "5-6 are executed on the real selection with a session key realising the stream; random worlds up to 30 candidates "
                    "with real session keys are accepted by the specification (count, distinctness, eligibility, failure only when too "
                    "few, determinism, exact selection).",
            "note": "Trusted: TLC, Go glue (population builder, projection of the reference state), exported hash functions for the stream."},
}
