"""mstore engine: C04 C06 C07 C08 C09 on the real store/rootmulti.Store.  Spec: spec/mstore.

One specification (MultiStore.tla) shared by the five properties; per property
  1. TLC model-checks a bounded instance with the property's named invariants / action
     properties and prints every transition of its state graph (transition cover);
  2. the behaviours are replayed on real rootmulti.Stores (node under test + never-restarted
     reference node) with a fault-injecting database wrapper (vh-mstore replay);
  3. TLC-simulated deep behaviours (every feature on) are replayed the same way;
  4. seeded drivers record traces from the real code (random; crash sweep over every
     write boundary of every block; rollback sweep over every target) which TLC validates
     with the specification's own actions (TraceMultiStore.tla), incl. a binding self-test.
"""
import json
import os
import re
import shutil

import vf

SPEC = os.path.join(vf.VERIF, "spec", "mstore")
KNOWN_FIRSTBLOCK = "C07-firstblock"

# cover configurations: cfg -> (substores, NK, NTK)
COVERS = {
    "MC_C04_q": ("s1,s2", 2, 1), "MC_C04_t": ("s1,s2", 2, 1), "MC_C04_t2": ("s1,s2", 3, 1), "MC_C04_t3": ("s1,s2", 2, 1),
    "MC_C06_q": ("s1", 2, 1), "MC_C06_q2": ("s1,s2", 1, 1), "MC_C06_t0": ("s1", 2, 1), "MC_C06_t": ("s1,s2", 2, 1),
    "MC_C07_q": ("s1,s2", 2, 1), "MC_C07_q3": ("s1,s2,s3", 1, 1), "MC_C07_t": ("s1,s2", 2, 1), "MC_C07_t3": ("s1,s2,s3", 2, 1),
    "MC_C08_q": ("s1,s2", 2, 1), "MC_C08_t": ("s1,s2", 2, 1),
    "MC_C09_q": ("s1,s2", 2, 1), "MC_C09_t": ("s1,s2", 2, 1), "MC_C09_t3": ("s1,s2,s3", 1, 1),
}
PLAN = {
    #        quick covers              thorough covers
    "C04": (["MC_C04_q"], ["MC_C04_q", "MC_C04_t", "MC_C04_t2", "MC_C04_t3"]),
    "C06": (["MC_C06_q", "MC_C06_q2"], ["MC_C06_q", "MC_C06_q2", "MC_C06_t0", "MC_C06_t"]),
    "C07": (["MC_C07_q", "MC_C07_q3"], ["MC_C07_q", "MC_C07_q3", "MC_C07_t", "MC_C07_t3"]),
    "C08": (["MC_C08_q"], ["MC_C08_q", "MC_C08_t"]),
    "C09": (["MC_C09_q"], ["MC_C09_q", "MC_C09_t", "MC_C09_t3"]),
}
QUICK_VARIANTS = "mem,mem-cms-c2-cmsv-liverb"
THOROUGH_VARIANTS = "mem,mem-cms-c2-cmsv-liverb,ldb@25,ldb-c2-cms-cmsv@25"
THOROUGH_TRACE_VARIANTS = "mem,mem-cms-c2-cmsv-liverb,ldb,ldb-c2-cms-liverb"
TRACE_STORES, TRACE_NK, TRACE_NTK = "s1,s2,s3", 8, 2


# ------------------------------------------------------------------------------ pieces
def _probe(c):
    """Facts about the real code the specification relies on, measured on every run."""
    rep = vf.run_harness("vh-mstore", ["probe"])
    ex = rep["extra"]
    if not ex.get("commit_is_one_batch_per_substore_plus_one"):
        c.note("probe: Store.Commit does NOT perform one batch write per persistent substore plus one: %s"
               % json.dumps(ex.get("commit_writes"))[:400])
    c.assume("measured on this tree: one Store.Commit = one batch write per persistent substore (any order) + one batch "
             "write with the commit info and the latest-version record (%s); crash points = these write boundaries, "
             "batch writes are atomic (memdb lock / goleveldb batch)" %
             ("confirmed" if ex.get("commit_is_one_batch_per_substore_plus_one") else "NOT confirmed"))
    return bool(ex.get("firstblock_reproduces")), ex


def _spec_dir(c, fixed):
    """Scratch copy of the specification; the named deviation LoadZeroLoadsLeftover is switched
    off (FirstBlockFixed = TRUE) when the probe shows the real code no longer has it."""
    d = os.path.join(c.scratch, "spec-mstore")
    if not os.path.exists(d):
        os.makedirs(d)
        for fn in os.listdir(SPEC):
            if fn.endswith((".tla", ".cfg")):
                s = open(os.path.join(SPEC, fn)).read()
                if fixed and fn.endswith(".cfg") and fn.startswith("MC"):
                    s = s.replace("FirstBlockFixed = FALSE", "FirstBlockFixed = TRUE")
                open(os.path.join(d, fn), "w").write(s)
    return d


def _known(c, n, where, example=None):
    """The first-block pattern was observed n times on the real code."""
    if n <= 0:
        return
    entry = [k for k in c.known if k.get("id") == "F-C07-firstblock"]
    text = ("F-C07-firstblock: process stopped during the first commit after a substore saved version 1 -> LoadLatestVersion "
            "loads that version (iavl LoadVersion(0) = latest found) instead of the empty tree: contents after reopening / "
            "app hash after re-executing block 1 differ from the uninterrupted run")
    c.parts.append("known finding F-C07-firstblock reproduced %d times in %s" % (n, where))
    if c.pid == "C07" and entry:
        c.known_finding(text)
    elif c.pid == "C07":
        c.violation("C07 " + text + " (%d occurrences in %s)" % (n, where),
                    {"kind": "behaviour" if example else "note",
                     "harness_cmd": ["vh-mstore", "replay", "-in", "{in}", "-stores", "s1,s2", "-nk", "2", "-ntk", "1",
                                     "-variants", "mem", "-prop", "C07"],
                     "behaviour": (example or {}).get("history"), "mismatch": example})
    c.add("known_finding_occurrences", n)


def _replay(c, beh, cfg_name, stores, nk, ntk, variants, what):
    args = ["replay", "-in", beh, "-stores", stores, "-nk", nk, "-ntk", ntk, "-variants", variants,
            "-prop", c.pid, "-scratch", c.scratch]
    rep = vf.run_harness("vh-mstore", args, env={"VERIF_SEED": c.seed}, timeout=3000)
    c.add_replay(rep, what)
    cmd = ["vh-mstore", "replay", "-in", "{in}", "-stores", stores, "-nk", str(nk), "-ntk", str(ntk),
           "-variants", variants, "-prop", c.pid]
    vf.replay_mismatch_violations(c, rep, "%s replay %s" % (c.pid, cfg_name), cmd)
    ex = rep.get("extra", {})
    c.add("abandoned", ex.get("abandoned", 0))
    c.add("order_retries", ex.get("order_retries", 0))
    unreached = ex.get("order_unreached", 0)
    c.add("order_unreached", unreached)
    if unreached:
        c.note("%d behaviour x variant runs of %s could not be replayed: Go's map iteration never produced the substore commit "
               "order they ask for in 400 attempts (not a verdict)" % (unreached, cfg_name))
        if unreached * 20 > max(rep.get("behaviours", 0), 1):
            raise vf.MachineryError("%d of %d behaviours of %s unreplayable (substore commit order not reached)"
                                    % (unreached, rep.get("behaviours", 0), cfg_name))
    c.add("protocol_deviations", ex.get("protocol_deviations", 0))
    _known(c, ex.get("known", {}).get(KNOWN_FIRSTBLOCK, 0), "replayed behaviours of " + cfg_name, ex.get("known_example"))
    return rep


def _cover(c, sd, cfg, variants):
    stores, nk, ntk = COVERS[cfg]
    res = vf.run_tlc(sd, "MCMultiStore", cfg + ".cfg", c.scratch, workers=8, timeout=3000)
    if not res.ok:
        raise vf.MachineryError("design model %s violates %s: the MultiStore specification itself is inconsistent "
                                "(a counterexample of the model alone is never a verdict)" % (cfg, res.violated))
    c.add_tlc(res, "TLC exhaustive " + cfg + ".cfg")
    beh = os.path.join(c.scratch, cfg + ".txt")
    n = vf.extract_behaviours(res.stdout_path, beh)
    if n == 0:
        raise vf.MachineryError("no behaviours emitted by " + cfg)
    os.remove(res.stdout_path)
    _replay(c, beh, cfg, stores, nk, ntk, variants, "transition cover %s replayed on rootmulti.Store (%s)" % (cfg, variants))
    os.remove(beh)


def _simulate(c, sd, num, depth, variants):
    res = vf.run_tlc(sd, "MCMultiStoreSim", "MCMultiStoreSim.cfg", c.scratch, workers=8,
                     simulate=dict(num=num, depth=depth), seed=c.seed, timeout=3000, tag="sim")
    if not res.ok:
        raise vf.MachineryError("simulation of the design model violates %s" % res.violated)
    beh = os.path.join(c.scratch, "sim.txt")
    if vf.extract_behaviours(res.stdout_path, beh) == 0:
        raise vf.MachineryError("no simulated behaviours")
    os.remove(res.stdout_path)
    _replay(c, beh, "MCMultiStoreSim", "s1,s2,s3", 4, 2, variants,
            "TLC -simulate depth 80 (3 substores, 4 keys, 8 blocks, crash/rollback/fork/views) replayed (%s)" % variants)
    os.remove(beh)


def _trace_cmds(c, thorough):
    """Trace generation commands for this property: (mode, n, blocks)."""
    rnd = ("random", 160 if thorough else 24, 20 if thorough else 14)
    per = {
        "C04": [rnd],
        "C06": [rnd],
        "C07": [("sweep", 6 if thorough else 1, 8 if thorough else 5), rnd],
        "C08": [("rbsweep", 5 if thorough else 1, 8 if thorough else 5), rnd],
        "C09": [rnd],
    }[c.pid]
    variants = THOROUGH_TRACE_VARIANTS if thorough else QUICK_VARIANTS
    if c.pid == "C09":
        variants += ",mem-hc,mem-hc-cms-cmsv" if thorough else ",mem-hc"
    cmds = []
    for i, (mode, n, blocks) in enumerate(per):
        out = os.path.join(c.scratch, "trace-%s.ndjson" % mode)
        cmds.append((mode, ["trace", "-out", out, "-n", n, "-mode", mode, "-stores", TRACE_STORES, "-nk", TRACE_NK,
                            "-ntk", TRACE_NTK, "-blocks", blocks, "-variants", variants, "-scratch", c.scratch], out))
    return cmds


def _scan_tlc_output(path):
    known, foreign = 0, {}
    txt = open(path, errors="replace").read()
    known = len(re.findall(r'"KNOWN-FINDING", "C07-firstblock"', txt))
    for m in re.finditer(r'"TRACE-ERROR",\s*(\d+),\s*"(\w+)",\s*"(\w+)"', txt):
        foreign[m.group(3)] = foreign.get(m.group(3), 0) + 1
    return known, foreign


def _corruptor(pid):
    """Binding self-test: alter one logged real result that the property's invariant judges."""
    def corrupt(lines):
        flushes, dirty, last_stop = 0, False, ""
        for i, l in enumerate(lines):
            e = json.loads(l)
            op = e.get("op")
            if op == "reset":
                flushes, dirty, last_stop = 0, False, ""
                continue
            if "fail" in e or dirty:
                dirty = True
                continue
            if op == "Flush":
                flushes += 1
            if op == "Crash" and e.get("phase") == "commit" and flushes == 0:
                dirty = True       # known first-block pattern may follow: not judged
                continue
            hit = False
            if pid == "C04" and op == "Reopen" and last_stop == "Close" and flushes >= 2:
                k = sorted(e["c"])[0]
                e["c"][k][0] = (e["c"][k][0] + 1) % 4
                hit = True
            elif pid == "C06" and op == "Flush" and flushes >= 2:
                e["info"]["t"] = 0   # a transient store named in the commit info
                hit = True
            elif pid == "C07" and op == "Reopen" and last_stop == "Crash" and flushes >= 1:
                e["ver"] = e["ver"] + 1
                hit = True
            elif pid == "C08" and op == "Rollback" and flushes >= 2:
                e["infos"] = e["infos"] + [len(e["infos"]) + 1]   # a commit info above the target left behind
                hit = True
            elif pid == "C09" and op == "HistIter" and e.get("ret") and flushes >= 2:
                e["ret"] = e["ret"][2:]
                hit = True
            if op in ("Crash", "Close", "Rollback"):
                last_stop = op
            if hit:
                return lines[:i] + [json.dumps(e)] + lines[i + 1:]
        return None
    return corrupt


TAG_PREFIX = {"C04": ("C04_",), "C06": ("C06_", "C04_SameWritesSameHash"), "C07": ("C07_",), "C08": ("C08_",), "C09": ("C09_",)}


def _validate_trace(c, sd, cfg, trace_path, what, cmds, ntr):
    """code -> spec: TLC re-executes the recorded events with the specification's own actions.  A violated
    property invariant = the real code's logged behaviour contradicts the specification (the failed
    judgements are in the `err` set of the final state: <<line, op, tag>>)."""
    res = vf.run_tlc(sd, "TraceMultiStore", cfg, c.scratch, workers=1, env={"TRACE_FILE": trace_path},
                     timeout=3000, tag="TraceMultiStore-" + c.pid)
    c.add("trace_events_validated", max(res.distinct - 1, 0))
    if res.ok:
        c.add("traces_validated_against_impl", ntr)
        c.parts.append("%s: %d recorded traces / %d events accepted by TraceMultiStore (%s)" % (what, ntr, res.distinct - 1, cfg))
        return res
    st = res.final_state
    errs = [(int(m.group(1)), m.group(2), m.group(3)) for m in re.finditer(r'<<(\d+), "(\w+)", "(\w+)">>', st.get("err", ""))]
    if res.violated == "ModelExplainsCode":
        # not a property verdict: the specification does not explain how the code commits
        raise vf.MachineryError("recorded trace not explained by the specification (ModelExplainsCode): %s" % errs)
    mine = [e for e in errs if e[2].startswith(TAG_PREFIX[c.pid])]
    if not mine:
        # e.g. the trace was not consumed: an event the specification has no enabled action for
        raise vf.MachineryError("TraceMultiStore: %s without a failed judgement of %s (next line %s, failed judgements %s): "
                                "the specification cannot explain the recorded events" % (res.violated, c.pid, st.get("l"), errs))
    line = max(e[0] for e in mine) if mine else None
    if line is None and "l" in st:
        try:
            line = int(st["l"]) - 1
        except ValueError:
            pass
    ctx = []
    if line:
        with open(trace_path) as f:
            for i, l in enumerate(f, 1):
                if line - 8 <= i <= line:
                    ctx.append(l.strip()[:2000])
                if i > line:
                    break
    tag = [e for e in mine if e[0] == line]
    summary = "%s: TLC invariant %s violated at trace line %s: %s" % (
        what, res.violated, line, ("judgement %s failed at event %s" % (tag[0][2], tag[0][1])) if tag else "trace not accepted")
    c.violation(summary, {"kind": "trace", "harness_cmd": cmds, "violated": res.violated, "line": line,
                          "failed_judgements": errs, "context": ctx, "final_state": {k: v[:3000] for k, v in st.items()}})
    return res


def _traces(c, sd, thorough):
    cfg = "TraceMultiStore_%s.cfg" % c.pid
    allf = os.path.join(c.scratch, "trace-all.ndjson")
    ntr, cmds = 0, []
    with open(allf, "w") as o:
        for mode, args, out in _trace_cmds(c, thorough):
            rep = vf.run_harness("vh-mstore", args, env={"VERIF_SEED": c.seed}, timeout=3000)
            c.add("impl_steps", rep["steps"])
            ntr += rep["behaviours"]
            cmds.append(["vh-mstore"] + [str(a) for a in args])
            with open(out) as f:
                shutil.copyfileobj(f, o)
            os.remove(out)
    what = "+".join(m for m, _, _ in _trace_cmds(c, thorough)) + " driver traces"
    res = _validate_trace(c, sd, cfg, allf, what, cmds, ntr)
    known, foreign = _scan_tlc_output(res.stdout_path)
    _known(c, known, what)
    other = {t: n for t, n in foreign.items() if not t.startswith("Known_")}
    if res.ok and other:
        c.add("abandoned", sum(other.values()))
        c.note("judgements of other properties failed in these traces (reported by their own checks): %s" % other)
        if any(t.startswith("Model_") for t in other):
            c.add("protocol_deviations", sum(n for t, n in other.items() if t.startswith("Model_")))
    if not res.ok:
        return
    with open(allf) as f:
        c.sample([json.loads(next(f)) for _ in range(10)])
    # binding demonstration on a prefix of the accepted trace (up to the end of the trace holding the altered event)
    corrupt = _corruptor(c.pid)

    def corrupt_prefix(lines):
        bad = corrupt(lines)
        if bad is None:
            return None
        i = next(j for j in range(len(lines)) if lines[j] != bad[j])
        k = i + 1
        while k < len(bad) and json.loads(bad[k]).get("op") != "reset":
            k += 1
        return bad[:k]
    vf.binding_selftest(c, sd, "TraceMultiStore", cfg, allf, corrupt_prefix,
                        "one logged real result judged by %s altered" % c.pid)


def _run(c):
    thorough = c.tier == "thorough"
    vf.build_harness(["vh-mstore"])
    reproduces, _ = _probe(c)
    sd = _spec_dir(c, fixed=not reproduces)
    variants = THOROUGH_VARIANTS if thorough else QUICK_VARIANTS
    if c.pid == "C09":
        # historical reads are what the height cache serves: the same behaviours also run on a node with the cache on
        variants += ",mem-hc,mem-hc-cms-cmsv" if thorough else ",mem-hc-cmsv@2,mem-hc@2"
        c.assume("height cache OFF except in the 'hc' variants of C09 (node under test: rootmulti.NewStore(db, true, ...); reference "
                 "node: off); cache on/off equivalence of all reads as such is C10 (hcache engine)")
    else:
        c.assume("height cache OFF (rootmulti.NewStore(db, false, ...)): C10 is checked by the hcache engine")
    c.assume("hashes: the specification carries write histories (digests) instead of hashes and only states equalities; "
             "the harness / trace specification check that the real hashes are a function of the digest. Nothing is "
             "claimed about the hashes of different histories (collision resistance is assumed, not checked)")
    c.assume("abstract keys are mapped to seeded sorted subsets of a 20-key byte-string pool (prefix-related keys, 0x00/0xff "
             "boundaries); variants: block writes directly or through CacheMultiStore().Write(), IAVL node cache 100000 or 2 "
             "nodes, historical views through LoadLazyVersion (PrevCtx / custom queries) or CacheMultiStoreWithVersion, plus the "
             "ABCI store query at a height; memdb, and goleveldb (reopen = close + open) in the thorough tier")
    c.assume("a crash = the process stops between two database modifications (Set/Delete/Batch.Write reaching the DB); torn "
             "batches are excluded by the databases' atomic batch writes; the substore commit order of a replayed behaviour "
             "is reached by re-running it until Go's map iteration produces it")
    if reproduces:
        c.assume("named deviation LoadZeroLoadsLeftover = TRUE (pinned code): after a crash during the first commit the model "
                 "marks the behaviour tainted and stops; the real outcome is reported as KNOWN-FINDING F-C07-firstblock")
    for cfg in PLAN[c.pid][1 if thorough else 0]:
        _cover(c, sd, cfg, variants)
        if c.violations:
            return c.finish(rule="stopped after the first failing stage")
    _simulate(c, sd, 60 if thorough else 1, 85, variants)
    if c.violations:
        return c.finish(rule="stopped after the first failing stage")
    _traces(c, sd, thorough)
    if c.cov.get("protocol_deviations", 0) and not c.violations:
        # never a verdict: the code commits in another way than the specification models and no
        # property failed on anything that could still be explored
        raise vf.MachineryError("the real Store.Commit performs database writes of another shape than the MultiStore "
                                "specification models (%d observations) and no property failed: the model must be updated"
                                % c.cov["protocol_deviations"])
    return c.finish(
        rule="behaviours = (a) every transition of the bounded MultiStore state graph (per-property configuration), each as "
             "the shortest history reaching its source state plus the transition, every one executed on a real node under "
             "test and a real reference node; (b) TLC-simulated depth-80 histories with every feature on; (c) recorded "
             "traces of seeded drivers (random; every crash boundary of every block; every rollback target) accepted by "
             "TraceMultiStore. distinct = distinct history text; non-trivial = a persistent write followed by a step whose "
             "real outcome is compared with the specification",
        exhaustive=True)


# ------------------------------------------------------------------------------ replay of a recorded violation
def _replay_file(c, path):
    r = json.load(open(path))
    if r.get("kind") != "trace":
        return vf.generic_replay(c, path)
    vf.build_harness(["vh-mstore"])
    reproduces, _ = _probe(c)
    sd = _spec_dir(c, fixed=not reproduces)
    cmds = r["harness_cmd"]
    if cmds and not isinstance(cmds[0], list):
        cmds = [cmds]
    out = os.path.join(c.scratch, "replay-trace.ndjson")
    with open(out, "w") as o:
        for i, cmd in enumerate(cmds):
            part = os.path.join(c.scratch, "replay-part-%d.ndjson" % i)
            args = list(cmd[1:])
            args[args.index("-out") + 1] = part
            if "-scratch" in args:
                args[args.index("-scratch") + 1] = c.scratch
            vf.run_harness(cmd[0], args, env={"VERIF_SEED": r.get("seed", c.seed)})
            with open(part) as f:
                shutil.copyfileobj(f, o)
    res = vf.run_tlc(sd, "TraceMultiStore", "TraceMultiStore_%s.cfg" % c.pid, c.scratch, workers=1,
                     env={"TRACE_FILE": out}, timeout=3000, tag="replay")
    if not res.ok:
        print("VIOLATION property=%s replay=%s" % (c.pid, path))
        print("  reproduced: TLC %s violated, err=%s" % (res.violated, res.final_state.get("err")))
        c.cleanup()
        return 1
    print("NOT-REPRODUCED property=%s replay=%s" % (c.pid, path))
    c.cleanup()
    return 0


ENGINE_KIND = ("TLA+ spec MultiStore (commit split at its database writes, crash / reopen / re-execute / rollback / "
               "historical views, reference node) checked by TLC; transition-cover and simulated behaviours replayed into "
               "store/rootmulti.Store with a fault-injecting DB wrapper; recorded traces validated by TraceMultiStore")
_TECH = ("TLA+ model (MultiStore.tla) checked by TLC with the property's named invariants / action properties; every "
         "transition of the bounded model and simulated deep behaviours replayed on real rootmulti.Stores (node under test + "
         "reference node) through a fault-injecting dbm.DB wrapper; recorded traces of seeded drivers validated by TLC "
         "(TraceMultiStore.tla) with a binding self-test")
_NOTE = ("Trusted: TLC, ~900 lines of Go glue (key/value mapping, crash wrapper, read-out), tm-db memdb/goleveldb batch "
         "atomicity. Height cache off. Bounded exhaustive + sampled, not a proof.")
PROPERTIES = {
    "C04": {"run": _run, "replay": _replay_file, "level": "model_checking", "engine": "mstore", "design_ref": "DESIGN.md section 6 C04",
            "technique": _TECH,
            "text": "Every transition of the bounded model (2 substores x 2-3 keys, 2-3 blocks, close/reopen) is executed on real "
                    "rootmulti.Stores: after reopening, LastCommitID, every substore's contents and the read-back of every "
                    "retained version through LoadVersion(v) equal what was committed, and every commit hash equals the hash of "
                    "a never-restarted reference node fed the same writes (memdb; goleveldb in the thorough tier).",
            "note": _NOTE},
    "C06": {"run": _run, "replay": _replay_file, "level": "model_checking", "engine": "mstore", "design_ref": "DESIGN.md section 6 C06",
            "technique": _TECH,
            "text": "For every block history of the bounded model with persistent and transient writes: each Commit reports version+1, "
                    "the stored commit info names exactly the persistent substores at that version and hashes to the reported "
                    "app hash, the transient store is empty after Commit / reopen, and the app hash equals that of a reference "
                    "node performing the same persistent but different transient writes.",
            "note": _NOTE},
    "C07": {"run": _run, "replay": _replay_file, "level": "model_checking", "engine": "mstore", "design_ref": "DESIGN.md section 6 C07",
            "technique": _TECH,
            "text": "The process is stopped after every individual database write of every commit (all substore commit orders for 2 and "
                    "3 substores in the model; every boundary of every block of seeded 5-8 block histories in the sweep): reopening "
                    "yields the last fully committed block's contents and commit id, re-executing the interrupted block yields the "
                    "reference node's app hash. Known finding F-C07-firstblock (crash during the very first commit) is reported "
                    "separately.",
            "note": _NOTE},
    "C08": {"run": _run, "replay": _replay_file, "level": "model_checking", "engine": "mstore", "design_ref": "DESIGN.md section 6 C08",
            "technique": _TECH,
            "text": "For every history of the bounded model and every rollback target below the latest height (and every (height, "
                    "target) pair of seeded 5-8 block histories): after RollbackVersion + reopen the height, app hash, contents and all "
                    "lower versions equal the committed ones, no substore version / commit info above the target remains and later "
                    "versions cannot be opened, re-applying the same blocks reproduces the original hashes and different blocks "
                    "commit like on a node that never had the discarded ones.",
            "note": _NOTE},
    "C09": {"run": _run, "replay": _replay_file, "level": "model_checking", "engine": "mstore", "design_ref": "DESIGN.md section 6 C09",
            "technique": _TECH,
            "text": "Up to 2-3 simultaneously open historical views (LoadLazyVersion as used by PrevCtx and custom queries, "
                    "CacheMultiStoreWithVersion, ABCI store query at a height) are read by key and by range iteration at every "
                    "interleaving with later writes, commits and other views in the bounded model and in long random traces: every "
                    "read equals the state committed at the view's height.",
            "note": _NOTE},
}
