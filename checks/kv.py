"""kv engine: C01 (cache-wrapped stores), C02 (prefix stores).  Spec: spec/kv."""
import json
import os

import vf

SPEC = os.path.join(vf.VERIF, "spec", "kv")


# ------------------------------------------------------------------------------ C01
def c01(c):
    thorough = c.tier == "thorough"
    vf.build_harness(["vh-kv"])
    c.assume("abstract keys 1..NK are mapped to seeded sorted subsets of an 18-key byte-string pool "
             "(prefix-related keys, 0x00/0xff boundaries); values to byte strings (one variant uses the empty value)")
    c.assume("unsupported usage is excluded by the specification, not judged: mutating a lower layer while a "
             "wrap exists above it, Write/Discard with an open iterator, writing the base under an open base iterator")
    variants = "memdb,iavl,memdb-empty"

    # 1. spec -> code, exhaustive: every transition of the bounded abstract state graph
    covers = [("MCCacheKV_cover_q.cfg", 2)]
    if thorough:
        covers = [("MCCacheKV_cover.cfg", 2), ("MCCacheKV_cover_t2.cfg", 3)]
    for cfg, nk in covers:
        res = vf.run_tlc(SPEC, "MCCacheKV", cfg, c.scratch, workers=8, timeout=3000)
        if not res.ok:
            raise vf.MachineryError("design model %s violates %s: the CacheKV specification itself is inconsistent" % (cfg, res.violated))
        c.add_tlc(res, "TLC exhaustive " + cfg)
        beh = os.path.join(c.scratch, "cover-%d.txt" % nk)
        n = vf.extract_behaviours(res.stdout_path, beh)
        if n == 0:
            raise vf.MachineryError("no behaviours emitted by " + cfg)
        os.remove(res.stdout_path)
        cmd = ["vh-kv", "replay-cachekv", "-in", "{in}", "-nk", str(nk), "-variants", variants]
        rep = vf.run_harness("vh-kv", ["replay-cachekv", "-in", beh, "-nk", nk, "-variants", variants],
                             env={"VERIF_SEED": c.seed}, timeout=3000)
        c.add_replay(rep, "transition cover %s replayed on cachekv over %s" % (cfg, variants))
        vf.replay_mismatch_violations(c, rep, "C01 replay " + cfg, cmd)
        os.remove(beh)
    if c.violations:
        return c.finish(rule="stopped after the first failing stage")

    # 2. spec -> code, random deep behaviours (nesting 3, 4 keys, 4 iterators)
    num = 2500 if thorough else 150
    res = vf.run_tlc(SPEC, "MCCacheKV", "MCCacheKV_sim.cfg", c.scratch, workers=8,
                     simulate=dict(num=num, depth=45), seed=c.seed, timeout=1800, tag="sim")
    if not res.ok:
        raise vf.MachineryError("simulation violates %s" % res.violated)
    beh = os.path.join(c.scratch, "sim.txt")
    n = vf.extract_behaviours(res.stdout_path, beh)
    if n == 0:
        raise vf.MachineryError("no simulated behaviours")
    rep = vf.run_harness("vh-kv", ["replay-cachekv", "-in", beh, "-nk", 4, "-variants", variants], env={"VERIF_SEED": c.seed})
    c.add_replay(rep, "TLC -simulate depth 40 (NK=4, nesting 3, 4 iterators)")
    vf.replay_mismatch_violations(c, rep, "C01 simulate",
                                  ["vh-kv", "replay-cachekv", "-in", "{in}", "-nk", "4", "-variants", variants])

    if c.violations:
        return c.finish(rule="stopped after the first failing stage")

    # 3. code -> spec: seeded random driver over 12 keys, validated by TraceCacheKV
    ntr, steps = (1500, 400) if thorough else (150, 300)
    tr = os.path.join(c.scratch, "trace-cachekv.ndjson")
    targs = ["trace-cachekv", "-out", tr, "-n", ntr, "-steps", steps, "-nk", 12, "-backend", "mixed", "-maxiters", 60]
    rep = vf.run_harness("vh-kv", targs, env={"VERIF_SEED": c.seed})
    c.add("impl_steps", rep["steps"])
    res = vf.validate_trace(c, SPEC, "TraceCacheKV", "TraceCacheKV.cfg", tr, "random driver traces (12 keys)",
                            ["vh-kv"] + [str(a) for a in targs], ntr, timeout=3000)
    with open(tr) as f:
        c.sample([json.loads(next(f)) for _ in range(8)])

    # 4. binding demonstration: corrupt one logged result -> must be rejected
    if res.ok:
        def corrupt(lines):
            for i, l in enumerate(lines):
                e = json.loads(l)
                if e.get("op") == "Get" and i > 50:
                    e["ret"] = (e["ret"] + 1) % 4
                    return lines[:i] + [json.dumps(e)] + lines[i + 1:]
            return None
        vf.binding_selftest(c, SPEC, "TraceCacheKV", "TraceCacheKV.cfg", tr, corrupt, "one Get result altered")

    return c.finish(
        rule="behaviours = (a) every transition of the bounded CacheKV state graph, each as the shortest history reaching "
             "its source state plus the transition, (b) TLC-simulated depth-40 histories, (c) recorded random-driver traces; "
             "distinct = distinct history text; non-trivial = observes or view-checks a wrapped layer after a mutation",
        exhaustive=True)


# ------------------------------------------------------------------------------ C02
def c02(c):
    thorough = c.tier == "thorough"
    vf.build_harness(["vh-kv"])
    c.assume("design model: byte alphabet {0x00,0x01,0xff}, 9 parent keys straddling every prefix boundary, 7 prefixes "
             "(incl. empty, 0xff, 0xff 0xff), all bounds from a 6-suffix pool and nil")
    variants = "memdb,iavl,cachekv-nested" if not thorough else "memdb,iavl,cachekv,memdb-nested,iavl-nested,cachekv-nested"
    res = vf.run_tlc(SPEC, "MCPrefixView", "MCPrefixView_cover.cfg", c.scratch, workers=8, timeout=1800)
    if not res.ok:
        raise vf.MachineryError("design model violates %s" % res.violated)
    c.add_tlc(res, "TLC exhaustive MCPrefixView_cover.cfg")
    beh = os.path.join(c.scratch, "pcover.txt")
    if vf.extract_behaviours(res.stdout_path, beh) == 0:
        raise vf.MachineryError("no behaviours emitted")
    os.remove(res.stdout_path)
    cmd = ["vh-kv", "replay-prefix", "-in", "{in}", "-variants", variants]
    rep = vf.run_harness("vh-kv", ["replay-prefix", "-in", beh, "-variants", variants], env={"VERIF_SEED": c.seed}, timeout=3000)
    c.add_replay(rep, "transition cover replayed on prefix.Store over " + variants)
    vf.replay_mismatch_violations(c, rep, "C02 replay", cmd)
    os.remove(beh)
    if c.violations:
        return c.finish(rule="stopped after the first failing stage")

    ntr, steps = (2000, 300) if thorough else (300, 150)
    tr = os.path.join(c.scratch, "trace-prefix.ndjson")
    targs = ["trace-prefix", "-out", tr, "-n", ntr, "-steps", steps, "-backend", "mixed"]
    rep = vf.run_harness("vh-kv", targs, env={"VERIF_SEED": c.seed})
    c.add("impl_steps", rep["steps"])
    res = vf.validate_trace(c, SPEC, "TracePrefix", "TracePrefix.cfg", tr, "random driver traces (arbitrary byte keys, 1-5 byte prefixes)",
                            ["vh-kv"] + [str(a) for a in targs], ntr, timeout=3000)
    with open(tr) as f:
        c.sample([json.loads(next(f)) for _ in range(8)])
    if res.ok:
        def corrupt(lines):
            for i, l in enumerate(lines):
                e = json.loads(l)
                if e.get("op") == "VIter" and e.get("ret") and i > 30:
                    e["ret"] = e["ret"][1:]
                    return lines[:i] + [json.dumps(e)] + lines[i + 1:]
            return None
        vf.binding_selftest(c, SPEC, "TracePrefix", "TracePrefix.cfg", tr, corrupt, "first item of one iteration result dropped")
    return c.finish(
        rule="behaviours = every transition of the PrefixView state graph (all 512 parent contents x every view op / range) as "
             "shortest history + transition, plus recorded random-driver traces; non-trivial = last step is a view operation "
             "on a non-empty parent",
        exhaustive=True)


ENGINE_KIND = "TLA+ specs CacheKV / PrefixView (TLC exhaustive transition cover + simulation) replayed into store/cachekv and store/prefix; recorded traces validated by TraceCacheKV / TracePrefix"
PROPERTIES = {
    "C01": {"run": c01, "level": "model_checking", "engine": "kv", "design_ref": "DESIGN.md section 6 C01",
            "technique": "TLA+ model (CacheKV.tla) checked by TLC; transition-cover and simulated behaviours replayed into the real cachekv stores; recorded traces validated by TLC (TraceCacheKV.tla)",
            "text": "Every transition of the bounded overlay model (2-3 keys, nesting 2, one iterator) and thousands of random deep histories (4 keys, nesting 3, 4 concurrent iterators) are executed on the real cachekv over memdb and IAVL and compared step by step; random 12-key driver traces are accepted by the specification. Bounded exhaustive + sampled, not a proof.",
            "note": "Trusted: TLC, the 300-line Go replay glue (key/value mapping, dump), tm-db memdb. Unsupported usages (writes below a live wrap, Write under an open iterator) are excluded, not judged."},
    "C02": {"run": c02, "level": "model_checking", "engine": "kv", "design_ref": "DESIGN.md section 6 C02",
            "technique": "TLA+ model (PrefixView.tla) checked by TLC; exhaustive transition cover replayed into store/prefix; recorded traces validated by TLC (TracePrefix.tla)",
            "text": "All 512 parent contents over a 9-key pool straddling every prefix boundary x every view operation / range / direction for 7 prefixes (incl. empty and all-0xFF) are executed on the real prefix store (flat and nested, over memdb, IAVL, cachekv); random traces with arbitrary byte keys are accepted by the specification.",
            "note": "Trusted: TLC, Go replay glue, tm-db memdb ordering. Byte alphabet of the exhaustive model is {00,01,FF}; other bytes only in the random traces."},
}
