"""chain engine, authentication / fees / replay / send / supply: C14 C15 C16 C17 C18.
Spec: spec/chain (ChainBase, ChainAuth, ChainBlock, MCChainAuth, TraceChainAuth);
harness: harness/chainsim + harness/cmd/vh-chain."""
import json
import os
import re

import vf

SPEC = os.path.join(vf.VERIF, "spec", "chain")

INV = {"C14": "C14_OnlyAuthorizedSignersChangeState", "C15": "C15_FeeChargedExactlyOnce", "C16": "C16_AtMostOnce",
       "C17": "C17_SupplyIsSumOfBalances", "C18": "C18_TransfersExact"}

# which outcome classes of the pre-message pipeline belong to which property
AUTH_CLASSES = {"unauthorized", "txbasic", "noaccount", "emptypk", "depth"}


def tag_of_mismatch(m):
    """Attribute a spec/impl divergence found in replay to the property whose footprint it is in."""
    hist = m.get("history") or []
    step = m.get("step", 0)
    if m.get("op") == "BeginBlock" or step >= len(hist):
        return None
    e = hist[step]
    cls = e.get("class")
    if cls in AUTH_CLASSES:
        return "C14"
    if cls == "dup":
        return "C16"
    if cls != "ok":
        return "C15"
    what = m.get("what", "")
    if "fee_collector" in what and "result" not in what:
        return "C15"
    return "C18"


def common(c):
    pid = c.pid
    thorough = c.tier == "thorough"
    vf.build_harness(["vh-chain"])
    c.assume("the harness plays Tendermint deterministically (block metas, votes from the reported validator set, tx indexing "
             "after Commit); all feature flags active from height 2; small-number economy (amounts < 2^31)")
    c.assume("DAO share of block fees modelled as floor(fees*dao/(dao+proposer)); agrees with the 18-decimal code for the default 10/1 allocations")

    # ---- 1. design model from the projection of a real genesis; every transition replayed
    init = os.path.join(c.scratch, "init.json")
    vf.run_harness("vh-chain", ["init-state", "-out", init], env={"VERIF_SEED": c.seed})
    cfgs = ["MCChainAuth_cover_q.cfg"] if not thorough else ["MCChainAuth_cover.cfg", "MCChainAuth_cover_t3.cfg"]
    abandoned = 0
    for cfg in cfgs:
        res = vf.run_tlc(SPEC, "MCChainAuth", cfg, c.scratch, workers=8, env={"INIT_FILE": init}, timeout=3000)
        if not res.ok:
            raise vf.MachineryError("design model %s violates %s (a design counterexample is not a verdict; confirm by replay)" % (cfg, res.violated))
        c.add_tlc(res, "TLC exhaustive " + cfg)
        beh = os.path.join(c.scratch, "auth-beh.txt")
        if vf.extract_behaviours(res.stdout_path, beh) == 0:
            raise vf.MachineryError("no behaviours emitted by " + cfg)
        os.remove(res.stdout_path)
        rep = vf.run_harness_sharded("vh-chain", ["replay-auth", "-in", beh], 8, env={"VERIF_SEED": c.seed}, timeout=3000)
        c.add_replay(rep, "transition cover %s replayed on PocketCoreApp (one tx per block)" % cfg)
        c.cov.setdefault("replay_classes", {}).update(rep.get("op_counts", {}))
        mine = []
        for m in rep.get("mismatches", []):
            if tag_of_mismatch(m) == pid or (pid == "C17" and "supply" in m.get("what", "")):
                mine.append(m)
            else:
                abandoned += 1
        rep2 = dict(rep, mismatches=mine)
        vf.replay_mismatch_violations(c, rep2, pid + " replay " + cfg, ["vh-chain", "replay-auth", "-in", "{in}"])
        os.remove(beh)
    c.cov["abandoned"] = abandoned
    if c.violations:
        return c.finish(rule="stopped after the first failing stage")

    # ---- 2. recorded random chains validated by TLC with this property's invariant
    ntr, blocks = (60, 40) if thorough else (12, 30)
    tr = os.path.join(c.scratch, "trace-auth.ndjson")
    targs = ["trace-auth", "-out", tr, "-n", ntr, "-blocks", blocks]
    rep = vf.run_harness("vh-chain", targs, env={"VERIF_SEED": c.seed}, timeout=3000)
    c.add("impl_steps", rep["steps"])
    c.cov["trace_result_classes"] = rep.get("op_counts", {})
    kf = os.path.join(c.scratch, "known.json")
    with open(kf, "w") as f:
        # every OPEN finding of every property is excluded by name inside the specification (so that a
        # listed finding of another property cannot crowd out this property's tags); only this
        # property's own reproductions are reported as KNOWN-FINDING lines
        allk = json.load(open(os.path.join(vf.VERIF, "known_findings.json")))["findings"]
        json.dump([k["id"] for k in allk if k.get("status", "open") == "open"], f)
    os.environ["KNOWN_FILE"] = kf       # read by TraceChainAuth (IOEnv.KNOWN_FILE)
    res = vf.validate_trace(c, SPEC, "TraceChainAuth", "TraceChainAuth_%s.cfg" % pid, tr,
                            "random send / resubmission / re-encoding chains", ["vh-chain"] + [str(a) for a in targs], ntr, timeout=3000)
    seen = set()
    with open(res.stdout_path, errors="replace") as f:
        for line in f:
            m = re.search(r'"KNOWN-FINDING-SEEN", "([^"]+)"', line)
            if m:
                seen.add(m.group(1))
    for kid in sorted(seen):
        if any(k["id"] == kid for k in c.known):
            c.known_finding("%s %s" % (kid, next((k["what"] for k in c.known if k["id"] == kid), "")))
    with open(tr) as f:
        evs = [json.loads(next(f)) for _ in range(6)]
        for e in evs:
            e.pop("cfg", None)
        c.sample(evs[2:])

    # ---- 3. binding demonstration
    if res.ok:
        def corrupt(lines):
            want = {"C14": lambda e: e["res"]["code"] != 0 and e["res"]["codespace"] == "sdk" and e["res"]["code"] == 4,
                    # (an event the specification judges exactly: the duplicate was really refused as one / a
                    #  successful SEND - for other message kinds this module only judges the fee floor)
                    "C16": lambda e: e["tx"].get("dup") == "indexed" and e["res"]["codespace"] == "auth" and e["res"]["code"] == 6,
                    }.get(pid, lambda e: e["res"]["code"] == 0 and e["tx"].get("kind") == "send")
            for i, l in enumerate(lines):
                e = json.loads(l)
                if e.get("ev") == "DeliverTx" and i > 20 and want(e):
                    if pid == "C17":
                        e["st"]["supply"] += 1
                    else:
                        k = "fee_collector" if pid == "C15" else sorted(e["st"]["bal"])[0]
                        e["st"]["bal"][k] += 1      # an unexplained balance change
                        e["st"]["supply"] += 1
                    return lines[:i] + [json.dumps(e)] + lines[i + 1:]
            return None
        vf.binding_selftest(c, SPEC, "TraceChainAuth", "TraceChainAuth_%s.cfg" % pid, tr, corrupt,
                            "one logged balance altered on a relevant DeliverTx event")
    return c.finish(
        rule="behaviours = every transition of the MCChainAuth state graph started from the projection of the real genesis "
             "(payers x recipients x amounts at the balance boundaries x fees x signing variants x resubmission), each replayed "
             "block by block on a fresh PocketCoreApp; plus recorded random chains. non-trivial = reaches an authenticated or "
             "resubmitted transaction; distinct = distinct behaviour text",
        exhaustive=True)


def _mk(pid, text, note):
    return {"run": common, "level": "model_checking", "engine": "chain", "design_ref": "DESIGN.md section 6 " + pid,
            "engine_path": "spec/chain + harness/chainsim + harness/cmd/vh-chain + checks/chain_auth.py",
            "technique": "TLA+ model of ante/fee/replay/send (ChainAuth.tla, MCChainAuth.tla) checked by TLC from the projection of a real genesis; "
                         "every transition replayed through ABCI on the real PocketCoreApp; recorded ABCI traces validated by TLC (TraceChainAuth.tla)",
            "text": text, "note": note}


NOTE = ("Trusted: TLC, chainsim (ABCI driver playing Tendermint, projection via keeper getters and raw index iteration), "
        "Go signing glue. Signature unforgeability assumed (only produced/corrupted signatures are tried). "
        "Message kinds other than send are covered by the other chain modules.")

PROPERTIES = {
    "C14": _mk("C14", "Every send transaction shape in the bounded model (signer relation x signature validity x chain id x fee x "
               "amount x resubmission) and thousands of random ones are delivered to the real application; a transaction the "
               "specification classifies as unauthenticated must leave the whole projected state unchanged.", NOTE),
    "C15": _mk("C15", "For every delivered transaction the fee collector / payer deltas must equal the specification's: exactly "
               "the declared fee once when authentication passes (message success or not), nothing otherwise.", NOTE),
    "C16": _mk("C16", "Identical bytes resubmitted in the same block, a later block, after ante rejection: the specification's "
               "indexer model decides when the second delivery must be a no-op; real runs must agree. Re-encodings: see known findings.", NOTE),
    "C17": _mk("C17", "Recorded supply equals the sum of all projected balances after every ABCI call of every recorded chain and "
               "in every state of the design model.", NOTE),
    "C18": _mk("C18", "Send moves exactly the amount or nothing (boundary amounts around the balance, self-send, new and module "
               "recipients); no negative or non-canonical balances in any recorded state.", NOTE),
}
ENGINE_KIND = "TLA+ application-level specification (ChainBase/ChainAuth/ChainBlock...) + ABCI replay and trace validation on the real PocketCoreApp"
