"""hcache engine: C10 (enabling the state cache never changes what any read returns).
Spec: spec/hcache (HeightCacheOps / HeightCache / MCHeightCache / TraceHeightCache)."""
import json
import os
import re

import vf

SPEC = os.path.join(vf.VERIF, "spec", "hcache")
PID = "C10"

# named deviations of HeightCacheOps.tla (the places where the code is not a transparent cache)
DEVIATIONS = ["AbsentReadsEmpty", "OrderedKeysPadded", "ReverseStartsAtEndBound", "NilEndSwapped", "ReverseIndexUnderflow"]


# ------------------------------------------------------------------------------ known findings
def known_by_deviation(c):
    """Open known findings of C10, keyed by the named deviation their `match` pattern designates.
    Only entries with status "open" are consulted (vf.load_known): a fixed defect that comes back
    is a violation again."""
    out = {}
    for f in c.known:
        m = f.get("match", {})
        if m.get("engine", "hcache") == "hcache" and m.get("deviation") in DEVIATIONS:
            out[m["deviation"]] = f
    return out


def known_env(known):
    return {"C10_KNOWN_" + d: ("1" if d in known else "0") for d in DEVIATIONS}


def report_hits(c, known, out_path):
    """KNOWN-HIT lines printed by TraceHeightCache: a real A/B disagreement whose node-A value is
    exactly what the cache model returns with that open known deviation switched on.  The match
    pattern of the finding also names the read kinds it may explain."""
    hits = {}
    with open(out_path, errors="replace") as f:
        for line in f:
            m = re.match(r'<<"KNOWN-HIT", "(\w+)", "(\w+)", (\d+)>>', line.strip())
            if m:
                hits.setdefault(m.group(1), (m.group(2), int(m.group(3))))
    for dev, (kind, line) in hits.items():
        f = known.get(dev)
        if f is None:
            raise vf.MachineryError("TLC reported a known hit for %s, which has no open finding" % dev)
        ops = f["match"].get("read_kinds")
        if ops and kind not in ops:
            raise vf.MachineryError("known finding %s explained a %s read, outside its match pattern %s" % (f["id"], kind, ops))
        c.known_finding("%s: %s" % (f["id"], f["what"]))
    return hits


def fit_of(out_path):
    txt = open(out_path, errors="replace").read()
    m = re.search(r'<<\s*"FIT",(.*?)>>\s*\n', txt, re.S)
    if not m:
        return None
    body = m.group(1)
    sets = re.findall(r"\{([^{}]*)\}", body)
    return [sorted(re.findall(r'"(\w+)"', s)) for s in sets]


def segment_behaviour(trace_path, line):
    """The events of the trace segment (from the last reset) that ends at `line`, as a behaviour
    `vh-hcache replay` accepts: block steps plus the offending read as the final witness step."""
    evs = []
    with open(trace_path) as f:
        for i, l in enumerate(f, 1):
            if i > line:
                break
            e = json.loads(l)
            if e.get("op") == "reset":
                evs = [e]
            else:
                evs.append(e)
    cap = evs[0].get("cap", 2) if evs else 2
    nk = evs[0].get("nk", 3) if evs else 3
    beh = []
    for e in evs[1:-1]:
        if e.get("op") in ("Set", "Remove", "Commit", "Reload"):
            beh.append({k: v for k, v in e.items() if k in ("op", "k", "v", "h")})
    last = evs[-1] if evs else {}
    if last.get("op") == "Read" and "kind" in last:
        rd = {k: last[k] for k in ("via", "h", "kind", "k", "lo", "hi", "asc") if k in last}
        beh.append({"op": "Read", "read": rd})
    return cap, nk, beh, last


class Judge:
    """Collects the traces recorded from the real stores (replayed TLC behaviours with their
    disagreements, random-driver traces) and has TLC judge them in one TraceHeightCache run."""

    def __init__(self, c, known):
        self.c, self.known = c, known
        self.path = os.path.join(c.scratch, "judge.ndjson")
        self.parts = []          # (first line, last line, what, n_traces)
        self.lines = 0
        open(self.path, "w").close()

    def add(self, trace_path, what, n_traces):
        n = 0
        with open(trace_path) as f, open(self.path, "a") as o:
            for l in f:
                o.write(l)
                n += 1
        if n:
            self.parts.append((self.lines + 1, self.lines + n, what, n_traces))
            self.lines += n

    def part_of(self, line):
        for a, b, what, _ in self.parts:
            if a <= line <= b:
                return what
        return "?"

    def run(self, tag, timeout=3000):
        """C10_CacheTransparent violated = a real disagreement between node A and node B that no
        open known deviation explains: VIOLATION.  The other invariants tie the model to the code
        and the oracle to the reference semantics: machinery errors, never a verdict."""
        c = self.c
        if not self.lines:
            return None
        res = vf.run_tlc(SPEC, "TraceHeightCache", "TraceHeightCache.cfg", c.scratch, workers=1,
                         env=dict(known_env(self.known), TRACE_FILE=self.path), timeout=timeout, tag="Trace-" + tag)
        c.add("trace_events_validated", max(res.distinct - 1, 0))
        hits = report_hits(c, self.known, res.stdout_path)
        if res.ok:
            fit = fit_of(res.stdout_path)
            for _, _, what, n in self.parts:
                c.add("traces_validated_against_impl", n)
            c.parts.append("TraceHeightCache accepted %d events (%s); the real cache behaves as the model with deviations %s; "
                           "open known deviations that explained a disagreement: %s" % (
                               res.distinct - 1, "; ".join("%s: %d traces" % (w, n) for _, _, w, n in self.parts), fit, sorted(hits)))
            return fit
        if res.violated == "C10_CacheTransparent":
            m = re.search(r"<<(\d+)", res.final_state.get("err", ""))
            line = int(m.group(1)) if m else None
            cap, nk, beh, last = segment_behaviour(self.path, line) if line else (2, 3, [], {})
            summary = "%s: node A (cache on) and node B (cache off) disagree and no open known deviation explains it: %s" % (
                self.part_of(line) if line else "?", json.dumps(last)[:300])
            c.violation(summary, {"kind": "behaviour", "harness_cmd": ["vh-hcache", "replay", "-in", "{in}", "-nk", str(nk), "-cap", str(cap)],
                                  "behaviour": beh, "read": last, "violated": res.violated})
            return None
        raise vf.MachineryError("TraceHeightCache reports %s (%s) -- the model does not describe this tree / the oracle; not a C10 verdict" % (
            res.violated, {k: v[:200] for k, v in res.final_state.items() if k.startswith("err") or k == "l"}))


# ------------------------------------------------------------------------------ C10
def c10(c):
    thorough = c.tier == "thorough"
    vf.build_harness(["vh-hcache"])
    known = known_by_deviation(c)
    c.assume("two real rootmulti.Stores on separate memdbs (NewStore(db, true/false)), one IAVL substore under test plus a second "
             "IAVL substore and a transient store; node B (cache off) is the oracle")
    c.assume("cache capacity is the package constant 12; small capacities (1-4) are installed through the exported Store.Cache "
             "field with heightcache.NewMultiStoreMemoryCache so that eviction happens in short histories")
    c.assume("abstract keys 1..NK are seeded sorted subsets of a 21-key byte-string pool; the empty byte string is one of the values; "
             "bounds are keys of the universe or nil")
    c.assume("not modelled: RollbackVersion on a cache-enabled store (no caller in the application), concurrent readers, pruning (disabled in iavl.Store.Commit)")

    # 1. design model.  (a) with every named deviation repaired the cache is transparent (exhaustive);
    #    (b) thorough: as the pinned code has it the model itself violates C10; (c) per named deviation
    #    TLC enumerates candidate counterexamples.  None of this is a verdict: (c) is replayed below.
    for cfg in (["MC_fixed_t.cfg", "MC_fixed_t2.cfg"] if thorough else ["MC_fixed.cfg"]):
        res = vf.run_tlc(SPEC, "MCHeightCache", cfg, c.scratch, workers=8, timeout=3000)
        if not res.ok:
            raise vf.MachineryError("the repaired design model violates %s (%s)" % (res.violated, cfg))
        c.add_tlc(res, "TLC exhaustive %s (all deviations repaired: C10_CacheTransparent holds)" % cfg)
    if thorough:
        res = vf.run_tlc(SPEC, "MCHeightCache", "MC_ascode.cfg", c.scratch, workers=4, timeout=600)
        if res.violated != "C10_CacheTransparent_Witness":
            raise vf.MachineryError("MC_ascode.cfg: expected the model with all named deviations to violate C10, got %r" % res)
        c.parts.append("TLC MC_ascode.cfg: the cache model as the pinned code has it violates C10_CacheTransparent (depth %d) -- candidate only" % res.depth)
    res = vf.run_tlc(SPEC, "MCHeightCache", "MC_witness.cfg", c.scratch, workers=4, timeout=600)
    if not res.ok:
        raise vf.MachineryError("MC_witness.cfg failed: %r" % res)
    cands = {}
    with open(res.stdout_path, errors="replace") as f:
        for line in f:
            if line.startswith('"['):
                beh = json.loads(json.loads(line))
                cands.setdefault(beh[-1]["dev"], []).append(beh)
    if set(cands) != set(DEVIATIONS):
        raise vf.MachineryError("MC_witness.cfg produced counterexamples for %s only" % sorted(cands))
    wit = os.path.join(c.scratch, "witness.ndjson")
    nwit = 0
    with open(wit, "w") as o:
        for dev in DEVIATIONS:
            seen = set()
            for beh in sorted(cands[dev], key=len):
                sig = json.dumps(beh[-1]["read"], sort_keys=True)
                if sig in seen:
                    continue
                seen.add(sig)
                o.write(json.dumps(beh) + "\n")
                nwit += 1
                if len(seen) >= 3:
                    break
    c.add_tlc(res, "TLC MC_witness.cfg: %d candidate counterexamples for %d named deviations" % (sum(map(len, cands.values())), len(cands)))

    judge = Judge(c, known)

    # 2. every selected TLC counterexample is replayed on the two real stores; all reads of the
    #    final state are logged, so TLC can also fit the deviation set of the real cache.
    wtrace = os.path.join(c.scratch, "witness-trace.ndjson")
    rep = vf.run_harness("vh-hcache", ["replay", "-in", wit, "-nk", 2, "-cap", 2, "-explain", wtrace, "-logall"], env={"VERIF_SEED": c.seed})
    for m in rep.get("mismatches", []):
        if m.get("what") == "A!=B aux":
            c.violation("replayed TLC counterexamples: second substore differs between the nodes: %s" % m.get("got"),
                        {"kind": "behaviour", "harness_cmd": ["vh-hcache", "replay", "-in", "{in}", "-nk", "2", "-cap", "2"],
                         "behaviour": m.get("history"), "mismatch": m})
        elif m.get("what") != "A!=B":
            raise vf.MachineryError("witness replay: %s" % json.dumps(m)[:600])
    if c.violations:
        return c.finish(rule="stopped after the first failing stage")
    reproduced = sorted({w["dev"] for w in rep["extra"].get("witness") or [] if w["reproduced"]})
    c.add("impl_steps", rep["steps"])
    c.add("traces_validated_against_impl", 0)
    c.parts.append("TLC counterexamples replayed on the real stores: %d of %d reproduce (named deviations present in this tree: %s)" % (
        rep["extra"]["witness_reproduced"], rep["extra"]["witness_total"], reproduced))
    for w in (rep["extra"].get("witness") or [])[:2]:
        c.sample(w)
    judge.add(wtrace, "replayed TLC counterexamples", nwit)

    # 3. spec -> code, exhaustive: every transition of the bounded state graph; after the last step
    #    every read of the final state on both nodes.  Distinct disagreements go to the judge.
    covers = [("MC_cover_q.cfg", 3, 2), ("MC_cover_q2.cfg", 2, 2), ("MC_cover_q3.cfg", 2, 2)]
    if thorough:
        covers = [("MC_cover_t1.cfg", 3, 2), ("MC_cover_t2.cfg", 3, 3), ("MC_cover_t3.cfg", 2, 2), ("MC_cover_t4.cfg", 2, 3),
                  ("MC_cover_q2.cfg", 2, 2), ("MC_cover_q3.cfg", 2, 2)]
    for cfg, nk, cap in covers:
        res = vf.run_tlc(SPEC, "MCHeightCache", cfg, c.scratch, workers=8, timeout=3000)
        if not res.ok:
            raise vf.MachineryError("design model %s violates %s" % (cfg, res.violated))
        c.add_tlc(res, "TLC exhaustive transition cover " + cfg)
        beh = os.path.join(c.scratch, "cover.txt")
        if vf.extract_behaviours(res.stdout_path, beh) == 0:
            raise vf.MachineryError("no behaviours emitted by " + cfg)
        os.remove(res.stdout_path)
        replay_into(c, judge, beh, nk, cap, "transition cover " + cfg, cfg.replace(".cfg", ""))
        os.remove(beh)
        if c.violations:
            return c.finish(rule="stopped after the first failing stage")

    # 4. spec -> code, random deep histories (4 keys, capacity 3, up to 12 blocks, restarts)
    num = 1500 if thorough else 30
    res = vf.run_tlc(SPEC, "MCHeightCache", "MC_sim.cfg", c.scratch, workers=8, simulate=dict(num=num, depth=45),
                     seed=c.seed, timeout=1800, tag="sim")
    if not res.ok:
        raise vf.MachineryError("simulation violates %s" % res.violated)
    beh = os.path.join(c.scratch, "sim.txt")
    if vf.extract_behaviours(res.stdout_path, beh) == 0:
        raise vf.MachineryError("no simulated behaviours")
    replay_into(c, judge, beh, 4, 3, "TLC -simulate depth 40 (4 keys, capacity 3, <= 12 blocks)", "sim")
    if c.violations:
        return c.finish(rule="stopped after the first failing stage")

    # 5. code -> spec: seeded random driver (10 keys, capacities 1-4 and the real 12, restarts, reads in
    #    the middle of blocks), every read logged with both real results
    ntr, blocks, reads = (300, 20, 30) if thorough else (40, 16, 25)
    tr = os.path.join(c.scratch, "trace-hcache.ndjson")
    targs = ["trace", "-out", tr, "-n", ntr, "-blocks", blocks, "-nk", 10, "-cap", -1, "-reads", reads]
    rep = vf.run_harness("vh-hcache", targs, env={"VERIF_SEED": c.seed})
    c.add("impl_steps", rep["steps"] + rep["extra"]["reads"])
    c.add("reads_compared", rep["extra"]["reads"])
    judge.add(tr, "random driver traces (10 keys, capacities 1-4 and 12)", ntr)
    with open(tr) as f:
        c.sample([json.loads(next(f)) for _ in range(6)])

    # 6. TLC judges everything recorded from the real stores
    judge.run("judge")
    if c.violations:
        return c.finish(rule="stopped after the first failing stage")

    # 7. binding demonstration: one logged node-A result altered -> must be rejected
    def corrupt(lines):
        for i, l in enumerate(lines):
            e = json.loads(l)
            if e.get("op") == "Read" and e.get("kind") == "Get" and i > 100 and e.get("a") == e.get("b") and e["a"][0] > 0:
                e["a"] = [e["a"][0] + 1]
                return lines[:i] + [json.dumps(e)] + lines[i + 1:]
        return None
    os.environ.update(known_env(known))
    try:
        vf.binding_selftest(c, SPEC, "TraceHeightCache", "TraceHeightCache.cfg", wtrace, corrupt, "one node-A Get result altered")
    finally:
        for k in known_env(known):
            os.environ.pop(k, None)

    return c.finish(
        rule="behaviours = (a) TLC counterexamples of the design model, one family per named deviation, (b) every transition of the "
             "bounded HeightCache state graph as shortest history + transition, (c) TLC-simulated depth-40 histories, each followed by "
             "EVERY read of the final state (all retained heights x 2 historical entry points + working store x 2; Get/Has of every "
             "key; every range from {nil}+universe, both directions) on both real nodes, (d) recorded random-driver traces; "
             "distinct = distinct history text; non-trivial = at least one height of the final state is served from the cache on node A",
        exhaustive=True)


def replay_into(c, judge, beh, nk, cap, what, tag):
    """Replay behaviours on the two real stores; the distinct A/B disagreements (each with the
    history that produced it) are handed to the judge."""
    ex = os.path.join(c.scratch, "explain-%s.ndjson" % tag)
    cmd = ["vh-hcache", "replay", "-in", "{in}", "-nk", str(nk), "-cap", str(cap)]
    rep = vf.run_harness("vh-hcache", ["replay", "-in", beh, "-nk", nk, "-cap", cap, "-explain", ex], env={"VERIF_SEED": c.seed}, timeout=3000)
    c.add_replay(rep, "%s replayed on two real rootmulti stores (%d reads, %d served from the cache, %d A/B disagreements, %d distinct)" % (
        what, rep["extra"]["reads"], rep["extra"]["served_iter_reads"], rep["extra"]["disagreements"], rep["extra"]["distinct_disagreements"]))
    c.add("reads_compared", rep["extra"]["reads"])
    if rep.get("nontrivial", 0) == 0:
        raise vf.MachineryError("%s: no replayed behaviour had a height served from the cache (dead driver)" % what)
    for m in rep.get("mismatches", []):
        if m.get("what") == "A!=B aux":
            c.violation("%s: second substore differs between the nodes: %s" % (what, m.get("got")),
                        {"kind": "behaviour", "harness_cmd": cmd, "behaviour": m.get("history"), "mismatch": m})
        else:
            raise vf.MachineryError("%s: %s" % (what, json.dumps(m)[:800]))
    judge.add(ex, what + ": distinct disagreements", rep["extra"]["distinct_disagreements"])


ENGINE_KIND = ("TLA+ two-node specification HeightCache (cache transcribed from the code with named deviations) checked by TLC; "
               "TLC counterexamples, transition cover and simulated histories replayed on two real rootmulti stores (cache on / off); "
               "recorded traces judged by TraceHeightCache")
PROPERTIES = {
    "C10": {"run": c10, "level": "model_checking", "engine": "hcache", "design_ref": "DESIGN.md section 6 C10",
            "technique": "TLA+ two-node model (HeightCache.tla: MemoryCache + iterator index arithmetic transcribed next to the reference "
                         "semantics) checked by TLC; its counterexamples, its exhaustive transition cover and simulated histories are "
                         "replayed on two real rootmulti.Stores (cache on / off) with every read compared; recorded traces are judged by "
                         "TLC (TraceHeightCache.tla)",
            "text": "For every transition of the bounded model (3 keys, 3-4 blocks, capacity 2-3 so eviction happens, restarts) and for random "
                    "deep histories, every read the application can issue (all retained heights via LoadLazyVersion and "
                    "CacheMultiStoreWithVersion, the working store; Get/Has of present and absent keys; every range and direction) is "
                    "executed on a cache-enabled and a cache-disabled real store and compared; random 10-key traces with capacities 1-4 "
                    "and 12 are judged by the specification. Bounded exhaustive + sampled, not a proof.",
            "note": "Trusted: TLC, the Go glue (key/value mapping, read enumeration), tm-db memdb. A disagreement is tolerated only when "
                    "the node-A value is exactly what the transcribed cache returns with an OPEN known deviation "
                    "(known_findings.json) switched on; RollbackVersion with the cache, concurrency and pruning are out of scope."},
}
