"""coins engine: C41 (coin sets, BigInt, BigDec).  Spec: spec/coins."""
import json
import os

import vf

SPEC = os.path.join(vf.VERIF, "spec", "coins")


def _cover(c, module, cfg, sub, what, timeout=3000):
    res = vf.run_tlc(SPEC, module, cfg, c.scratch, workers=8, timeout=timeout)
    if not res.ok:
        raise vf.MachineryError("design model %s violates %s: the specification itself is inconsistent" % (cfg, res.violated))
    c.add_tlc(res, "TLC exhaustive %s (design invariants + transition cover)" % cfg)
    beh = os.path.join(c.scratch, "cover-%s.txt" % module)
    n = vf.extract_behaviours(res.stdout_path, beh)
    os.remove(res.stdout_path)
    if n == 0:
        raise vf.MachineryError("no behaviours emitted by " + cfg)
    rep = vf.run_harness("vh-coins", [sub, "-in", beh], env={"VERIF_SEED": c.seed}, timeout=timeout)
    if rep.get("behaviours") != n:
        raise vf.MachineryError("harness replayed %s of %d behaviours" % (rep.get("behaviours"), n))
    c.add_replay(rep, what)
    vf.replay_mismatch_violations(c, rep, "C41 replay " + cfg, ["vh-coins", sub, "-in", "{in}"])
    os.remove(beh)
    return rep


def c41(c):
    thorough = c.tier == "thorough"
    vf.build_harness(["vh-coins"])
    c.assume("Add / SafeSub / Sub take lists sorted by denomination with one entry per denomination (their documented "
             "invariant); entries may be zero or negative.  NewCoins / IsValid take arbitrary sequences")
    c.assume("comparison predicates are judged on valid coin sets only (sorted, strictly positive), by their documented meaning; "
             "an empty receiver is never 'all greater'")
    c.assume("only results are judged: Add / NewCoins rewriting a caller's slice that contains zero coins (removeZeroCoins works in "
             "place) is counted as an observation, not a verdict")
    c.assume("numbers: limb model c2*V^2+c1*V+c0 with V=2^127 (BigInt) / 2^157 (integer under BigDec), small coefficients; decimal "
             "rounding modelled at precision 100 and mapped to 10^18 by operand scaling (X=x*10^a, Y=y*10^(16-a) for Mul; X=x*10^k, "
             "Y=y*10^(16+k) with exact first division for Quo); integer Quo is Go's truncated division")

    # 1. coin sets: design invariants + every transition replayed
    rep = _cover(c, "MCCoins", "MCCoins_cover_t.cfg" if thorough else "MCCoins_cover_q.cfg", "replay-coins",
                 "coin-set transition cover replayed on types.Coins")
    mutated = rep.get("extra", {}).get("inputs_mutated_observations", 0)
    if mutated:
        c.parts.append("observation (not judged): %d calls rewrote an input slice that held zero coins" % mutated)
    if c.violations:
        return c.finish(rule="stopped after the first failing stage")

    # 2. numbers: limb-number register machine + decimal rounding tables
    _cover(c, "MCNum", "MCNum_cover.cfg" if thorough else "MCNum_cover_q.cfg", "replay-num",
           "limb-number / scaled-decimal transition cover replayed on BigInt (V=2^127) and BigDec (V=2^157, precision 10^18)")
    if c.violations:
        return c.finish(rule="stopped after the first failing stage")

    # 3. coin sets: simulated deep histories over 4 denominations (accumulating amounts)
    num = 200 if thorough else 40
    res = vf.run_tlc(SPEC, "MCCoins", "MCCoins_sim.cfg", c.scratch, workers=8,
                     simulate=dict(num=num, depth=26), seed=c.seed, timeout=1800, tag="sim")
    if not res.ok:
        raise vf.MachineryError("simulation violates %s" % res.violated)
    beh = os.path.join(c.scratch, "sim.txt")
    if vf.extract_behaviours(res.stdout_path, beh) == 0:
        raise vf.MachineryError("no simulated behaviours")
    rep = vf.run_harness("vh-coins", ["replay-coins", "-in", beh], env={"VERIF_SEED": c.seed})
    c.add_replay(rep, "TLC -simulate depth 25 (4 denominations, accumulating amounts)")
    vf.replay_mismatch_violations(c, rep, "C41 simulate", ["vh-coins", "replay-coins", "-in", "{in}"])
    if c.violations:
        return c.finish(rule="stopped after the first failing stage")

    # 4. code -> spec: seeded random driver (6 denominations, amounts up to 60 accumulating, limb coefficients up to 900,
    #    scaled decimals up to 20000)
    ntr, steps = (600, 300) if thorough else (50, 200)
    tr = os.path.join(c.scratch, "trace-c41.ndjson")
    targs = ["trace", "-out", tr, "-n", ntr, "-steps", steps]
    rep = vf.run_harness("vh-coins", targs, env={"VERIF_SEED": c.seed})
    c.add("impl_steps", rep["steps"])
    res = vf.validate_trace(c, SPEC, "TraceC41", "TraceC41.cfg", tr, "random driver traces (6 denominations; limb numbers; scaled decimals)",
                            ["vh-coins"] + [str(a) for a in targs], ntr, timeout=3000)
    with open(tr) as f:
        c.sample([json.loads(next(f)) for _ in range(8)])

    # 5. binding demonstration
    if res.ok:
        def corrupt(lines):
            for i, l in enumerate(lines):
                e = json.loads(l)
                if e.get("op") == "SafeSub" and len(e.get("ret", [])) >= 4 and i > 60:
                    e["ret"][1] = 1 - e["ret"][1]       # the reported "has a negative amount" flag flipped
                    return lines[:i] + [json.dumps(e)] + lines[i + 1:]
            return None
        vf.binding_selftest(c, SPEC, "TraceC41", "TraceC41.cfg", tr, corrupt, "negative flag of one SafeSub flipped")

    return c.finish(
        rule="behaviours = (a) every transition of the coin-set state graph: every well-formed receiver over 3 denominations x "
             "{absent, amounts} x every argument list x Add/SafeSub/Sub, the six comparisons on all pairs of valid sets, predicates, "
             "AmountOf, NewCoins/IsValid on all sequences of up to 3 coins, (b) every transition of the limb-number register machine "
             "(Set/Add/Sub/Mul/Quo/Neg/Cmp, parsing) and the decimal rounding tables, (c) TLC-simulated depth-25 coin histories, "
             "(d) recorded random-driver traces; distinct = distinct history text; non-trivial = non-empty receiver or argument / an "
             "arithmetic operation observed",
        exhaustive=True)


def replay41(c, path):
    r = json.load(open(path))
    if r.get("kind") != "trace":
        return vf.generic_replay(c, path)
    vf.build_harness(["vh-coins"])
    cmd = r["harness_cmd"]
    tr = os.path.join(c.scratch, "replay-trace.ndjson")
    args = [tr if cmd[i - 1] == "-out" else a for i, a in enumerate(cmd[1:], 1)]
    vf.run_harness(cmd[0], args, env={"VERIF_SEED": r.get("seed", c.seed)})
    res = vf.run_tlc(SPEC, "TraceC41", "TraceC41.cfg", c.scratch, workers=1, env={"TRACE_FILE": tr}, timeout=3000)
    c.cleanup()
    if not res.ok:
        print("VIOLATION property=%s replay=%s" % (c.pid, path))
        print("  reproduced: TLC %s violated, err=%s" % (res.violated, res.final_state.get("err")))
        return 1
    print("NOT-REPRODUCED property=%s replay=%s" % (c.pid, path))
    return 0


ENGINE_KIND = "TLA+ specs Coins / Num (TLC design invariants + exhaustive transition cover + simulation) replayed into types.Coins, BigInt, BigDec; recorded traces validated by TraceC41"
PROPERTIES = {
    "C41": {"run": c41, "replay": replay41, "level": "model_checking", "engine": "coins", "design_ref": "DESIGN.md section 6 C41",
            "technique": "TLA+ models (Coins.tla: coin lists vs multiset arithmetic incl. the sorted merge as written; Num.tla: limb-number "
                         "model of the 2^255 / 2^315 bounds and a precision-100 model of the rounding rules) checked by TLC; transition "
                         "covers and simulated behaviours replayed into the real types; recorded traces validated by TLC (TraceC41.tla)",
            "text": "All pairs of coin lists over 3 denominations with amounts -2..3 (incl. zero / negative / absent entries) through "
                    "Add, SafeSub, Sub, all pairs of valid sets through the six comparisons, and all sequences of up to 3 coins through "
                    "NewCoins / IsValid are executed on types.Coins and compared with multiset arithmetic (results sorted, no zero, no "
                    "duplicate, negative reported). BigInt / BigDec Add, Sub, Mul, Neg, Quo, parsing at the overflow bound (values "
                    "c2*V^2+c1*V+c0 around +-(2V^2-1)) and Mul / Quo rounding (half-even, truncate, round-up incl. exact ties) are "
                    "compared with the model. Bounded exhaustive + sampled, not a proof.",
            "note": "model_checking applies to the coin-set part and to the abstract numeric models. Numeric accuracy on full-width "
                    "operands (arbitrary 256-bit values, 18-digit fractions) is outside what the TLA+ model decides: TLC has 32-bit "
                    "integers, so numbers are limb polynomials in an uninterpreted base and decimals are scaled to precision 100 with an "
                    "operand mapping argued in NumOps.tla / num.go; Quo is covered only where the first division is exact. Trusted: "
                    "TLC, the Go replay glue, math/big for constructing operands."},
}
