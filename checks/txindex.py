"""txindex engine: C42 (transaction search).  Spec: spec/txindex."""
import json
import os
import subprocess

import vf

SPEC = os.path.join(vf.VERIF, "spec", "txindex")
KNOWN_KIND = "sort-direction-inverted"


def _known_entry(c):
    for f in c.known:
        if (f.get("match") or {}).get("kind") == KNOWN_KIND:
            return f
    return None


def _known_text(f, detail):
    return "%s [%s] %s" % (f.get("id", "F-C42"), KNOWN_KIND, detail)


def _cover(c, cfg, variants, what, ldb):
    """TLC transition cover -> behaviours sorted so that all transitions of one abstract state are
    adjacent (the harness then builds the real index once per state) -> replay."""
    res = vf.run_tlc(SPEC, "MCTxIndex", cfg, c.scratch, workers=8, timeout=3000)
    if not res.ok:
        raise vf.MachineryError("design model %s violates %s: the TxIndex specification is inconsistent" % (cfg, res.violated))
    c.add_tlc(res, "TLC exhaustive " + cfg)
    raw = os.path.join(c.scratch, "cover-raw.txt")
    n = vf.extract_behaviours(res.stdout_path, raw)
    os.remove(res.stdout_path)
    if n == 0:
        raise vf.MachineryError("no behaviours emitted by " + cfg)
    beh = os.path.join(c.scratch, "cover.txt")
    p = subprocess.run(["sort", "-S", "2G", "--parallel=8", "-T", c.scratch, "-o", beh, raw],
                       env=dict(os.environ, LC_ALL="C"), capture_output=True, text=True)
    if p.returncode != 0:
        raise vf.MachineryError("sort failed: " + p.stderr)
    os.remove(raw)
    rep = vf.run_harness("vh-txindex", ["replay", "-in", beh, "-variants", variants, "-dir", ldb],
                         env={"VERIF_SEED": c.seed}, timeout=3000)
    if rep.get("behaviours") != n:
        raise vf.MachineryError("harness replayed %s of %d behaviours" % (rep.get("behaviours"), n))
    c.add_replay(rep, "%s (%s) replayed on TransactionIndexer over %s" % (what, cfg, variants))
    os.remove(beh)
    return rep


def _judge_replay(c, rep, what):
    known = _known_entry(c)
    inv = int(rep.get("extra", {}).get("sort_direction_inverted", 0))

    def matcher(m):
        if m.get("what") == KNOWN_KIND and known:
            return _known_text(known, known.get("what", ""))
        return None
    vf.replay_mismatch_violations(c, rep, what, ["vh-txindex", "replay", "-in", "{in}", "-variants",
                                                 "memdb,memdb-index,goleveldb", "-every-step"], known_matcher=matcher)
    if inv:
        c.add("known_pattern_observations", inv)


def c42(c):
    thorough = c.tier == "thorough"
    vf.build_harness(["vh-txindex"])
    ldb = os.path.join(c.scratch, "leveldb")
    os.makedirs(ldb, exist_ok=True)
    c.assume("a transaction hash is indexed at most once and a height is batch-added at most once (replay protection / "
             "block execution guarantee it on a chain); results are built as real TxResults whose transaction bytes are "
             "opaque (the indexer only hashes them)")
    c.assume("searches are issued the way tendermint rpc/core.TxSearch issues them: parsed pubsub query + "
             "Pagination{Size: perPage, Skip: (page-1)*perPage, Sort}; perPage <= 10000 (maxPerPage clamp not exercised)")
    c.assume("the optional 'AND tx.height=h' condition of the account queries and DeleteFromHeight are outside C42's "
             "statement and are not judged")

    # 1+2. design model (key layout / ELEN / range scan mechanism against the statement: invariants of the cover
    # configurations) and spec -> code: every transition of the bounded state graph
    if thorough:
        res = vf.run_tlc(SPEC, "MCTxIndex", "MCTxIndex_strict.cfg", c.scratch, workers=2, timeout=600)
        c.parts.append("design model without the exclusion: C42_SearchInRequestedDirection %s" % (
            "holds" if res.ok else "is violated (the modelled PrefixIterator inverts the directions); confirmed or refuted on the real code below"))
    covers = [("MCTxIndex_cover_q.cfg", "memdb,memdb-index", "transition cover <=3 results")]
    if thorough:
        covers = [("MCTxIndex_cover_t.cfg", "memdb,memdb-index", "transition cover <=5 results"),
                  ("MCTxIndex_cover_m.cfg", "goleveldb", "transition cover <=4 results"),
                  ("MCTxIndex_cover_a.cfg", "memdb,memdb-index,goleveldb", "transition cover, all signer x recipient combinations")]
    for cfg, variants, what in covers:
        rep = _cover(c, cfg, variants, what, ldb)
        _judge_replay(c, rep, "C42 replay " + cfg)
        if c.violations:
            return c.finish(rule="stopped after the first failing stage")

    # 3. spec -> code: simulated deep behaviours (10 heights around digit-count changes, 3 addresses, <=24 results)
    num = 60 if thorough else 6
    res = vf.run_tlc(SPEC, "MCTxIndex", "MCTxIndex_sim.cfg", c.scratch, workers=8,
                     simulate=dict(num=num, depth=31), seed=c.seed, timeout=1800, tag="sim")
    if not res.ok:
        raise vf.MachineryError("simulation violates %s" % res.violated)
    beh = os.path.join(c.scratch, "sim.txt")
    if vf.extract_behaviours(res.stdout_path, beh) == 0:
        raise vf.MachineryError("no simulated behaviours")
    variants = "memdb,memdb-index,goleveldb"
    rep = vf.run_harness("vh-txindex", ["replay", "-in", beh, "-variants", variants, "-dir", ldb, "-every-step"],
                         env={"VERIF_SEED": c.seed}, timeout=1800)
    c.add_replay(rep, "TLC -simulate depth 30 (10 heights, 3 addresses, <=24 results, page sizes up to 30) over " + variants)
    _judge_replay(c, rep, "C42 simulate")
    if c.violations:
        return c.finish(rule="stopped after the first failing stage")

    # 4. code -> spec: seeded random driver (heights up to 10^6, blocks up to 13 results, 5 addresses, >= 60 results a trace)
    ntr, ntx = (400, 80) if thorough else (30, 60)
    tr = os.path.join(c.scratch, "trace-txindex.ndjson")
    targs = ["trace", "-out", tr, "-n", ntr, "-txs", ntx, "-backend", "mixed", "-dir", ldb]
    rep = vf.run_harness("vh-txindex", targs, env={"VERIF_SEED": c.seed}, timeout=1800)
    c.add("impl_steps", rep["steps"])
    hcmd = ["vh-txindex"] + [str(a) for a in targs]
    known = _known_entry(c)
    strict = vf.run_tlc(SPEC, "TraceTxIndex", "TraceTxIndex.cfg", c.scratch, workers=1, env={"TRACE_FILE": tr},
                        timeout=3000, tag="TraceTxIndex-strict")
    accepted_cfg = None
    if strict.ok:
        c.add("trace_events_validated", max(strict.distinct - 1, 0))
        c.add("traces_validated_against_impl", ntr)
        c.parts.append("random driver traces: %d traces / %d events accepted by TraceTxIndex (C42 as stated)" % (ntr, strict.distinct - 1))
        accepted_cfg = "TraceTxIndex.cfg"
    elif known:
        # the statement is violated on the recorded run; is it exactly the listed pattern?
        res = vf.validate_trace(c, SPEC, "TraceTxIndex", "TraceTxIndex_known.cfg", tr,
                                "random driver traces (only Known_C42_SortInverted excluded)", hcmd, ntr, timeout=3000)
        if res.ok:
            c.known_finding(_known_text(known, known.get("what", "")))
            c.parts.append("C42 as stated is rejected at trace line %s; with Known_C42_SortInverted excluded the whole trace is accepted"
                           % strict.final_state.get("err", "?"))
            accepted_cfg = "TraceTxIndex_known.cfg"
    else:
        vf.trace_violation_from_tlc(c, strict, tr, "random driver traces", hcmd)
    with open(tr) as f:
        c.sample([json.loads(next(f)) for _ in range(6)])

    # 5. binding demonstration
    if accepted_cfg:
        def corrupt(lines):
            for i, l in enumerate(lines):
                e = json.loads(l)
                if e.get("op") == "Search" and len(e.get("ret", [])) >= 3 and i > 40:
                    e["ret"] = e["ret"][:-1]        # total unchanged, one entry of the page dropped
                    return lines[:i] + [json.dumps(e)] + lines[i + 1:]
            return None
        vf.binding_selftest(c, SPEC, "TraceTxIndex", accepted_cfg, tr, corrupt, "one entry dropped from a search page")

    # 6. observation outside the statement (never a verdict)
    rep = vf.run_harness("vh-txindex", ["probe"], env={"VERIF_SEED": c.seed})
    c.parts.append("observation (not judged): signer AND tx.height=5 over signer heights {2,5,10}, sort desc -> %s "
                   "(ids = height*100+position; the height condition acts as a lower bound)"
                   % rep["extra"].get("signer_and_height_5_over_heights_2_5_10"))

    return c.finish(
        rule="behaviours = (a) every transition of the bounded TxIndex state graph (all sets of results over heights {1,2,3,10}, "
             "ante failures, every Get, every search key x sort x page size 1..3 x every page incl. one past the end), each as the "
             "shortest history reaching its source state plus the transition, (b) TLC-simulated depth-30 histories, (c) recorded "
             "random-driver traces; distinct = distinct history text; non-trivial = observes or extends a non-empty history",
        exhaustive=True)


def replay42(c, path):
    """Re-execute a replay file; the listed known pattern alone does not reproduce a violation."""
    r = json.load(open(path))
    vf.build_harness(["vh-txindex"])
    if r.get("kind") == "trace":
        cmd = r["harness_cmd"]
        tr = os.path.join(c.scratch, "replay-trace.ndjson")
        args = [tr if (i > 0 and cmd[i - 1] == "-out") else a for i, a in enumerate(cmd[1:], 1)]
        args = [os.path.join(c.scratch, "leveldb") if (i > 0 and cmd[i - 1] == "-dir") else a for i, a in enumerate(args, 1)]
        os.makedirs(os.path.join(c.scratch, "leveldb"), exist_ok=True)
        vf.run_harness(cmd[0], args, env={"VERIF_SEED": r.get("seed", c.seed)})
        cfg = "TraceTxIndex_known.cfg" if _known_entry(c) else "TraceTxIndex.cfg"
        res = vf.run_tlc(SPEC, "TraceTxIndex", cfg, c.scratch, workers=1, env={"TRACE_FILE": tr}, timeout=3000)
        bad = not res.ok
        detail = "TLC %s violated, err=%s" % (res.violated, res.final_state.get("err"))
    else:
        bf = os.path.join(c.scratch, "beh.ndjson")
        with open(bf, "w") as f:
            f.write(json.dumps(r["behaviour"]) + "\n")
        cmd = r["harness_cmd"]
        rep = vf.run_harness(cmd[0], [bf if a == "{in}" else a for a in cmd[1:]], env={"VERIF_SEED": r.get("seed", c.seed)})
        others = [m for m in rep.get("mismatches", []) if not (m.get("what") == KNOWN_KIND and _known_entry(c))]
        if len(others) < len(rep.get("mismatches", [])):
            print("KNOWN-FINDING: property=%s %s" % (c.pid, _known_text(_known_entry(c), _known_entry(c).get("what", ""))))
        bad = bool(others)
        detail = json.dumps(others[0])[:500] if others else ""
    c.cleanup()
    if bad:
        print("VIOLATION property=%s replay=%s" % (c.pid, path))
        print("  reproduced: " + detail)
        return 1
    print("NOT-REPRODUCED property=%s replay=%s" % (c.pid, path))
    return 0


ENGINE_KIND = "TLA+ spec TxIndex (TLC design model of the key layout + exhaustive transition cover + simulation) replayed into types.TransactionIndexer over memdb / goleveldb; recorded traces validated by TraceTxIndex"
PROPERTIES = {
    "C42": {"run": c42, "replay": replay42, "level": "model_checking", "engine": "txindex", "design_ref": "DESIGN.md section 6 C42",
            "technique": "TLA+ model (TxIndex.tla: abstract filter/order/slice semantics plus the ELEN key layout and range-scan mechanism) "
                         "checked by TLC; transition-cover and simulated behaviours replayed into the real TransactionIndexer; recorded "
                         "traces validated by TLC (TraceTxIndex.tla)",
            "text": "All sets of up to 5 indexed results over heights {1,2,3,10} (2 vs 10 exercises the order-preserving encoding), 2 signers, "
                    "2 recipients, ante failures leaving position gaps, x every lookup and every search (height/signer/recipient, both sorts, "
                    "page sizes 1..3, every page incl. one past the end) are executed on the real indexer over memdb (AddBatch and Index) and "
                    "goleveldb and compared with the specification; random traces with heights up to 10^6 and blocks of up to 13 results are "
                    "accepted by the specification. Bounded exhaustive + sampled, not a proof.",
            "note": "Known finding F-C42: both sort directions are inverted ('asc' = newest first); exactly that pattern is reported as "
                    "KNOWN-FINDING, any other discrepancy is a violation. Trusted: TLC, the Go replay glue, tm-db. Not judged: the optional "
                    "height condition of account queries (a lower bound in the code), DeleteFromHeight, maxPerPage clamp, hash collisions "
                    "with index keys."},
}
