"""chain engine, nodes module: C19 C21 C22 C25 and the node side of C23 C24.
Spec: spec/chain (ChainBase, ChainAuth, ChainBlock, ChainNodes, MCChainNodes, TraceChainNodes);
harness: harness/chainsim + harness/cmd/vh-chain-nodes.
C23 / C24 also run the application side (checks/chain_apps.py: part_c23 / part_c24) when that module is present."""
import json
import os
import re

import vf

SPEC = os.path.join(vf.VERIF, "spec", "chain")
BIN = "vh-chain-nodes"
POOL = "staked_tokens_pool"

INV = {"C19": "C19_NodePoolExact", "C21": "C21_IndexesAgreeWithRecords", "C22": "C22_UpdatesMatchTopStaked",
       "C23": "C23_EditStakeRules", "C24": "C24_UnstakeOnceWhenDue", "C25": "C25_SlashJailRules"}
FAMILY = {"C19": "all", "C21": "all", "C22": "all", "C23": "edit", "C24": "unstake", "C25": "jail"}

# known findings this module can reproduce: TLC prints `KNOWN <key>` (TraceChainNodes.KnownLines)
KNOWN = {
    "C19-donated": ("C19", "F-C19-pool-donation",
                    "coins sent to the node staking pool's address by an ordinary send transaction stay there: pool balance = "
                    "staked + unstaking tokens + exactly the donated amount (no other discrepancy)"),
    "C25-editbypass": ("C25", "F-C25-edit-resets-jail",
                       "a jailed node that edit-stakes loses its signing info (EditStakeValidator -> DeleteValidator); the next EndBlock "
                       "re-creates it with an empty jail period, so the node is unjailed BEFORE its jail period is over (and cannot be "
                       "unjailed at all until that EndBlock)"),
    "C25-wallclock": ("C25", "F-C25-unjail-wall-clock",
                      "ValidateUnjailMessage also compares JailedUntil with time.Now(): with block timestamps later than the wall clock an "
                      "unjail that is due in block time is refused (result depends on the node's clock; DESIGN F-C12-a)"),
}

IDX = {"ixStaked", "ixChain", "ixUnstaking"}


def _staked_before(m):
    """Was the node of the stake message already staked in the state the message ran on?"""
    hist = m.get("history") or []
    step = m.get("step", 0)
    if step >= len(hist):
        return False
    e = hist[step]
    txs = e.get("txs") or []
    if not txs:
        return False
    v = (e.get("begun", {}).get("val") or {})
    r = v.get(txs[0].get("node")) if isinstance(v, dict) else None
    return bool(r) and r.get("status") == 2


def tags_of_mismatch(m):
    """Properties whose footprint contains a spec/impl divergence found in replay (same attribution as TraceChainNodes)."""
    op, field = m.get("op", ""), m.get("variant", "")
    tags = set()
    if field in IDX:
        tags.add("C21")
    if op == "BeginBlock":
        if field in ("val", "signing", "missed", "ixWaiting", "supply"):
            tags.add("C25")
        if field == "bal" and POOL in m.get("what", "") and _pool_differs(m):
            tags |= {"C25", "C19"}
        if field in ("tmSet", "prevPower", "prevTotal"):
            tags.add("C22")
    elif op.startswith("DeliverTx"):
        kind = op.split(":", 1)[1] if ":" in op else ""
        if kind == "node_stake":
            if _staked_before(m):
                tags.add("C23")
            elif field in ("bal", "supply"):
                tags.add("C19")
        elif kind == "node_unstake":
            tags.add("C24")
        elif kind == "node_unjail":
            tags.add("C25")
    elif op == "EndBlock":
        if field in ("updates", "tmSet", "prevPower", "prevTotal"):
            tags.add("C22")
        if field in ("val", "ixWaiting", "bal", "supply"):
            tags.add("C24")
        if field in ("bal", "supply") and _pool_differs(m):
            tags.add("C19")
        if field in ("signing", "missed"):
            tags.add("C25")
    return tags


def _pool_differs(m):
    mm = re.search(r"spec=(\{.*\}) real=(\{.*\})$", m.get("what", ""))
    if not mm:
        return True
    try:
        a, b = json.loads(mm.group(1)), json.loads(mm.group(2))
        return a.get(POOL) != b.get(POOL)
    except Exception:
        return True


def _design_and_replay(c, init, cfg, what, simulate=None):
    """Run one TLC configuration of the design model and replay its behaviours on the real application."""
    pid = c.pid
    res = vf.run_tlc(SPEC, "MCChainNodes", cfg, c.scratch, workers=8, env={"INIT_FILE": init}, timeout=3000,
                     simulate=simulate, seed=c.seed if simulate else None, tag="MCChainNodes-" + what.replace(" ", "_"))
    if not res.ok:
        raise vf.MachineryError("design model %s violates %s (a design counterexample is not a verdict; it must be "
                                "confirmed by replay on the real code)" % (cfg, res.violated))
    c.add_tlc(res, "TLC " + what)
    beh = os.path.join(c.scratch, "nodes-beh.txt")
    n = vf.extract_behaviours(res.stdout_path, beh)
    if n == 0:
        raise vf.MachineryError("no behaviours emitted by " + cfg)
    os.remove(res.stdout_path)
    rep = vf.run_harness_sharded(BIN, ["replay-nodes", "-in", beh], 8, env={"VERIF_SEED": c.seed}, timeout=3000)
    c.add_replay(rep, "%s: behaviours replayed block by block on PocketCoreApp" % what)
    oc = c.cov.setdefault("replay_outcomes", {})
    for k, v in rep.get("op_counts", {}).items():
        oc[k] = oc.get(k, 0) + v
    mine, abandoned = [], 0
    for m in rep.get("mismatches", []):
        if pid in tags_of_mismatch(m):
            mine.append(m)
        else:
            abandoned += 1
    c.cov["abandoned"] = c.cov.get("abandoned", 0) + abandoned
    vf.replay_mismatch_violations(c, dict(rep, mismatches=mine), pid + " replay " + what, [BIN, "replay-nodes", "-in", "{in}"])
    os.remove(beh)


def _corruptor(pid):
    """Binding self-test: alter one logged value inside this property's footprint."""
    def corrupt(lines):
        prev = None
        for i, l in enumerate(lines):
            e = json.loads(l)
            st = e.get("st", {})
            hit = False
            if i > 10 and prev is not None:
                pst = prev.get("st", {})
                if pid == "C19" and e["ev"] == "EndBlock":
                    st["bal"][POOL] += 1
                    st["supply"] += 1
                    hit = True
                elif pid == "C21" and e["ev"] == "EndBlock" and st.get("ixStaked"):
                    st["ixStaked"][0][1] += 1          # an index entry under a power the node does not have
                    hit = True
                elif pid == "C22" and e["ev"] == "EndBlock" and e.get("updates"):
                    e["updates"] = e["updates"][:-1]  # one reported update lost
                    hit = True
                elif pid == "C23" and e["ev"] == "DeliverTx" and e["tx"]["kind"] == "node_stake" and e["res"]["code"] == 0 \
                        and pst.get("val", {}).get(e["tx"]["node"], {}).get("status") == 2:
                    v = st["val"][e["tx"]["node"]]
                    v["tokens"] = pst["val"][e["tx"]["node"]]["tokens"] - 1     # an edit that lowered the stake
                    hit = True
                elif pid == "C24" and e["ev"] == "EndBlock" and len(st.get("val", {})) < len(pst.get("val", {})):
                    gone = [n for n in pst["val"] if n not in st["val"]][0]
                    st["val"][gone] = pst["val"][gone]                          # paid but the record is still there
                    hit = True
                elif pid == "C25" and e["ev"] == "BeginBlock" and any(
                        v.get("jailed") and not pst.get("val", {}).get(n, {}).get("jailed", True) for n, v in st.get("val", {}).items()):
                    n = [n for n, v in st["val"].items() if v.get("jailed") and not pst["val"].get(n, {}).get("jailed", True)][0]
                    st["val"][n]["jailed"] = False                              # slashed for downtime but not jailed
                    hit = True
            if hit:
                return lines[:i] + [json.dumps(e)] + lines[i + 1:]
            prev = e
        return None
    return corrupt


def common(c):
    pid = c.pid
    thorough = c.tier == "thorough"
    vf.build_harness([BIN])
    c.assume("the harness plays Tendermint deterministically (block metas, votes from the reported validator set - optionally lagging 1-2 "
             "blocks like Tendermint's update delay -, duplicate-vote evidence, tx indexing after Commit); small-number economy (amounts < 2^31)")
    c.assume("non-custodial feature (NCUST) active from height 2, every modelled step at height >= 3: the pre-NCUST legacy branches "
             "(LegacyForceValidatorUnstake, custodial stake) are not modelled; heights stay below 30040 (the 'june 30 fork' signing-info "
             "reset is modelled but not reached)")
    c.assume("slash fractions, MinSignedPerWindow and MaxEvidenceAge are configured so that the code's 18-decimal products are integers; "
             "DAO share of block fees as in ChainBlock.tla; stake-weight exponent 1 and weight multiplier 1 for challenge burns; UnstakingTime >= 1 interval")
    c.assume("relay-reward minting into the pool (C19's 'reward minting') is exercised by the claims module's checks, not here; "
             "'jailed nodes are removed from newly generated sessions' (C25) is covered by the session checks (C33), here only the consensus set")

    # ---- 1. design model from the projection of a real genesis; behaviours replayed ----------
    init = os.path.join(c.scratch, "nodes-init.json")
    vf.run_harness(BIN, ["init-state", "-out", init], env={"VERIF_SEED": c.seed})
    _design_and_replay(c, init, "MCChainNodes_cover_q.cfg", "transition cover (2 blocks, all choices)")
    if c.violations:
        return c.finish(rule="stopped after the first failing stage")
    fams = [FAMILY[pid]] if not thorough else ["all", "jail", "unstake", "edit"]
    for fam in fams:
        sim = dict(num=3, depth=16) if not thorough else dict(num=10, depth=22)
        cfg = "MCChainNodes_sim_%s%s.cfg" % (fam, "_t" if thorough else "")
        _design_and_replay(c, init, cfg, "simulation family %s (%d blocks deep)" % (fam, 20 if thorough else 14), simulate=sim)
        if c.violations:
            return c.finish(rule="stopped after the first failing stage")
    if thorough:
        for fam, cfg in (("edit", "MCChainNodes_cover_t.cfg"), ("jail", "MCChainNodes_cover_t_jail.cfg"), ("unstake", "MCChainNodes_cover_t_unstake.cfg")):
            _design_and_replay(c, init, cfg, "transition cover (3 blocks, %s family)" % fam)
            if c.violations:
                return c.finish(rule="stopped after the first failing stage")

    # ---- 2. recorded scripted + random chains validated by TLC with this property's invariant
    nrand, blocks = (12, 150) if thorough else (3, 60)
    tr = os.path.join(c.scratch, "trace-nodes.ndjson")
    targs = ["trace-nodes", "-out", tr, "-n", nrand, "-blocks", blocks, "-scenarios", "all"]
    rep = vf.run_harness(BIN, targs, env={"VERIF_SEED": c.seed}, timeout=3000)
    ntr = rep.get("behaviours", 0)
    c.add("impl_steps", rep["steps"])
    c.cov["trace_outcomes"] = {k: v for k, v in rep.get("op_counts", {}).items() if not k.startswith("edit:")}
    c.cov["trace_edit_matrix_outcomes"] = len([k for k in rep.get("op_counts", {}) if k.startswith("edit:")])
    res = vf.validate_trace(c, SPEC, "TraceChainNodes", "TraceChainNodes_%s.cfg" % pid, tr,
                            "scripted scenarios + random chains", [BIN] + [str(a) for a in targs], ntr, timeout=3000)
    with open(tr) as f:
        for i, l in enumerate(f):
            if i in (3, 4):
                e = json.loads(l)
                e.pop("cfg", None)
                c.sample(e)
    # known findings reproduced by the trace (printed by TLC from the named predicates of TraceChainNodes)
    out = open(res.stdout_path, errors="replace").read()
    for key, (prop, fid, text) in KNOWN.items():
        if prop != pid or ("KNOWN " + key) not in out:
            continue
        if any(f.get("id") == fid for f in c.known):
            c.known_finding("%s: %s" % (fid, text))
        else:
            c.violation("%s reproduced on the real code and not listed as an open known finding: %s" % (fid, text),
                        {"kind": "trace", "harness_cmd": [BIN] + [str(a) for a in targs], "finding": fid})

    # ---- 3. binding demonstration
    if res.ok:
        vf.binding_selftest(c, SPEC, "TraceChainNodes", "TraceChainNodes_%s.cfg" % pid, tr, _corruptor(pid),
                            "one logged value inside the footprint of %s altered" % pid)

    # ---- 4. application side of C23 / C24 (built by the applications module)
    if pid in ("C23", "C24"):
        ran = False
        try:
            from checks import chain_apps
            part = getattr(chain_apps, "part_" + pid.lower(), None)
            if part is not None:
                part(c)
                ran = True
        except ImportError:
            pass
        c.cov["application_side_ran"] = ran
        c.note("application side of %s (checks/chain_apps.py part_%s): %s" % (pid, pid.lower(), "ran" if ran else "NOT available - node side only"))
    return c.finish(
        rule="behaviours = every transition of the 2-block MCChainNodes state graph (all per-block choices: quiet / time jump / absent "
             "validator / duplicate-vote evidence of each age class / every stake, edit, unstake, unjail, send-to-pool, param-change variant) "
             "plus simulated 14-block behaviours of the property's family, each replayed block by block on a fresh PocketCoreApp with the "
             "projected state compared after BeginBlock, every DeliverTx and EndBlock; plus recorded scripted scenarios (edit matrix under 4 "
             "feature regimes, unstake at every session height with time jumps, jail / unjail at jailedUntil-1,=,+1, forced unstake, "
             "parameter changes, known-finding scenarios) and random chains validated by TLC. non-trivial = contains a successful "
             "transaction, an absent validator or evidence; distinct = distinct behaviour text",
        exhaustive=True)


def replay(c, path):
    """bin/check <id> --replay <file>: re-run a recorded violation against the current tree."""
    r = json.load(open(path))
    if r.get("kind") != "trace":
        return vf.generic_replay(c, path)
    vf.build_harness([BIN])
    cmd = [str(a) for a in r["harness_cmd"]]
    tr = os.path.join(c.scratch, "trace-nodes.ndjson")
    args = cmd[1:]
    args[args.index("-out") + 1] = tr
    vf.run_harness(BIN, args, env={"VERIF_SEED": r.get("seed", c.seed)}, timeout=3000)
    res = vf.run_tlc(SPEC, "TraceChainNodes", "TraceChainNodes_%s.cfg" % c.pid, c.scratch, workers=1, env={"TRACE_FILE": tr}, timeout=3000)
    known = "finding" in r and ("KNOWN " + [k for k, v in KNOWN.items() if v[1] == r["finding"]][0]) in open(res.stdout_path, errors="replace").read()
    c.cleanup()
    if not res.ok or known:
        print("VIOLATION property=%s replay=%s" % (c.pid, path))
        print("  reproduced: %s" % (res.violated or r.get("finding")))
        return 1
    print("NOT-REPRODUCED property=%s replay=%s" % (c.pid, path))
    return 0


def _mk(pid, text):
    return {"run": common, "replay": replay, "level": "model_checking", "engine": "chain", "design_ref": "DESIGN.md section 6 " + pid,
            "engine_path": "spec/chain (ChainNodes, MCChainNodes, TraceChainNodes) + harness/chainsim + harness/cmd/vh-chain-nodes + checks/chain_nodes.py",
            "technique": "exact functional TLA+ model of the nodes module (ChainNodes.tla: stake / edit-stake / begin-unstake / unjail handlers, "
                         "BeginBlock signature accounting and evidence, EndBlock jailed counter / release / validator updates / maturation, raw index "
                         "images as sequences) with property-level predicates; design model MCChainNodes checked by TLC from the projection of a real "
                         "genesis, its transition cover and simulated behaviours replayed through ABCI on the real PocketCoreApp; recorded ABCI traces "
                         "validated by TLC (TraceChainNodes.tla, one cfg per property); binding self-test",
            "text": text, "note": NOTE}


NOTE = ("Trusted: TLC, chainsim (ABCI driver playing Tendermint, projection via keeper getters and raw index iteration), vh-chain-nodes' "
        "own projection of the missed-bit array and of derived parameters, Go signing glue. Block votes can lag the reported set by 0-2 blocks. "
        "Challenge burns are driven through the keeper (BurnForChallenge) on the block's working state, not through claim/proof transactions.")

PROPERTIES = {
    "C19": _mk("C19", "After every EndBlock of every replayed behaviour and recorded chain the node pool balance must equal the sum of "
               "staked + unstaking tokens (plus exactly the coins donated to the pool address by send transactions - known finding); stake, "
               "edit-stake, slash, forced unstake and payout steps are also compared with the exact model."),
    "C21": _mk("C21", "The raw staked-by-power, per-chain and unstaking-queue index images (read by prefix iteration) must equal the sets "
               "derived from the node records after every EndBlock, and must match the model's sequences after every ABCI call."),
    "C22": _mk("C22", "The consensus set accumulated from the reported updates must be a top-MaxValidators set of the staked, unjailed, "
               "positive-power nodes with current powers after every EndBlock (also across MaxValidators changes by governance transactions); "
               "reported updates must be exactly the set difference, leavers with power 0."),
    "C23": _mk("C23", "Every stake message on a staked node (field subsets x signer kinds x amount classes x feature regimes) must leave "
               "address, key, status, jailed flag unchanged, never lower the stake, change the output address only for the current output "
               "address (OEDIT active), the delegators only for the operator, and change nothing for a node waiting to unstake."),
    "C24": _mk("C24", "A node leaves the staked state only at EndBlock of a session-end height and only if it was waiting (begin-unstake or "
               "forced); its completion time is fixed then; in the first block whose time reaches it the output address (or operator) receives "
               "exactly the tokens, the record disappears, nobody else's balance changes; duplicate queue entries pay once."),
    "C25": _mk("C25", "Every slash burns min(slash, tokens) = pool decrease = supply decrease; below the minimum the node is jailed and "
               "waiting; jailed nodes are out of the consensus set after EndBlock; unjail succeeds iff authorized signer, stake >= minimum, "
               "jailed and block time >= end of the jail period (two known findings: edit-stake resets the period, wall-clock comparison)."),
}
ENGINE_KIND = "TLA+ application-level specification (ChainBase/ChainAuth/ChainBlock/ChainNodes) + ABCI replay and trace validation on the real PocketCoreApp"
