"""chain module `apps` (x/apps): C20 (application staking pool holds exactly the staked tokens), C28 (application
admission limits and transfers) and the APPLICATION side of C23 (edit-stake immutability) and C24 (unstaking returns
the stake exactly once, when due) - the latter two are registered by checks/chain_nodes.py and call part_c23 / part_c24.

Spec: spec/chain/ChainApps.tla (exact functional model of the three application messages and of the application part
of EndBlock + state / step predicates), MCChainApps.tla (design model started from projections of real chains),
TraceChainApps.tla (trace validation).  Harness: harness/cmd/vh-chain-apps (on harness/chainsim)."""
import json
import os

import vf

SPEC = os.path.join(vf.VERIF, "spec", "chain")
BIN = "vh-chain-apps"
REPLAY_CMD = [BIN, "replay-apps", "-in", "{in}"]

INV = {"C20": "C20_AppPoolHoldsExactlyTheStakes", "C28": "C28_AdmissionAndTransfer",
       "C23": "C23_AppEditStakeImmutability", "C24": "C24_AppUnstakeOnceWhenDue"}

KNOWN_C20 = "F-C20-pool-donation"


# --------------------------------------------------------------------------- attribution
def tags_of(cls, stage, kind, why, fields):
    """Properties in whose footprint a spec/impl divergence found in replay lies.  cls = the specification's class of the
    request (new / edit / transfer / app_unstake / app_unjail / send / rejected / tick), stage = ABCI stage (BeginBlock /
    result / DeliverTx / EndBlock), kind = message kind, why = the specification's reason for refusing an authenticated
    stake request ("ok" = accepted), fields = the differing field paths.  An edit-stake belongs to C23 except where it
    runs into an ADMISSION limit (chain count, funds for the bump): those belong to C28 on the fresh-stake and on the
    edit path alike."""
    tags = set()
    if stage == "BeginBlock":
        return tags            # fee distribution belongs to the auth / nodes modules
    if stage == "EndBlock":
        tags.add("C24")
    else:
        if cls in ("new", "transfer") or (cls == "rejected" and kind == "app_stake"):
            tags.add("C28")
        if cls == "edit":
            if why == "toomanychains":
                tags.add("C28")
            elif why == "coins":
                tags.update(("C23", "C28"))
            else:
                tags.add("C23")
        if cls == "app_unstake" or (cls == "rejected" and kind == "app_unstake"):
            tags.add("C24")
    if "application_staked_tokens_pool" in fields or ".tokens" in fields or ".status" in fields or "supply" in fields:   # status decides whether tokens count
        tags.add("C20")
    if "appIx" in fields:
        tags.add("C28")        # the staking-set index is what MaxApplications counts
    if "appUnst" in fields or ".unstakeAt" in fields:
        tags.add("C24")
    return tags


def tags_of_mismatch(m):
    hist = m.get("history") or []
    step = m.get("step", 0)
    kind = (hist[step].get("tx") or {}).get("kind", "") if step < len(hist) else ""
    what = m.get("what", "")
    fields = ",".join(p.split(": spec=")[0] for p in what.split("; "))
    why = hist[step].get("why", "") if step < len(hist) else ""
    return tags_of(m.get("op") or "", m.get("variant") or "", kind, why, fields)


# --------------------------------------------------------------------------- stages
def _prepare(c):
    vf.build_harness([BIN])
    c.assume("the harness plays Tendermint deterministically (block metas, votes from the reported validator set, tx indexing after "
             "Commit); all features active from height 2 unless a scenario says otherwise; small-number economy (amounts < 2^31)")
    c.assume("block times are whole block intervals chosen by the scenario; chain ids in generated messages are listed in ascending "
             "order (the projection sorts them); malformed chain ids are drawn from a fixed set (ChainApps.BadChainIds)")
    c.assume("relay allowance modelled exactly (floor(BaseRelaysPerPOKT/100 * tokens / 10^6) + StabilityAdjustment) when the participation "
             "rate is off and BaseRelaysPerPOKT is a multiple of 100; otherwise bound from the log and only its relation to stake / "
             "bump / transfer is judged")
    c.assume("chains run past the codec (amino -> proto) upgrade height K except variant 5 / scenario legacy-restake (K = 9, every feature "
             "at K+1): there blocks below K carry amino transactions, and the state conversion in BeginBlock K is part of the model")
    c.assume("no scenario of this module unstakes NODES, so at EndBlock only matured applications and the application pool move coins")
    init = os.path.join(c.scratch, "apps-init.json")
    if not os.path.exists(init):
        vf.run_harness(BIN, ["init-state", "-out", init], env={"VERIF_SEED": c.seed})
    return init


def _model_stage(c, pid, init, cfg, what, simulate=None, workers=8):
    if simulate:                       # num is per worker; TLC evaluates (and so emits) every successor at the last depth
        simulate = dict(simulate)
        workers = simulate.pop("workers", workers)
    """TLC on MCChainApps (exhaustive transition cover, or simulation), then every emitted behaviour replayed block by
    block on the real application.  Divergences inside pid's footprint are violations; others are counted."""
    res = vf.run_tlc(SPEC, "MCChainApps", cfg, c.scratch, workers=workers, env={"INIT_FILE": init}, timeout=3000,
                     simulate=simulate, seed=c.seed if simulate else None, tag="MCChainApps-%s-%s" % (pid, os.path.splitext(cfg)[0]))
    if not res.ok:
        raise vf.MachineryError("design model %s violates %s (a design counterexample is not a verdict; the model must first "
                                "be confirmed or corrected against the real code)" % (cfg, res.violated))
    c.add_tlc(res, "TLC %s %s" % ("simulation" if simulate else "exhaustive", cfg))
    beh = os.path.join(c.scratch, "apps-beh-%s.txt" % os.path.splitext(cfg)[0])
    if vf.extract_behaviours(res.stdout_path, beh) == 0:
        raise vf.MachineryError("no behaviours emitted by " + cfg)
    os.remove(res.stdout_path)
    rep = vf.run_harness_sharded(BIN, ["replay-apps", "-in", beh], 8, env={"VERIF_SEED": c.seed}, timeout=3000)
    if rep.get("behaviours", 0) == 0:
        raise vf.MachineryError("no behaviour was replayed for " + cfg)
    c.add_replay(rep, "%s (%s) replayed on PocketCoreApp, one block per step" % (what, cfg))
    oc = c.cov.setdefault("replay_request_classes", {})
    mine_n = other_n = 0
    for k, v in rep.get("op_counts", {}).items():
        if k.startswith("!"):          # a divergence, keyed class|stage|kind|fields: attribute every one of them
            cls, stage, kind, why, fields = (k[1:].split("|", 4) + ["", "", "", ""])[:5]
            if pid in tags_of(cls, stage, kind, why, fields):
                mine_n += v
            else:
                other_n += v
        else:
            oc[k] = oc.get(k, 0) + v
    mine = [m for m in rep.get("mismatches", []) if pid in tags_of_mismatch(m)]
    if mine_n and not mine:            # none of the verbatim samples is ours: keep one anyway so the replay file is usable
        mine = rep.get("mismatches", [])[:1]
    c.cov["abandoned"] = c.cov.get("abandoned", 0) + other_n
    if other_n:
        c.note("%d divergences outside %s's footprint (first: %s)" % (other_n, pid, rep["mismatches"][0].get("what", "")[:200]))
    if mine_n:
        vf.replay_mismatch_violations(c, dict(rep, mismatches=mine[:3]), "%s replay %s (%d divergences in footprint)" % (pid, cfg, mine_n), REPLAY_CMD)
    os.remove(beh)


def _record(c, name, mode, n=0, blocks=0):
    tr = os.path.join(c.scratch, "apps-%s.ndjson" % name)
    args = ["trace-apps", "-mode", mode, "-out", tr, "-n", n, "-blocks", blocks]
    rep = vf.run_harness(BIN, args, env={"VERIF_SEED": c.seed}, timeout=3000)
    if rep.get("steps", 0) == 0:
        raise vf.MachineryError("trace driver recorded nothing (%s)" % mode)
    if mode == "scripted" and not rep.get("op_counts", {}).get("legacy-record-present"):
        raise vf.MachineryError("the legacy-restake scenario did not produce a pre-upgrade Unstaked record (dead scenario)")
    c.add("impl_steps", rep["steps"])
    oc = c.cov.setdefault("trace_result_classes", {})
    for k, v in rep.get("op_counts", {}).items():
        oc[k] = oc.get(k, 0) + v
    return tr, rep.get("behaviours", 0), [BIN] + [str(a) for a in args]


def _concat(c, name, paths):
    out = os.path.join(c.scratch, "apps-%s.ndjson" % name)
    with open(out, "w") as o:
        for p in paths:
            o.write(open(p).read())
    return out


def _corruptor(pid, limit=None):
    """One logged field altered on an event inside pid's footprint (binding demonstration)."""
    def is_staked(prev, name):
        return prev and name in prev["st"]["app"] and prev["st"]["app"][name]["status"] == 2

    def corrupt(lines):
        prev = None
        for i, l in enumerate(lines):
            e = json.loads(l)
            hit = False
            if e.get("ev") == "DeliverTx" and e["res"]["code"] == 0 and i > 8:
                tx = e["tx"]
                a = tx.get("app")
                if pid == "C28" and tx["kind"] == "app_stake" and a in e["st"]["app"] and not is_staked(prev, a):
                    e["st"]["app"][a]["maxRelays"] += 1            # allowance not the function of the stake
                    hit = True
                elif pid == "C23" and tx["kind"] == "app_stake" and tx["signer"] == a and is_staked(prev, a):
                    e["st"]["app"][a]["tokens"] = prev["st"]["app"][a]["tokens"] - 1    # an edit that lowered the stake
                    hit = True
                elif pid == "C24" and tx["kind"] == "app_unstake":
                    e["st"]["app"][a]["unstakeAt"] += 1            # wrong completion time
                    hit = True
            elif pid == "C20" and e.get("ev") == "Commit" and i > 30 and e["st"]["app"]:
                e["st"]["bal"]["application_staked_tokens_pool"] += 1
                e["st"]["supply"] += 1
                hit = True
            if hit:
                tail = lines[i + 1:i + 4] if limit else lines[i + 1:]
                return lines[:i] + [json.dumps(e)] + tail
            prev = e
        return None
    return corrupt


def _trace_stage(c, pid, tr, what, cmd, n_traces, selftest=True):
    res = vf.validate_trace(c, SPEC, "TraceChainApps", "TraceChainApps_%s.cfg" % pid, tr, what, cmd, n_traces, timeout=3000)
    if res.ok and selftest:
        vf.binding_selftest(c, SPEC, "TraceChainApps", "TraceChainApps_%s.cfg" % pid, tr, _corruptor(pid, limit=True),
                            "one logged field altered on an event in %s's footprint" % pid)
    return res


def _samples(c, tr):
    with open(tr) as f:
        evs = []
        for line in f:
            e = json.loads(line)
            e.pop("cfg", None)
            if e.get("ev") == "DeliverTx":
                evs.append(e)
            if len(evs) >= 3:
                break
        c.sample(evs)


def _known_c20(c, tr, dcmd):
    """Known finding: anyone can send coins to the pool's address.  The donation scenario is recorded on every run; the
    donation-aware invariant has accepted it (it is part of the validated trace file); if the strict invariant (pool = sum
    of stakes) rejects it, the excess is exactly the donated amount, which is the listed pattern.  Anything else is
    reported normally."""
    strict = vf.run_tlc(SPEC, "TraceChainApps", "TraceChainApps_C20strict.cfg", c.scratch, workers=1, env={"TRACE_FILE": tr},
                        tag="TraceChainApps-strict")
    if strict.ok:
        c.note("donation to the pool address no longer breaks pool = sum of stakes (known finding not reproduced)")
        return
    entry = [k for k in c.known if k.get("id") == KNOWN_C20]
    if entry:
        c.known_finding("%s: %s" % (KNOWN_C20, entry[0]["what"]))
    else:
        vf.trace_violation_from_tlc(c, strict, tr, "C20 strict (pool = sum of stakes) on the donation scenario", dcmd)


# --------------------------------------------------------------------------- C20 / C28
def common(c):
    pid = c.pid
    thorough = c.tier == "thorough"
    init = _prepare(c)
    # ---- 1. design model: transition cover + full product at depth 1 + deep simulation, all replayed
    stages = [("MCChainApps_cover_q.cfg", "transition cover", None), ("MCChainApps_rich.cfg", "amount x chain-list product on every variant", None),
              ("MCChainApps_legacy_q.cfg", "transition cover across the codec upgrade height (legacy Unstaked record, amino-era blocks)", None),
              ("MCChainApps_sim.cfg", "simulated 10-block behaviours (every successor of the 9th block)", dict(num=1, depth=12, workers=4))]
    if thorough:
        stages = [("MCChainApps_cover_q.cfg", "transition cover, 2 blocks, variants 1-3", None),
                  ("MCChainApps_cover_t.cfg", "transition cover, 3 blocks, variants 1 and 3", None),
                  ("MCChainApps_rich.cfg", "amount x chain-list product on every variant", None),
                  ("MCChainApps_rich_t.cfg", "amount x chain-list product, two blocks, variant 3", None),
                  ("MCChainApps_legacy_t.cfg", "transition cover across the codec upgrade height, 3 blocks", None),
                  ("MCChainApps_sim_t.cfg", "simulated 16-block behaviours (every successor of the 15th block)", dict(num=3, depth=18, workers=8))]
    for cfg, what, sim in stages:
        _model_stage(c, pid, init, cfg, what, simulate=sim)
        if c.violations:
            return c.finish(rule="stopped after the first failing stage")
    # ---- 2. recorded scenarios validated by TLC with this property's invariant
    s_tr, s_n, s_cmd = _record(c, "scripted", "scripted")
    ntr, blocks = (40, 40) if thorough else (5, 30)
    r_tr, r_n, r_cmd = _record(c, "random", "random", ntr, blocks)
    d_tr, d_n, d_cmd = _record(c, "donation", "donation")
    tr = _concat(c, "all", [s_tr, r_tr, d_tr])
    _samples(c, tr)
    _trace_stage(c, pid, tr, "scripted + random + donation application scenarios", r_cmd, s_n + r_n + d_n)
    if pid == "C20" and not c.violations:
        _known_c20(c, d_tr, d_cmd)
    return c.finish(
        rule="behaviours = every transition of the MCChainApps state graph (3 application keys; requests: stake amounts at every "
             "boundary x chain lists 0..max+1 / malformed, transfers between all key pairs, foreign signers, unstake, unjail, "
             "time steps 1-3, a donation) started from projections of real chains (empty set / full set / one application about "
             "to mature / 3 slots), plus TLC-simulated long behaviours, each replayed block by block on a fresh PocketCoreApp "
             "comparing the projected state after BeginBlock, DeliverTx and EndBlock; plus recorded scripted and random scenarios "
             "validated by TLC. non-trivial = contains an authenticated request or a maturing block; distinct = distinct behaviour text",
        exhaustive=True)


# --------------------------------------------------------------------------- parts for C23 / C24 (registered by chain_nodes.py)
def _part(c, pid, cfg_q, cfg_t, what):
    thorough = c.tier == "thorough"
    init = _prepare(c)
    _model_stage(c, pid, init, cfg_t if thorough else cfg_q, what + " (applications)", workers=4)
    if c.violations:
        return
    s_tr, s_n, s_cmd = _record(c, "scripted-" + pid, "scripted")
    paths, n = [s_tr], s_n
    cmd = s_cmd
    if thorough:
        r_tr, r_n, cmd = _record(c, "random-" + pid, "random", 30, 40)
        paths.append(r_tr)
        n += r_n
    tr = _concat(c, "part-" + pid, paths)
    _trace_stage(c, pid, tr, "application scenarios (%s)" % pid, cmd, n)


def part_c23(c):
    """Application side of C23: edit-stake of a staked application (design model + replay + trace validation).
    Adds to c's coverage / violations; does not call c.finish()."""
    _part(c, "C23", "MCChainApps_edit_q.cfg", "MCChainApps_edit_t.cfg", "every edit-stake request against every state")


def part_c24(c):
    """Application side of C24: begin-unstake, block-time steps around the completion time, maturation at EndBlock."""
    _part(c, "C24", "MCChainApps_unstake_q.cfg", "MCChainApps_unstake_t.cfg", "unstake requests and time steps")


def _mk(pid, text):
    return {"run": common, "level": "model_checking", "engine": "chain", "design_ref": "DESIGN.md section 6 " + pid,
            "engine_path": "spec/chain + harness/chainsim + harness/cmd/vh-chain-apps + checks/chain_apps.py",
            "technique": "TLA+ exact functional model of the application messages and EndBlock maturation (ChainApps.tla) with "
                         "property-level state / step predicates, model-checked by TLC from projections of real chains "
                         "(MCChainApps.tla); every transition and simulated long behaviours replayed through ABCI on the real "
                         "PocketCoreApp; recorded ABCI traces validated by TLC (TraceChainApps.tla), binding self-test",
            "text": text,
            "note": "Trusted: TLC, chainsim (ABCI driver playing Tendermint), the projection (keeper getters + raw iteration of the "
                    "application index prefixes), Go signing glue. Jailed applications are unreachable on this tree (nothing calls "
                    "JailApplication; genesis refuses staked+jailed), so jailed branches are modelled but not exercised. Governance "
                    "changes of application parameters are not generated here."}


PROPERTIES = {
    "C20": _mk("C20", "pool balance = sum of staked/unstaking application tokens (+ coins donated to the pool address, known finding) in "
                      "every state of the design model and at every Commit of every recorded chain; stake, edit, transfer, unstake and "
                      "maturation compared with the exact model on the real application."),
    "C28": _mk("C28", "every stake / transfer request (amount below/at/above minimum, chains 0..max+1 and malformed, insufficient funds, "
                      "transfer to existing / new key, wrong or unstaking signer) against every state of a 3-key application set with "
                      "MaxApplications 2-3: success iff the admission conditions hold, allowance = function of stake, transfer = same "
                      "record under the new key with the old one and its index entry removed."),
}
ENGINE_KIND = "TLA+ application-level specification (ChainBase/ChainAuth/ChainBlock/ChainApps...) + ABCI replay and trace validation on the real PocketCoreApp"
