"""merkle engine: C29 (Merkle-sum-index proofs of committed relays verify), C30 (they cannot be
forged or replayed).  Spec: spec/merkle (MerkleOps / MerkleSum / TraceMerkle), harness: vh-merkle."""
import json
import os
import re

import vf

SPEC = os.path.join(vf.VERIF, "spec", "merkle")
GATES = ["default", "h50", "old10"]
KNOWN_C30_1 = ("C30-1 before the codec upgrade (session height < 30024) parentHash does not bind the index: "
               "MerkleProof.Validate accepts a proof whose TargetIndex was changed to any value with the same "
               "left/right path (i + k*2^levels; for leaf 0 also -1 and every negative multiple), e.g. n=5, leaf 0, "
               "TargetIndex -8 -> (isValid=true, isReplayAttack=false); keeper.ValidateProof compares TargetIndex "
               "with the required index first, so it is not reachable on chain")

ASSUME_COMMON = [
    "ideal hash: blake2b-256 is treated as injective on the inputs the code feeds it and the 64-bit leaf sums "
    "(first 8 bytes of the leaf hash) of distinct relays as distinct with gaps far larger than the number of padding "
    "leaves; the specification never computes a hash, ranks are taken from the order the real code sorts in",
    "leaf identity is RelayProof.Bytes() (the code omits the client signature there; signatures are checked by "
    "RelayProof.Validate*, outside Merkle verification)",
    "numOfLevels handed to Validate is len(MerkleProof.HashRanges) as in keeper.ValidateProof; the keeper's own "
    "comparison with ceil(log2(total)) is re-computed by the harness with the same float expression, the keeper "
    "function itself (store, session context, pseudo-random index) is exercised by the chain engine (C32)",
    "hashing variant selected by the real codec gating (codec.UpgradeHeight / OldUpgradeHeight set per process: "
    "mainnet default 30024, 50, and 10-before-50), never codec.TestMode; ModuleCdc.upgradeOverride untouched",
]


def _model(c, cfg, what, timeout=3000):
    """design model + TLC; returns the file with one verified case per line"""
    res = vf.run_tlc(SPEC, "MCMerkle", cfg, c.scratch, workers=8, timeout=timeout)
    if not res.ok:
        raise vf.MachineryError("design model %s violates %s: the MerkleSum specification itself is inconsistent" % (cfg, res.violated))
    c.add_tlc(res, "TLC exhaustive %s (%s)" % (cfg, what))
    beh = os.path.join(c.scratch, cfg.replace(".cfg", ".cases"))
    n = vf.extract_behaviours(res.stdout_path, beh)
    os.remove(res.stdout_path)
    if n == 0:
        raise vf.MachineryError("no cases emitted by " + cfg)
    return beh, n


def _replay(c, beh, real, what):
    """spec -> code: every case on the real functions under each gating schedule (own process each:
    the schedule is process-global)"""
    known = 0
    for g in GATES:
        cmd = ["vh-merkle", "replay", "-in", "{in}", "-gate", g, "-real", str(real)]
        rep = vf.run_harness("vh-merkle", ["replay", "-in", beh, "-gate", g, "-real", real], env={"VERIF_SEED": c.seed}, timeout=3000)
        gate_bad = [m for m in rep.get("mismatches", []) if m.get("what") in ("gate", "malformed", "unparsable behaviour")]
        if gate_bad:
            raise vf.MachineryError("codec gating of the real code differs from MerkleOps!IsAfterCodecUpgrade (or malformed case): %s" % json.dumps(gate_bad[0])[:600])
        if g != GATES[0]:
            rep["nontrivial"] = 0      # the same distinct cases again under another schedule: counted once
        c.add_replay(rep, "%s replayed on the real code, schedule %s, %d real relay sets per case" % (what, g, real))
        c.add("impl_validate_calls", rep.get("steps", 0) * real)
        ex = rep.get("extra", {})
        c.add("unjudged_offpath_duplicate_cases", ex.get("unjudged_offpath_duplicate_cases", 0))
        c.add("out_of_footprint_differences", ex.get("out_of_footprint_differences", 0))
        vf.replay_mismatch_violations(c, rep, "%s replay (%s)" % (c.pid, g), cmd)
        if ex.get("known_hits", 0):
            known += ex["known_hits"]
            _known(c, "replay, schedule %s: %d accepted index aliases, e.g. %s" % (g, ex["known_hits"], json.dumps(ex.get("known_sample"))[:400]),
                   {"kind": "behaviour", "harness_cmd": cmd, "behaviour": [ex.get("known_sample", {}).get("case")]})
        c.add("known_pattern_cases_not_accepted", ex.get("known_not_reproduced", 0))
    return known


def _known(c, detail, replay):
    if any(k.get("id") == "C30-1" for k in c.known):
        c.known_finding(KNOWN_C30_1)
        c.note("known finding C30-1 reproduced: " + detail)
    else:
        c.violation("forged index accepted (not listed in known_findings.json): " + detail, replay)


def _trace(c, kind, cfg, trees, cases, maxn, corrupt_sites):
    """code -> spec: seeded random driver, validated by TraceMerkle; then the binding self-test"""
    tr = os.path.join(c.scratch, "trace-%s.ndjson" % kind)
    targs = ["trace", "-out", tr, "-kind", kind, "-trees", trees, "-cases", cases, "-maxn", maxn]
    rep = vf.run_harness("vh-merkle", targs, env={"VERIF_SEED": c.seed}, timeout=3000)
    c.add("impl_steps", rep["steps"])
    c.add("distinct_nontrivial", rep.get("nontrivial", 0))
    cmd = ["vh-merkle"] + [("{out}" if a == tr else str(a)) for a in targs]
    what = "random driver traces (%s, up to %d relays)" % (kind, maxn)
    res = vf.validate_trace(c, SPEC, "TraceMerkle", cfg, tr, what, cmd, trees, timeout=3000)
    with open(tr) as f:
        c.sample([json.loads(next(f)) for _ in range(4)])
    if not res.ok:
        return
    hits = [l for l in open(res.stdout_path, errors="replace") if l.startswith('<<"KNOWN_C30_1"')]
    if hits:
        _known(c, "recorded traces: %d accepted index aliases, first at trace line/leaf/index %s" % (len(hits), hits[0].strip()),
               {"kind": "trace", "harness_cmd": cmd, "cfg": cfg, "lines": [h.strip() for h in hits[:5]]})

    def corrupt(lines):
        for i, l in enumerate(lines):
            e = json.loads(l)
            if i > 25 and e.get("op") == "case" and e.get("site") in corrupt_sites and "fail" not in e:
                e["valid"] = 1 - e["valid"]
                return lines[:i] + [json.dumps(e)] + lines[i + 1:]
        return None
    vf.binding_selftest(c, SPEC, "TraceMerkle", cfg, tr, corrupt, "isValid of one logged verdict flipped")


# ------------------------------------------------------------------------------ C29
def c29(c):
    thorough = c.tier == "thorough"
    vf.build_harness(["vh-merkle"])
    for a in ASSUME_COMMON:
        c.assume(a)
    cfg, real = ("MCMerkle_c29_t.cfg", 5) if thorough else ("MCMerkle_c29_q.cfg", 4)
    beh, n = _model(c, cfg, "every relay count x leaf x hashing variant, honest proofs; codec gating boundary heights")
    _replay(c, beh, real, "honest cases")
    if c.violations:
        return c.finish(rule="stopped after the first failing stage")
    trees, cases = (2000, 25) if thorough else (300, 20)
    _trace(c, "honest", "TraceMerkle_C29.cfg", trees, cases, 200, ("none",))
    return c.finish(
        rule="cases = every (hashing variant, relay count n, leaf index) of the bounded model, each executed on several "
             "real relay sets (real ed25519-signed RelayProofs, ranks = real sort order), under three codec schedules, "
             "through GenerateRoot/GenerateProofs and through Evidence.GenerateMerkleRoot/GenerateMerkleProof (with "
             "max-relay truncation); plus recorded random-driver trees up to 200 relays.  distinct = distinct case text; "
             "non-trivial = n > 8 (more than one padding regime above the minimum) or, in traces, n > 17",
        exhaustive=True)


# ------------------------------------------------------------------------------ C30
def c30(c):
    thorough = c.tier == "thorough"
    vf.build_harness(["vh-merkle"])
    for a in ASSUME_COMMON:
        c.assume(a)
    c.assume("judged: isValid of every forged request (must be false); (isValid, isReplayAttack) = (false, true) for honest "
             "proofs whose path touches a zero-width range of a tree built from duplicated relays.  Not judged: the replay "
             "flag of other rejections and proofs of duplicate trees whose path avoids the duplicates (the property is silent)")
    fcfg, dcfg, real = ("MCMerkle_c30_t.cfg", "MCMerkle_dup_t.cfg", 3) if thorough else ("MCMerkle_c30_q.cfg", "MCMerkle_dup_q.cfg", 2)
    beh, n = _model(c, fcfg, "every single-field mutation / cross-leaf / cross-tree substitution of every proof")
    _replay(c, beh, real, "forged cases")
    os.remove(beh)
    if c.violations:
        return c.finish(rule="stopped after the first failing stage")
    beh, n = _model(c, dcfg, "every placement of duplicated relays x every leaf")
    _replay(c, beh, real, "duplicate-relay cases")
    os.remove(beh)
    if c.violations:
        return c.finish(rule="stopped after the first failing stage")
    trees, cases = (2000, 25) if thorough else (120, 20)
    _trace(c, "forge", "TraceMerkle_C30.cfg", trees, cases, 200,
           ("sibHash", "leaf", "tgtHash", "rootHash", "xleaf", "sibSubst", "rootTree"))
    return c.finish(
        rule="cases = every (hashing variant, n, leaf, mutation site/kind/argument) and every (n, duplicate placement, leaf) "
             "of the bounded model, each executed on real relay sets under three codec schedules; plus recorded random-driver "
             "cases on trees up to 200 relays.  distinct = distinct case text; every forged or duplicate case is non-trivial",
        exhaustive=True)


def merkle_replay(c, path):
    """bin/check <id> --replay FILE for both replay kinds of this engine"""
    r = json.load(open(path))
    if r.get("kind") != "trace":
        return vf.generic_replay(c, path)
    vf.build_harness(["vh-merkle"])
    tr = os.path.join(c.scratch, "replay-trace.ndjson")
    cmd = r["harness_cmd"]
    args = [tr if a == "{out}" else a for a in cmd[1:]]
    vf.run_harness(cmd[0], args, env={"VERIF_SEED": r.get("seed", 1)})
    cfg = "TraceMerkle_%s.cfg" % c.pid
    res = vf.run_tlc(SPEC, "TraceMerkle", cfg, c.scratch, workers=1, env={"TRACE_FILE": tr}, timeout=3000)
    known = any(l.startswith('<<"KNOWN_C30_1"') for l in open(res.stdout_path, errors="replace"))
    c.cleanup()
    if not res.ok or (known and "lines" in r):
        print("VIOLATION property=%s replay=%s" % (c.pid, path))
        print("  reproduced: %s %s" % (res.violated, res.final_state.get("err", "")))
        return 1
    print("NOT-REPRODUCED property=%s replay=%s" % (c.pid, path))
    return 0


ENGINE_KIND = ("TLA+ spec MerkleSum/MerkleOps (ideal-hash transcription of merkle.go; TLC enumerates every case) replayed into "
               "x/pocketcore/types GenerateRoot/GenerateProofs/Validate; recorded traces validated by TraceMerkle")
PROPERTIES = {
    "C29": {"run": c29, "replay": merkle_replay, "level": "model_checking", "engine": "merkle", "design_ref": "DESIGN.md section 6 C29 / C30",
            "technique": "TLA+ model (MerkleOps/MerkleSum.tla: sortAndStructure, levelUp, GenerateProofs, Validate over an ideal hash) "
                         "checked by TLC (invariant C29_HonestProofsVerify); every enumerated case replayed on the real functions with real "
                         "signed relays; recorded random-driver traces validated by TLC (TraceMerkle.tla)",
            "text": "For every relay count 5..65 (quick) / 5..130 (thorough), every leaf index and both parentHash variants the proof the "
                    "real code generates verifies against the root the real code generates, with len(HashRanges) = ceil(log2 n); executed "
                    "on several real relay sets per case, at session heights on both sides of the codec upgrade under three real gating "
                    "schedules, via merkle.go directly and via Evidence.GenerateMerkleRoot/Proof; random trees up to 200 relays are "
                    "accepted by the specification.  Bounded exhaustive + sampled, not a proof.",
            "note": "Trusted: TLC, the Go glue (relay generation, rank bookkeeping), blake2b treated as ideal.  keeper.ValidateProof "
                    "itself is not driven here (its level formula is re-computed by the harness)."},
    "C30": {"run": c30, "replay": merkle_replay, "level": "model_checking", "engine": "merkle", "design_ref": "DESIGN.md section 6 C29 / C30",
            "technique": "TLA+ model (MerkleOps/MerkleSum.tla) checked by TLC (invariants C30_ForgeriesRejected, C30_ZeroWidthIsReplay, named "
                         "deviation Known_C30_1); every enumerated mutation / duplicate placement replayed on the real structures; recorded "
                         "random-driver traces validated by TLC (TraceMerkle.tla)",
            "text": "Every single-field mutation (leaf, target hash/lower/upper, index incl. out-of-tree and negative values, each sibling "
                    "hash/lower/upper, root hash/lower/upper, level count, session height of the other hashing variant) and every "
                    "cross-leaf / cross-tree substitution of every proof of every tree with 5..17 (quick) / 5..33 (thorough) relays is "
                    "applied to the real MerkleProof/HashRange/RelayProof values and must be rejected; every placement of 1-3 duplicated "
                    "relays x every leaf must give (false, replay=true) when the path touches the zero-width range; random mutations on "
                    "trees up to 200 relays are validated against the specification.",
            "note": "Known finding C30-1 (pre-upgrade hashing does not bind the index beyond its left/right path) is reported as "
                    "KNOWN-FINDING and excluded by the named predicate Known_C30_1; fixes/C30-merkle-index-range.diff closes it."},
}
