"""relay engine: C34 (evidence exact under concurrent relays) and C35 (relays served only with
valid client and application authorization).
Spec: spec/relay (EvidenceOps, EvidenceConc, MCEvidenceConc, TraceEvidenceConc; RelayAuthOps,
RelayAuth, TraceRelayAuth); harness: harness/cmd/vh-relay (real keeper.HandleRelay /
SendClaimTx on a PocketCoreApp built by harness/chainsim, goroutines gated at the verif
yield points)."""
import concurrent.futures
import json
import os
import re

import vf

SPEC = os.path.join(vf.VERIF, "spec", "relay")

KNOWN_TEXT = {
    "F-C34-a": "two identical relays both validated before either stored => the same proof is stored twice "
               "(Relay.Validate's uniqueness check and Proof.Store are not atomic)",
    "F-C34-b": "two relays both loaded the evidence (SetProof: GetEvidence) before either stored => lost update: a relay "
               "answered with a signed response before sealing is missing from the stored evidence (also inside an already "
               "sealed evidence, through the shared slice backing array)",
    "F-C34-c": "a claim pass deleted a below-minimum evidence (and its seal mark) between a relay's load and store => the "
               "relay's stale copy revives the deleted proofs (duplicates / more proofs than the application allows)",
    "F-C35-unstaking-app": "relay served and recorded for an application whose record at the session height has status "
                           "unstaking (Relay.Validate looks the application up by address and never reads its status)",
}


def sharded(binary, args, shards, env, timeout=3000):
    """vf.run_harness_sharded + merge of the engine's own Extra counters."""
    def one(i):
        return vf.run_harness(binary, list(args) + ["-shard", i, "-of", shards], timeout=timeout, env=env)
    with concurrent.futures.ThreadPoolExecutor(max_workers=shards) as ex:
        reps = list(ex.map(one, range(shards)))
    out = dict(reps[0])
    for k in ("behaviours", "steps", "nontrivial", "distinct", "n_mismatches"):
        out[k] = sum(r.get(k, 0) for r in reps)
    out["mismatches"] = [m for r in reps for m in r.get("mismatches", [])][:5]
    out["samples"] = [s for r in reps for s in r.get("samples", [])][:2]
    oc, extra = {}, {}
    for r in reps:
        for k, v in (r.get("op_counts") or {}).items():
            oc[k] = oc.get(k, 0) + v
        for k, v in (r.get("extra") or {}).items():
            if isinstance(v, (int, float)):
                extra[k] = extra.get(k, 0) + v
            elif isinstance(v, dict) and all(isinstance(x, (int, float)) for x in v.values()):
                d = extra.setdefault(k, {})
                for kk, vv in v.items():
                    d[kk] = d.get(kk, 0) + vv
            elif v and k not in extra:
                extra[k] = v
            elif isinstance(v, dict) and isinstance(extra.get(k), dict):
                for kk, vv in v.items():
                    extra[k].setdefault(kk, vv)
    out["op_counts"], out["extra"] = oc, extra
    out["_wall"] = max(r["_wall"] for r in reps)
    return out


def known_or_violation(c, fid, count, sample, harness_cmd):
    """A property violation reproduced on the real code inside a known shape: KNOWN-FINDING if
    known_findings.json lists it, otherwise it is a violation like any other."""
    if not count:
        return
    if any(f.get("id") == fid for f in c.known):
        c.known_finding("%s: %s" % (fid, KNOWN_TEXT[fid]))
        c.cov.setdefault("known_counts", {})
        c.cov["known_counts"][fid] = c.cov["known_counts"].get(fid, 0) + int(count)
    else:
        beh = (sample or {}).get("behaviour") if isinstance(sample, dict) else None
        c.violation("%s (not listed in known_findings.json): %s; reproduced %d times on the real code" % (fid, KNOWN_TEXT[fid], count),
                    {"kind": "behaviour", "harness_cmd": harness_cmd, "behaviour": beh, "sample": sample})


def tlc_known_line(res, tag):
    """<<"C34-known", a, b, c>> printed by the trace specification at the last event."""
    txt = open(res.stdout_path, errors="replace").read()
    m = re.search(r'<<"%s"((?:, *-?\d+)+)>>' % tag, txt)
    if not m:
        return None
    return [int(x) for x in re.findall(r"-?\d+", m.group(1))]


# ----------------------------------------------------------------------------- C34
def c34(c):
    thorough = c.tier == "thorough"
    vf.build_harness(["vh-relay"])
    env = {"VERIF_SEED": c.seed}
    cmd = ["vh-relay", "replay-conc", "-in", "{in}"]
    c.assume("interleavings are explored at the granularity of the code's scheduling points (relay:validated, setproof:loaded, "
             "relay:stored) plus whole SendClaimTx passes; goroutines are gated there, one runs at a time")
    c.assume("the bloom filter of an evidence is modelled as an exact set: the harness picks relay entropies for which the "
             "real filter has no false positive among the scenario's proofs")
    c.assume("pocketcore/MinimumNumberOfProofs = 2 on the harness chain (1 makes the merkle root generator index out of range); "
             "a claim pass DELETES evidence below it, which the specification models; application allowances 1, 2, 3, 4, 6 relays; "
             "with an allowance below that minimum and two claim passes SendClaimTx panics on a revived evidence "
             "(GenerateMerkleRoot truncates to one leaf) - that configuration is outside the explored space")
    c.assume("relays are handled on the committed state of height 8 (session 5..8), claim passes on height 10; LeanPocket off; "
             "hosted chain = in-process HTTP server")

    # ---- 0. the property AS STATED on the design model: TLC is expected to find the races
    as_stated = {}
    res = vf.run_tlc(SPEC, "MCEvidenceConc", "MCEvidenceConc_asstated.cfg", c.scratch, workers=4, timeout=600, extra=["-continue"])
    txt = open(res.stdout_path, errors="replace").read()
    for inv in ("C34_NoDuplicate_AsStated", "C34_AnsweredRecorded_AsStated", "C34_WithinMax_AsStated"):
        as_stated[inv] = ("Invariant %s is violated" % inv) in txt
        c.parts.append("design model, property as stated (%s): %s" % (inv, "TLC counterexample found (to be confirmed on the real code)" if as_stated[inv] else "no counterexample"))

    # ---- 1. every interleaving / every transition of the design model, replayed on the real HandleRelay
    stages = [("MCEvidenceConc_paths_q.cfg", "every complete interleaving of 2 relays (+ claim pass), allowances 1-2, 4, 6 and aliased slices"),
              ("MCEvidenceConc_cover_q.cfg", "every transition of two 3-relay state graphs (claim pass; slice full exactly at the limit)")]
    if thorough:
        stages += [("MCEvidenceConc_paths_m.cfg", "every complete interleaving of 2 relays, allowance 3 / two claim passes"),
                   ("MCEvidenceConc_cover_m.cfg", "every transition of the other 3-relay + 1 claim state graphs"),
                   ("MCEvidenceConc_paths_t.cfg", "every complete interleaving of 3 relays"),
                   ("MCEvidenceConc_cover_t.cfg", "every transition of the 3-relay state graphs with 1-2 claim passes")]
    for cfg, what in stages:
        res = vf.run_tlc(SPEC, "MCEvidenceConc", cfg, c.scratch, workers=8, timeout=3000, heap="6g")
        if not res.ok:
            raise vf.MachineryError("design model %s violates %s outside the known race shapes (a design counterexample is "
                                    "not a verdict; extend the model / confirm by replay)" % (cfg, res.violated))
        c.add_tlc(res, "TLC %s (%s)" % (cfg, what))
        beh = os.path.join(c.scratch, "conc-beh.txt")
        if vf.extract_behaviours(res.stdout_path, beh) == 0:
            raise vf.MachineryError("no behaviours emitted by " + cfg)
        os.remove(res.stdout_path)
        rep = sharded("vh-relay", ["replay-conc", "-in", beh], 8, env)
        c.add_replay(rep, "%s replayed on the real HandleRelay / SendClaimTx with gated goroutines" % what)
        c.cov.setdefault("replay_steps", {})
        for k, v in rep.get("op_counts", {}).items():
            c.cov["replay_steps"][k] = c.cov["replay_steps"].get(k, 0) + v
        vf.replay_mismatch_violations(c, rep, "C34 replay " + cfg, cmd)
        c.add("abandoned", rep["extra"].get("reason_only_differences", 0))
        kn = rep["extra"].get("known", {})
        ks = rep["extra"].get("known_samples", {})
        for fid in ("F-C34-a", "F-C34-b", "F-C34-c"):
            known_or_violation(c, fid, kn.get(fid, 0), ks.get(fid), cmd)
        for fid, s in ks.items():
            c.cov.setdefault("known_samples", {}).setdefault(fid, s)
        os.remove(beh)
        if c.violations:
            return c.finish(rule="stopped after the first failing stage")

    if c.cov.get("abandoned"):
        raise vf.MachineryError("%d steps rejected for another reason than the specification's (outside the footprint of "
                                "C34: update EvidenceOps.ValidateEvidence)" % c.cov["abandoned"])

    # ---- 2. recorded executions under a seeded random scheduler, validated by TLC
    ntr = 4000 if thorough else 1000
    tr = os.path.join(c.scratch, "trace-conc.ndjson")
    targs = ["trace-conc", "-out", tr, "-n", ntr] + (["-big"] if thorough else [])
    rep = vf.run_harness("vh-relay", targs, env=env, timeout=3000)
    c.add("impl_steps", rep["steps"])
    c.cov["trace_steps"] = rep.get("op_counts", {})
    res = vf.validate_trace(c, SPEC, "TraceEvidenceConc", "TraceEvidenceConc.cfg", tr,
                            "randomly scheduled concurrent relays", ["vh-relay"] + [str(a) for a in targs], ntr, timeout=3000)
    if res.ok:
        kn = tlc_known_line(res, "C34-known")
        if kn is None:
            raise vf.MachineryError("trace specification did not report its known-shape counters")
        for fid, n in zip(("F-C34-a", "F-C34-b", "F-C34-c"), kn):
            known_or_violation(c, fid, n, {"trace": "vh-relay " + " ".join(str(a) for a in targs)}, ["vh-relay"] + [str(a) for a in targs])
        with open(tr) as f:
            c.sample([json.loads(next(f)) for _ in range(6)])

        def corrupt(lines):
            for i, l in enumerate(lines):
                e = json.loads(l)
                if e.get("op") == "S" and i > 30 and e["view"]["num"] >= 2:
                    e["view"]["proofs"] = e["view"]["proofs"][:-1]   # one stored proof vanishes from the log
                    e["view"]["num"] -= 1
                    return lines[:i] + [json.dumps(e)] + lines[i + 1:]
            return None
        vf.binding_selftest(c, SPEC, "TraceEvidenceConc", "TraceEvidenceConc.cfg", tr, corrupt, "one stored proof removed from a logged view")
    c.cov["design_counterexamples_as_stated"] = as_stated
    return c.finish(
        rule="behaviours = every complete interleaving (at the code's scheduling points) of 2 relays, identical and distinct, "
             "allowances 1-4 and 6, 0-3 earlier proofs, 0-2 claim passes; every transition of the 3-relay state graphs"
             + ("; every complete interleaving of 3 relays" if thorough else "") +
             "; plus seeded random schedules of 2-%d relays.  After EVERY step the announced point / reply and the projected "
             "evidence (proof multiset, count, slice capacity, filter content, cached / sealed flags) are compared with the "
             "specification, and the property is evaluated on the real evidence.  non-trivial = at least two relays overlap; "
             "distinct = distinct behaviour text" % (6 if thorough else 4),
        exhaustive=True)


# ----------------------------------------------------------------------------- C35
def c35(c):
    thorough = c.tier == "thorough"
    vf.build_harness(["vh-relay"])
    env = {"VERIF_SEED": c.seed}
    cmd = ["vh-relay", "replay-auth", "-in", "{in}"]
    c.assume("signatures are ideal: only produced signatures, one-bit corruptions, empty signatures and signatures by another "
             "key are tried")
    c.assume("world: node handled at height 10, 4 blocks per session, session node count 1, block sync allowance 10, session "
             "sync allowance 0 or 1; application a1 staked for two chains, a2 unstaking since height 3, see RelayAuthOps.tla")
    c.assume("a 'duplicate' answer of the real bloom filter for a proof that is not stored (false positive of the code's own "
             "approximate filter) ends the behaviour without a verdict; such cases are counted")

    res = vf.run_tlc(SPEC, "RelayAuth", "RelayAuth_asstated.cfg", c.scratch, workers=4, timeout=600)
    c.parts.append("design model, property as stated (C35_ServedOnlyIfAuthorized_AsStated): %s" % (
        "TLC counterexample found (to be confirmed on the real code)" if res.violated else "no counterexample"))
    c.cov["design_counterexample_as_stated"] = res.violated

    abandoned = 0
    for cfg in (["RelayAuth_a1s4.cfg", "RelayAuth_a2s2.cfg", "RelayAuth_a3s1.cfg"] if not thorough else ["RelayAuth_a1s5.cfg", "RelayAuth_a2s3.cfg", "RelayAuth_a3s2.cfg"]):
        res = vf.run_tlc(SPEC, "RelayAuth", cfg, c.scratch, workers=8, timeout=3000, heap="6g")
        if not res.ok:
            raise vf.MachineryError("design model %s violates %s (not a verdict by itself)" % (cfg, res.violated))
        c.add_tlc(res, "TLC exhaustive " + cfg)
        beh = os.path.join(c.scratch, "auth-beh.txt")
        if vf.extract_behaviours(res.stdout_path, beh) == 0:
            raise vf.MachineryError("no behaviours emitted by " + cfg)
        os.remove(res.stdout_path)
        rep = sharded("vh-relay", ["replay-auth", "-in", beh], 8, env)
        c.add_replay(rep, "transition cover %s replayed on the real HandleRelay with really signed tokens and proofs" % cfg)
        c.cov.setdefault("replay_outcomes", {}).update(rep.get("op_counts", {}))
        c.add("bloom_false_positives_skipped", rep["extra"].get("bloom_false_positives_skipped", 0))
        mine = [m for m in rep.get("mismatches", []) if m.get("what") != "code"]
        abandoned += rep["extra"].get("code_only_mismatches", 0)
        vf.replay_mismatch_violations(c, dict(rep, mismatches=mine), "C35 replay " + cfg, cmd)
        known_or_violation(c, "F-C35-unstaking-app", rep["extra"].get("known_unstaking_app_served", 0),
                           rep["extra"].get("known_sample"), cmd)
        if rep["extra"].get("known_sample"):
            c.cov.setdefault("known_samples", {}).setdefault("F-C35-unstaking-app", rep["extra"]["known_sample"])
        os.remove(beh)
        if c.violations:
            return c.finish(rule="stopped after the first failing stage")
    c.cov["abandoned"] = abandoned
    if abandoned:
        raise vf.MachineryError("%d behaviours: same served/rejected verdict but another rejection reason than the "
                                "specification's (outside the footprint of C35: update RelayAuthOps.Outcome)" % abandoned)

    ntr = 5000 if thorough else 1000
    tr = os.path.join(c.scratch, "trace-auth.ndjson")
    targs = ["trace-auth", "-out", tr, "-n", ntr] + (["-big"] if thorough else [])
    rep = vf.run_harness("vh-relay", targs, env=env, timeout=3000)
    c.add("impl_steps", rep["steps"])
    c.cov["trace_outcomes"] = rep.get("op_counts", {})
    res = vf.validate_trace(c, SPEC, "TraceRelayAuth", "TraceRelayAuth.cfg", tr, "random relays with 0-3 altered fields",
                            ["vh-relay"] + [str(a) for a in targs], ntr, timeout=3000)
    if res.ok:
        kn = tlc_known_line(res, "C35-known")
        if kn is None:
            raise vf.MachineryError("trace specification did not report its known-finding counter")
        known_or_violation(c, "F-C35-unstaking-app", kn[0], {"trace": "vh-relay " + " ".join(str(a) for a in targs)},
                           ["vh-relay"] + [str(a) for a in targs])
        with open(tr) as f:
            c.sample([json.loads(next(f)) for _ in range(4)])

        def corrupt(lines):
            for i, l in enumerate(lines):
                e = json.loads(l)
                if e.get("op") == "relay" and i > 30 and not e["served"] and e["out"] in ("token", "sig", "reqhash", "session"):
                    e["served"], e["out"] = True, "ok"           # a forged relay logged as served
                    e["ev"]["n"] += 1
                    e["total"] += 1
                    return lines[:i] + [json.dumps(e)] + lines[i + 1:]
            return None
        vf.binding_selftest(c, SPEC, "TraceRelayAuth", "TraceRelayAuth.cfg", tr, corrupt, "a rejected forged relay logged as served")
    return c.finish(
        rule="behaviours = every transition of the RelayAuth state graphs: a well-formed relay with every single altered field and "
             "every pair of altered fields" + (" and every triple of altered fields" if thorough else "") +
             " (token signature / version / client key, proof signature, request hash, payload, servicer key, chain hosted / "
             "staked / in session, session height vs tolerance 0 and 1, block height vs allowance, application staked / "
             "unstaking / absent, entropy reuse) over the evidence left by up to %d earlier relays; each replayed on the real "
             "HandleRelay; oracle = served / rejected, proofs recorded iff served, rejected relays never reach the hosted chain; "
             "plus random relays with 0-3 altered fields.  non-trivial = a served relay or an unauthorized last relay" % (4 if thorough else 3),
        exhaustive=True)


def replay(c, path):
    """bin/check <id> --replay file: re-execute a replay file written by this engine against the current tree."""
    r = json.load(open(path))
    vf.build_harness(["vh-relay"])
    cmd = r.get("harness_cmd") or []
    env = {"VERIF_SEED": r.get("seed", 1)}
    reproduced, detail = False, ""
    if r.get("kind") == "behaviour" and r.get("behaviour"):
        bf = os.path.join(c.scratch, "beh.ndjson")
        with open(bf, "w") as f:
            f.write(json.dumps(r["behaviour"]) + "\n")
        rep = vf.run_harness(cmd[0], [bf if a == "{in}" else a for a in cmd[1:]], env=env)
        ex = rep.get("extra", {})
        kn = sum((ex.get("known") or {}).values()) + ex.get("known_unstaking_app_served", 0)
        reproduced = rep.get("n_mismatches", 0) > 0 or (kn > 0 and "not listed" in r.get("summary", ""))
        detail = json.dumps(rep.get("mismatches", [])[:1] or ex.get("known"))[:500]
    elif r.get("kind") in ("trace", "behaviour"):
        mode = cmd[1]
        tr = os.path.join(c.scratch, "trace.ndjson")
        args = list(cmd[1:])
        args[args.index("-out") + 1] = tr
        vf.run_harness(cmd[0], args, env=env)
        module = "TraceEvidenceConc" if mode == "trace-conc" else "TraceRelayAuth"
        res = vf.run_tlc(SPEC, module, module + ".cfg", c.scratch, workers=1, env={"TRACE_FILE": tr}, timeout=3000)
        reproduced, detail = not res.ok, "TLC %s err=%s" % (res.violated, res.final_state.get("err"))
    else:
        raise vf.MachineryError("replay file of unknown kind %r" % r.get("kind"))
    print(("VIOLATION property=%s replay=%s" if reproduced else "NOT-REPRODUCED property=%s replay=%s") % (c.pid, path))
    if reproduced:
        print("  reproduced: " + detail)
    c.cleanup()
    return 1 if reproduced else 0


def _mk(run, pid, text, note):
    return {"run": run, "replay": replay, "level": "model_checking", "engine": "relay", "design_ref": "DESIGN.md section 6 " + pid,
            "engine_path": "spec/relay + harness/cmd/vh-relay + checks/relay.py",
            "technique": "TLA+ design model checked by TLC; every enumerated behaviour replayed on the real keeper.HandleRelay "
                         "(C34: goroutines gated at the verif yield points, real SendClaimTx); recorded executions validated by "
                         "TLC with the same operators",
            "text": text, "note": note}


PROPERTIES = {
    "C34": _mk(c34, "C34",
               "Every interleaving of 2-3 concurrent relays (identical and distinct) and claim passes at the code's scheduling "
               "points is enumerated by TLC from a model that transcribes the non-atomic validate-then-store and "
               "get-modify-set of the evidence store (including shared bloom filters and slice backing arrays); each is forced "
               "on the real HandleRelay with gated goroutines and the stored evidence is compared after every step. No "
               "duplicate proof, count within the allowance, and every relay answered before sealing recorded are evaluated on "
               "the real evidence; violations inside the listed race shapes are known findings, any other is a violation.",
               "Trusted: TLC, the gate scheduler (goroutine ids from runtime.Stack), chainsim, the projection (LRU Peek + raw db "
               "read). Races finer than the three yield points (e.g. inside SendClaimTx between reading and sealing) are not "
               "explored."),
    "C35": _mk(c35, "C35",
               "A well-formed relay and every relay with one or two (thorough: three) altered fields is handled by the real HandleRelay "
               "with really signed tokens and proofs; served iff the specification's ordered checks pass; a served relay must be "
               "authorized in the property's own words (token signed by a staked application, proof signed by the named client, "
               "request hash, servicer in session, heights within tolerance); proofs are recorded iff served.",
               "Trusted: TLC, chainsim, Go signing glue. Signature unforgeability assumed. The rejection reason is compared too "
               "but is outside the property's footprint."),
}
ENGINE_KIND = "TLA+ models of off-chain relay handling (evidence store under concurrency; relay authorization) + gated-goroutine replay and trace validation on the real keeper.HandleRelay"
