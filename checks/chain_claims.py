"""chain module `claims` (x/pocketcore MsgClaim / MsgProof): C31 C32.
Spec: spec/chain/ChainClaims.tla (+ MCChainClaims, MCChainClaimsTiming, TraceChainClaims);
harness: harness/cmd/vh-chain-claims (on top of harness/chainsim)."""
import json
import os
import re

import vf

SPEC = os.path.join(vf.VERIF, "spec", "chain")
BIN = "vh-chain-claims"

INV = {"C31": "C31_ProofLeafUnpredictable", "C32": "C32_ClaimsRewardedOnceWithProof"}

# specification classes whose decision is the END of the claim window / the selected leaf (C31's footprint)
C31_CLASSES = {"index", "internal", "mature"}


def _spec_class(m):
    mm = re.search(r"spec class ([\w-]+)/([\w-]+)", m.get("what", ""))
    return (mm.group(1), mm.group(2)) if mm else (None, None)


def tags_of_mismatch(m):
    """Attribute a spec/impl divergence found in replay to the properties whose footprint it is in."""
    if m.get("op") == "exec":
        return {"C31", "C32"}
    if m.get("op") == "BeginBlock":
        return {"C32"}                      # expiry / no payment at BeginBlock
    _, mcls = _spec_class(m)
    tags = {"C32"}
    if mcls in C31_CLASSES or (mcls == "ok" and "result of proof" in m.get("what", "")):
        tags.add("C31")
    return tags


def _known(c, fid):
    for f in c.known:
        if f.get("id") == fid:
            return f
    return None


def _sharded(args, shards, seed, timeout=3000):
    """vf.run_harness_sharded keeps only the first shard's `extra`; the counters reported there are summed here."""
    import concurrent.futures
    with concurrent.futures.ThreadPoolExecutor(max_workers=shards) as ex:
        reps = list(ex.map(lambda i: vf.run_harness(BIN, list(args) + ["-shard", i, "-of", shards], timeout=timeout, env={"VERIF_SEED": seed}), range(shards)))
    out = dict(reps[0])
    for k in ("behaviours", "steps", "nontrivial", "distinct", "n_mismatches"):
        out[k] = sum(r.get(k, 0) for r in reps)
    out["mismatches"] = [m for r in reps for m in r.get("mismatches", [])][:5]
    out["samples"] = [s for r in reps for s in r.get("samples", [])][:3]
    oc, extra = {}, {}
    for r in reps:
        for k, v in (r.get("op_counts") or {}).items():
            oc[k] = oc.get(k, 0) + v
        for k, v in (r.get("extra") or {}).items():
            if isinstance(v, int):
                extra[k] = extra.get(k, 0) + v
            else:
                extra.setdefault(k, v)
    out["op_counts"], out["extra"] = oc, extra
    out["_wall"] = max(r["_wall"] for r in reps)
    return out


def _replay_cover(c, cfg, init, what, both=True):
    res = vf.run_tlc(SPEC, "MCChainClaims", cfg, c.scratch, workers=8, env={"INIT_FILE": init}, timeout=3000)
    if not res.ok:
        raise vf.MachineryError("design model %s violates %s (a design counterexample is not a verdict; confirm by replay)" % (cfg, res.violated))
    c.add_tlc(res, "TLC exhaustive MCChainClaims " + cfg)
    beh = os.path.join(c.scratch, "claims-beh.txt")
    if vf.extract_behaviours(res.stdout_path, beh) == 0:
        raise vf.MachineryError("no behaviours emitted by " + cfg)
    os.remove(res.stdout_path)
    # every behaviour is replayed on a node that never dispatched AND on one that serves dispatches after every
    # commit (sessions cached): the specification's verdicts do not depend on it
    rep = _sharded(["replay-claims", "-in", beh] + (["-both"] if both else []), 8, c.seed)
    os.remove(beh)
    if rep.get("behaviours", 0) == 0:
        raise vf.MachineryError("dead replay: no behaviour of %s was replayed" % cfg)
    c.add_replay(rep, what + " (" + cfg + ") replayed on PocketCoreApp with real evidence, %d of the runs on a node with cached sessions (dispatches served)"
                 % rep["extra"].get("dispatching_variants", 0))
    c.cov.setdefault("replay_classes", {})
    for k, v in (rep.get("op_counts") or {}).items():
        c.cov["replay_classes"][k] = c.cov["replay_classes"].get(k, 0) + v
    mine, other = [], 0
    for m in rep.get("mismatches", []):
        if c.pid in tags_of_mismatch(m):
            mine.append(m)
        else:
            other += 1
    c.cov["abandoned"] = c.cov.get("abandoned", 0) + other
    vf.replay_mismatch_violations(c, dict(rep, mismatches=mine), c.pid + " replay " + cfg, [BIN, "replay-claims", "-in", "{in}"])
    return rep


def _expect_design_counterexample(c, module, cfg, inv, init, what):
    """TLC must find the known design-level counterexample with the strict invariant; it is
    never a verdict by itself (the confirmation on the real chain is)."""
    env = {"INIT_FILE": init} if init else None
    res = vf.run_tlc(SPEC, module, cfg, c.scratch, workers=4, env=env, timeout=900)
    if res.violated == inv:
        c.parts.append("%s: TLC finds the design counterexample of %s (%d states)" % (what, inv, res.distinct))
        return True
    if res.ok:
        c.parts.append("%s: strict invariant %s holds on the design model (finding not present in the model)" % (what, inv))
        return False
    raise vf.MachineryError("%s: unexpected TLC result %r" % (what, res))


def _traces(c, thorough):
    ntr, blocks = (24, 60) if thorough else (3, 32)
    tr = os.path.join(c.scratch, "trace-claims.ndjson")
    targs = ["trace-claims", "-out", tr, "-n", ntr, "-blocks", blocks]
    rep = vf.run_harness(BIN, targs, env={"VERIF_SEED": c.seed}, timeout=3000)
    c.add("impl_steps", rep["steps"])
    c.cov["trace_result_classes"] = rep.get("op_counts", {})
    return tr, targs, rep


def _known_pattern_lines(res, tag):
    """Lines of the validated trace at which TraceChainClaims printed the known-finding pattern `tag`."""
    out = []
    with open(res.stdout_path, errors="replace") as f:
        for l in f:
            m = re.match(r'<<"KNOWN-PATTERN", (\d+), "(\w+)">>', l.strip())
            if m and m.group(2) == tag:
                out.append(int(m.group(1)))
    return out


def _event(tr, line):
    with open(tr) as f:
        for i, l in enumerate(f, 1):
            if i == line:
                return json.loads(l)
    return None


def c31(c):
    thorough = c.tier == "thorough"
    vf.build_harness([BIN])
    _assumptions(c)
    # ---- 1. the selection function itself: range and determinism over many inputs (validated with the chains, step 4)
    ncases = 20000 if thorough else 3000
    ix = os.path.join(c.scratch, "index.ndjson")
    iargs = ["index-fn", "-out", ix, "-cases", ncases]
    rep = vf.run_harness(BIN, iargs, env={"VERIF_SEED": c.seed})
    c.add("impl_steps", rep["steps"])
    c.cov["index_spread_total5"] = rep["extra"].get("spread_total5")
    # ---- 2. window arithmetic over all B in 1..6, W in 1..4 (TLC), every valid case on a real chain
    res = vf.run_tlc(SPEC, "MCChainClaimsTiming", "MCChainClaimsTiming_cover.cfg", c.scratch, workers=4, timeout=900)
    if not res.ok:
        raise vf.MachineryError("timing model violates %s" % res.violated)
    c.add_tlc(res, "TLC exhaustive MCChainClaimsTiming (B 1..6, W 1..4, two sessions, every height around the claim window, node with / without cached session)")
    beh = os.path.join(c.scratch, "timing-beh.txt")
    if vf.extract_behaviours(res.stdout_path, beh) == 0:
        raise vf.MachineryError("no timing cases emitted")
    found = _expect_design_counterexample(c, "MCChainClaimsTiming", "MCChainClaimsTiming_strict.cfg", "C31_Strict", None, "claim window vs entropy block")
    rep = vf.run_harness(BIN, ["replay-timing", "-in", beh], env={"VERIF_SEED": c.seed}, timeout=3000)
    if rep.get("behaviours", 0) == 0:
        raise vf.MachineryError("dead replay: no timing case was replayed")
    c.add_replay(rep, "timing cases replayed: one real chain per (B, W, dispatching or not) accepted at genesis, a claim at every case height")
    c.cov["timing_outcomes"] = rep.get("op_counts", {})
    c.cov["timing_model_only_cases"] = rep["extra"].get("model_only_cases")
    c.cov["abandoned"] = c.cov.get("abandoned", 0) + rep["extra"].get("other_disagreements", 0)   # window start: C32's footprint
    vf.replay_mismatch_violations(c, rep, "C31 claim window", [BIN, "replay-timing", "-in", "{in}"])
    bnd = rep["extra"].get("boundary") or []
    confirmed = [b for b in bnd if b.get("specBoundary") and b.get("proofWithPredictedIndex") == "ok"]
    if bnd:
        c.sample({"boundary_confirmation": bnd[0]})
    kf = _known(c, "F-C31")
    if confirmed:
        b0 = confirmed[0]
        text = ("F-C31 claim accepted at its last height S+W*B = %d (B=%d W=%d S=%d) although the selecting block %d is already committed: "
                "the index %d computed from it before the claim was authored is the one the chain enforces (proof paid); %d/%d boundary cases "
                "confirmed on real chains%s" % (b0["claimHeight"], b0["B"], b0["W"], b0["sessionH"], b0["entropyHeight"], b0["predictedIndex"],
                                              len(confirmed), len([b for b in bnd if b.get("specBoundary")]),
                                              "; TLC finds it on the design model" if found else ""))
        if kf:
            c.known_finding(text)
        else:
            c.violation(text, {"kind": "timing", "harness_cmd": [BIN, "replay-timing", "-in", "{in}"], "boundary": confirmed[:3]})
    if c.violations:
        return c.finish(rule="stopped after the first failing stage")
    # ---- 3. design model of claims and proofs: the enforced index is the one hash(entropy block) selects
    init = os.path.join(c.scratch, "init.json")
    vf.run_harness(BIN, ["init-state", "-out", init], env={"VERIF_SEED": c.seed})
    if thorough:
        _expect_design_counterexample(c, "MCChainClaims", "MCChainClaims_strict31.cfg", "C31_Unpredictable_Strict", init, "claims design model")
    for cfg in (["MCChainClaims_cover.cfg"] if thorough else ["MCChainClaims_cover_q.cfg"]):
        _replay_cover(c, cfg, init, "transition cover")
        if c.violations:
            return c.finish(rule="stopped after the first failing stage")
    # ---- 4. recorded chains validated by TLC
    tr, targs, rep = _traces(c, thorough)
    with open(tr, "a") as f:                       # index-function events are validated in the same TLC run
        f.write(open(ix).read())
    res = vf.validate_trace(c, SPEC, "TraceChainClaims", "TraceChainClaims_C31.cfg", tr, "scenario and random claim chains + index function evaluations",
                            [BIN] + [str(a) for a in targs] + ["&&", BIN] + [str(a) for a in iargs], rep["behaviours"] + 1, timeout=3000)
    if res.ok:
        lines = _known_pattern_lines(res, "C31K")
        for ln in lines[:1]:
            e = _event(tr, ln)
            if e and kf:
                c.known_finding("F-C31 (trace) line %d: claim for session %d accepted at height %d = last accepted height; the index %s predicted from "
                                "committed block %s before authoring is the enforced one (TraceChainClaims reports exactly this pattern, %d times in the recorded chains)"
                                % (ln, e["tx"]["sessionH"], e["h"], e["tx"].get("predIdx"), e["tx"].get("predFrom"), len(lines)))
            elif e:
                c.violation("claim accepted at a height whose previous block selects the leaf (trace line %d)" % ln,
                            {"kind": "trace", "harness_cmd": [BIN] + [str(a) for a in targs], "line": ln, "event": e})
        _sample_trace(c, tr)

        def corrupt(lines_):
            for i, l in enumerate(lines_):
                e = json.loads(l)
                if e.get("ev") == "DeliverTx" and e["tx"].get("kind") == "proof" and e["res"]["code"] == 0 and i > 20:
                    e["tx"]["tIndex"] = (e["tx"]["tIndex"] + 1) % 5     # paid although not the selected leaf
                    return lines_[:i] + [json.dumps(e)] + lines_[i + 1:]
            return None
        vf.binding_selftest(c, SPEC, "TraceChainClaims", "TraceChainClaims_C31.cfg", tr, corrupt,
                            "a paid proof event altered to name another leaf index")
    return c.finish(rule=RULE, exhaustive=True)


def c32(c):
    thorough = c.tier == "thorough"
    vf.build_harness([BIN])
    _assumptions(c)
    init = os.path.join(c.scratch, "init.json")
    vf.run_harness(BIN, ["init-state", "-out", init], env={"VERIF_SEED": c.seed})
    found = _expect_design_counterexample(c, "MCChainClaims", "MCChainClaims_strict32.cfg", "C32_AtMostOnce_Strict", init, "claims design model")
    cfgs = ["MCChainClaims_cover.cfg", "MCChainClaims_cover_t1.cfg", "MCChainClaims_deep.cfg"] if thorough else \
           ["MCChainClaims_cover_q.cfg", "MCChainClaims_deep_q.cfg"]
    repay = 0
    for cfg in cfgs:
        rep = _replay_cover(c, cfg, init, "transition cover", both=(cfg != "MCChainClaims_deep.cfg"))   # deep.cfg: TLC enumerates both modes itself
        repay += rep["extra"].get("repay_confirmed", 0)
        c.cov["not_applicable"] = c.cov.get("not_applicable", 0) + rep["extra"].get("not_applicable", 0)
        if c.violations:
            return c.finish(rule="stopped after the first failing stage")
    kf = _known(c, "F-C32-reclaim")
    # ---- recorded chains validated by TLC
    tr, targs, rep = _traces(c, thorough)
    bnd = (rep.get("extra") or {}).get("boundary") or []
    res = vf.validate_trace(c, SPEC, "TraceChainClaims", "TraceChainClaims_C32.cfg", tr, "scenario and random claim chains",
                            [BIN] + [str(a) for a in targs], rep["behaviours"], timeout=3000)
    if res.ok:
        lines = _known_pattern_lines(res, "C32K")
        again = [b for b in bnd if b.get("proofAgain") == "ok" and b.get("mintedAgain", 0) > 0]
        if lines and again:
            b0 = again[0]
            text = ("F-C32-reclaim claim (node a1, session %d) paid %d uPOKT at height %d = S+W*B, submitted AGAIN in the same block (%s) and paid "
                    "again (%d uPOKT); trace line %d; a claim one block later is rejected (%s)%s"
                    % (b0["sessionH"], b0["minted"], b0["claimHeight"], b0["claimAgain"], b0["mintedAgain"], lines[0], b0["claimNextBlock"],
                       "; TLC finds it on the design model" if found else ""))
            if kf:
                c.known_finding(text)
            else:
                c.violation(text, {"kind": "trace", "harness_cmd": [BIN] + [str(a) for a in targs], "line": lines[0], "boundary": again[:2]})
        _sample_trace(c, tr)

        def corrupt(lines_):
            for i, l in enumerate(lines_):
                e = json.loads(l)
                if e.get("ev") == "DeliverTx" and e["tx"].get("kind") == "proof" and e["res"]["code"] != 0 and e["res"]["codespace"] == "pocketcore" and i > 20:
                    e["st"]["supply"] += 5000                               # coins appear on a rejected proof
                    e["st"]["bal"]["fee_collector"] = e["st"]["bal"].get("fee_collector", 0) + 5000
                    return lines_[:i] + [json.dumps(e)] + lines_[i + 1:]
            return None
        vf.binding_selftest(c, SPEC, "TraceChainClaims", "TraceChainClaims_C32.cfg", tr, corrupt,
                            "coins minted on a rejected proof event")
    if repay and kf:
        c.known_finding("F-C32-reclaim (replay) %d generated behaviours in which the same claim key is paid twice (claim re-submitted at height S+W*B) "
                        "reproduce step by step on the real chain" % repay)
    elif repay:
        c.violation("the same claim key is paid twice on the real chain (claim re-submitted at height S+W*B)",
                    {"kind": "behaviour", "harness_cmd": [BIN, "replay-claims", "-in", "{in}"], "count": repay})
    return c.finish(rule=RULE, exhaustive=True)


def replay(c, path):
    """bin/check <id> --replay file: behaviours are re-executed by the harness; recorded traces are
    re-recorded (the drivers are deterministic in VERIF_SEED) and validated again."""
    r = json.load(open(path))
    if r.get("kind") != "trace":
        return vf.generic_replay(c, path)
    vf.build_harness([BIN])
    tr = os.path.join(c.scratch, "replay-trace.ndjson")
    cmds, cur = [], []
    for a in r["harness_cmd"]:
        if a == "&&":
            cmds.append(cur)
            cur = []
        else:
            cur.append(a)
    cmds.append(cur)
    for i, cmd in enumerate(cmds):
        out = tr if i == 0 else tr + ".%d" % i
        args = [out if cmd[j - 1] == "-out" else a for j, a in enumerate(cmd)][1:]
        vf.run_harness(cmd[0], args, env={"VERIF_SEED": r.get("seed", c.seed)}, timeout=3000)
        if i > 0:
            with open(tr, "a") as f:
                f.write(open(out).read())
    res = vf.run_tlc(SPEC, "TraceChainClaims", "TraceChainClaims_%s.cfg" % c.pid, c.scratch, workers=1, env={"TRACE_FILE": tr}, timeout=3000)
    c.cleanup()
    if not res.ok:
        print("VIOLATION property=%s replay=%s" % (c.pid, path))
        print("  reproduced: %s violated, errs=%s" % (res.violated, res.final_state.get("errs", "")[:300]))
        return 1
    print("NOT-REPRODUCED property=%s replay=%s" % (c.pid, path))
    return 0


def _sample_trace(c, tr):
    with open(tr) as f:
        evs = []
        for i, l in enumerate(f):
            if i > 60:
                break
            e = json.loads(l)
            if e.get("ev") == "DeliverTx" and e["tx"].get("kind") in ("claim", "proof"):
                e.pop("cfg", None)
                e["st"] = {"claims": e["st"]["claims"], "supply": e["st"]["supply"]}
                evs.append(e)
        c.sample(evs[:3])


def _assumptions(c):
    c.assume("off-chain dimension: a 'dispatching' node serves PocketCoreApp.HandleDispatch for (a4, 0001) and (a5, 0002) after every commit, "
             "which puts the current session into the node-local GlobalSessionCache that ValidateClaim consults; the specification never reads "
             "that cache, so any dependence of a claim / proof outcome on it shows up as a divergence")
    c.assume("the harness plays Tendermint deterministically (block metas saved before BeginBlock, header.LastBlockId = hash of the previous "
             "block, votes from the reported validator set, tx indexing after Commit); features active from height 2 except RSCAL in the main "
             "configuration (its activation resets the stake-weight bins to 15 000 POKT, which zeroes every reward of the small economy; one "
             "recorded scenario runs with RSCAL on)")
    c.assume("evidence is real: AATs signed by the application key, relay proofs signed by the client key, Merkle roots / branches produced by "
             "pc.GenerateRoot / pc.GenerateProofs; the Merkle verdict of a branch is derived from its CONSTRUCTION (which tree, which leaf, which "
             "declared index, duplicated relays), the tree algorithm itself is the subject of C29/C30; distinct trees are assumed to have "
             "distinct root sums")
    c.assume("MaxPossibleRelays modelled as round(maxRelays / (chains * sessionNodeCount)); reward = multiplier * relays (* stake bin under RSCAL, "
             "exact for bins 0 and 1); per-chain multiplier map empty; sessions with more eligible nodes than seats are bound from the log "
             "(pseudorandom selection is C33's subject)")


RULE = ("every behaviour / timing case is run on a node that never served a dispatch and on a node that serves dispatches after every "
        "commit (session cached when the claim arrives); behaviours = every transition of the design-model state graphs started from the projection of a real chain (claim shapes x proof "
        "constructions x sessions x heights, several transactions per block; timing cases B x W x session x height), each replayed on a "
        "fresh PocketCoreApp with really signed evidence; plus recorded scripted three-session scenarios, boundary scenarios and seeded "
        "random chains validated by TLC. non-trivial = contains an accepted claim / a paid or burned proof (timing: an accepted claim); "
        "distinct = distinct behaviour text")

NOTE = ("Trusted: TLC, chainsim (ABCI driver, projection), the Go glue that signs relays / builds trees with the real library functions and "
        "labels Merkle roots by evidence-set id. Cryptographic hardness assumed (only produced / deliberately wrong inputs are tried). "
        "Challenge evidence (EvidenceType 2) is not generated.")


def _mk(pid, run, text):
    return {"run": run, "replay": replay, "level": "model_checking", "engine": "chain", "design_ref": "DESIGN.md section 6 " + pid,
            "engine_path": "spec/chain/ChainClaims.tla + MCChainClaims*.tla + TraceChainClaims.tla + harness/cmd/vh-chain-claims + checks/chain_claims.py",
            "technique": "TLA+ model of MsgClaim/MsgProof handling, claim expiry and relay reward (ChainClaims.tla) checked by TLC from the projection "
                         "of a real chain (MCChainClaims, MCChainClaimsTiming); every transition replayed through ABCI on the real PocketCoreApp "
                         "with real evidence; recorded ABCI traces validated by TLC (TraceChainClaims.tla)",
            "text": text, "note": NOTE}


PROPERTIES = {
    "C31": _mk("C31", c31,
               "TLC enumerates every blocks-per-session (1..6) x claim-window (1..4) x session x claim height and compares the last accepted claim "
               "height with the height of the block whose hash selects the leaf, as the code computes both; every case the application accepts at "
               "genesis is replayed on a real chain (accept / reject must agree; whenever the selecting block is already committed the predicted "
               "index is shown to be the enforced one). The selection function is evaluated over thousands of (hash, header, total) inputs for "
               "range and determinism, and every paid proof of the replayed / recorded chains must name exactly the index that block's hash selects."),
    "C32": _mk("C32", c32,
               "Exact functional model of claim and proof messages on the shared application state (claims, balances, supply, node stake): "
               "acceptance conditions in source order, overwrite of an existing claim, payment = mint to the node side + fee collector and "
               "deletion of the claim, replay-attack burn and deletion, expiry at BeginBlock without payment, ghost set of paid claim keys. "
               "All transitions of the bounded model (valid, early, late, duplicate, over-service, node not in session, unknown application, "
               "unsupported chain, early proof, wrong index, wrong leaf, wrong branch, wrong signer, proof twice, proof after expiry, replayed "
               "relays) are replayed on the real chain and recorded chains are validated by TLC."),
}
ENGINE_KIND = "TLA+ application-level specification (ChainBase/ChainAuth/ChainBlock/ChainClaims) + ABCI replay and trace validation on the real PocketCoreApp"
