CONSTANTS Excluded = {"burn-above-ceiling", "root-overflow"}  OverflowBin = 499
INIT TraceInit
NEXT TraceNext
INVARIANTS C27_TerminatesNonNegativeMonotonePlateau
POSTCONDITION TraceAccepted
CHECK_DEADLOCK FALSE
