----------------------------- MODULE SessionOps -----------------------------
(***************************************************************************)
(* The node selection of a session, x/pocketcore/types/session.go          *)
(* NewSessionNodes, as a pure function of                                  *)
(*   n       number of candidates = nodes in the staked-by-chain index of  *)
(*           the chain in the SESSION-START state (candidates are 1..n in  *)
(*           index order, i.e. ordered by address),                        *)
(*   ref     the condition of every candidate in the REFERENCE (later)     *)
(*           state: "ok", "jailed", "over" (staked for more chains than    *)
(*           MaxChains of the session-start state, enforced after MAXCH),  *)
(*           "gone" (no validator record), "nochain" (record no longer     *)
(*           lists the chain),                                             *)
(*   N       the session node count,                                       *)
(*   stream  the index stream: stream[k] = 1 + PseudorandomSelection(n,    *)
(*           Hash^(k-1)(sessionKey)) -- computed by the real hash          *)
(*           functions in replay, arbitrary in the exhaustive model.       *)
(***************************************************************************)
EXTENDS Integers, Sequences, FiniteSets

Status == {"ok", "jailed", "over", "gone", "nochain"}
EligibleSet(n, ref) == {i \in 1..n : ref[i] = "ok"}

\* loop state: candidates already examined, nodes selected so far (in order), outcome
\*   res: "run" (loop continues), "ok" (N nodes found), "fail" (insufficient nodes)
Start(n, N) == [seen |-> {}, sel |-> <<>>, res |-> IF n < N THEN "fail" ELSE "run"]

\* top of an iteration: every candidate was examined already -> insufficient nodes
Exhausted(st, n) == st.res = "run" /\ Cardinality(st.seen) >= n

\* one iteration that consumes index i of the stream
Iterate(st, ref, N, i) ==
    IF i \in st.seen THEN st                               \* examined before: next index
    ELSE IF ref[i] # "ok" THEN [st EXCEPT !.seen = @ \cup {i}]   \* re-check against the reference state fails
    ELSE [seen |-> st.seen \cup {i},
          sel  |-> Append(st.sel, i),
          res  |-> IF Len(st.sel) + 1 = N THEN "ok" ELSE "run"]

\* the whole loop over a given stream; "short" = the stream ended before the loop did
RECURSIVE Run(_, _, _, _, _, _)
Run(st, n, ref, N, stream, k) ==
    IF st.res # "run" THEN st
    ELSE IF Exhausted(st, n) THEN [st EXCEPT !.res = "fail"]
    ELSE IF k > Len(stream) THEN [st EXCEPT !.res = "short"]
    ELSE Run(Iterate(st, ref, N, stream[k]), n, ref, N, stream, k + 1)

Select(n, ref, N, stream) == Run(Start(n, N), n, ref, N, stream, 1)

\* ---- what C33 states about a result [res, sel]
Distinct(s) == \A a, b \in 1..Len(s) : a # b => s[a] # s[b]
SessionProperties(n, ref, N, res, sel) ==
    /\ res = "ok" => /\ Len(sel) = N                                  \* exactly the configured number
                     /\ Distinct(sel)                                 \* all distinct
                     /\ \A a \in 1..Len(sel) : sel[a] \in 1..n        \* staked for the chain at session start
                     /\ \A a \in 1..Len(sel) : ref[sel[a]] = "ok"     \* unjailed, within the chain limit (reference state)
    /\ res = "fail" => Cardinality(EligibleSet(n, ref)) < N           \* fails only when too few are eligible
    /\ Cardinality(EligibleSet(n, ref)) < N => res # "ok"
=============================================================================
