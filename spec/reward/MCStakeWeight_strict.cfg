\* the burn formula WITHOUT the known-defect exclusion: TLC is expected to find the counterexample
CONSTANTS Floors = {2, 3}  MaxCeil = 6  Counts = {1}  Mults = {1}  WFuns <- MCIdentityW  WMax = 0  WD = 1
  ExcludeKnown = FALSE  RecordHist = FALSE
INIT Init
NEXT Setup_Only
INVARIANTS TypeOK C27_BurnMonotoneInStake C27_BurnPlateau
CHECK_DEADLOCK FALSE
