\* quick 1: every reward 0..300 and fee sample x allocation grid (12 values, pairs with sum <= 100) x {no delegators, 33/33/34}, then the block reward
CONSTANTS
  Rewards <- MCRewards  TxFees <- MCTxFees  AllocPairs <- MCAllocPairs  ShareMaps <- MCShareMaps
  MaxReward = 300  ExtraRewards = {0}  FeeSet = {1, 2, 3, 7, 10, 11, 33, 99, 100, 101, 299, 300}
  Costs = {0}  PayerInit = 1000  Linear = TRUE  MaxOps = 2  RecordHist = TRUE
  AllocGrid = {0, 1, 2, 3, 10, 11, 33, 50, 67, 89, 99, 100}  AllocFixed = {}
  ShareGrid = {}  MapFixed <- Maps_NoneAndThirds  MaxDelegators = 3  SimDepth = 0
INIT Init
NEXT NextCover
VIEW view
INVARIANTS TypeOK C26_SupplyIsSumOfBalances
PROPERTIES C26_RewardMintedExactly C26_FeesSplitExactly
CHECK_DEADLOCK FALSE
