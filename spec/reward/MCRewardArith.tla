---------------------------- MODULE MCRewardArith ----------------------------
(***************************************************************************)
(* C26, design level only: the split arithmetic of RewardOps checked       *)
(* exhaustively as constant formulas (no state space) over                 *)
(*   every amount 0..300,                                                  *)
(*   every <<dao, proposer>> allocation with dao + proposer <= 100,        *)
(*   every delegator map with at most 3 entries and total share <= 100.    *)
(***************************************************************************)
EXTENDS RewardOps, TLC

Amounts  == 0..300
AllPairs == {a \in (0..100) \X (0..100) : a[1] + a[2] <= 100}
\* unordered maps as non-decreasing share sequences
AllMaps  == {<<>>} \cup {<<a>> : a \in 1..100}
            \cup {<<a, b>> : a \in 1..50, b \in 1..100} \cup {<<a, b, c>> : a \in 1..33, b \in 1..50, c \in 1..100}
ValidMaps == {m \in AllMaps : ValidShares(m) /\ \A i \in 1..(Len(m) - 1) : m[i] <= m[i + 1]}

\* node + feesCollector = reward, the fee side is the floor, nothing negative
ASSUME C26_RewardSplitConserves ==
    \A s \in 0..100, r \in Amounts :
        LET sp == SplitReward(r, s, 0) IN
        sp.node + sp.fees = r /\ sp.node >= 0 /\ sp.fees >= 0 /\ sp.fees * 100 <= r * s /\ (sp.fees + 1) * 100 > r * s

\* delegators + output = amount, every delegator share is the floor, the output address gets a non-negative remainder
ASSUME C26_NodeSplitConserves ==
    \A m \in ValidMaps, x \in Amounts :
        LET sn == SplitNode(x, m) IN
        /\ SumSeq(sn.d) + sn.out = x /\ sn.out >= 0
        /\ \A i \in 1..Len(m) : sn.d[i] * 100 <= x * m[i] /\ (sn.d[i] + 1) * 100 > x * m[i]

\* daoCut + proposerCut = fees; the DAO cut is its proportion, at most one coin below it
ASSUME C26_FeeSplitConserves ==
    \A a \in AllPairs, fees \in Amounts :
        a[1] + a[2] > 0 =>
            LET dc == DaoCut(fees, a[1], a[2]) s == a[1] + a[2] IN
            dc >= 0 /\ dc <= fees /\ dc * s <= fees * a[1] /\ (dc + 2) * s > fees * a[1]

VARIABLE x
Init == x = 0
Next == UNCHANGED x
=============================================================================
