\* thorough 3: 0..3 candidates x all five reference conditions x N in 1..3 x all index streams of length <= 6
CONSTANTS MaxNodes = 3  StatusSet = {"ok", "jailed", "over", "gone", "nochain"}  Counts = {1, 2, 3}  MaxPicks = 6  RecordHist = TRUE
INIT Init
NEXT NextEmit
INVARIANTS TypeOK C33_OnlyEligibleDistinctNodes C33_Deterministic C33_EndsWhenAllDrawn
CHECK_DEADLOCK FALSE
