\* thorough 2: every reward 0..300 x delegator maps over a 14-value share grid (<= 3 entries) x two allocations
CONSTANTS
  Rewards <- MCRewards  TxFees <- MCTxFees  AllocPairs <- MCAllocPairs  ShareMaps <- MCShareMaps
  MaxReward = 300  ExtraRewards = {0}  FeeSet = {3, 100, 299}
  Costs = {0}  PayerInit = 1000  Linear = TRUE  MaxOps = 2  RecordHist = TRUE
  AllocGrid = {}  AllocFixed <- Allocs_MainAndThird
  ShareGrid = {1, 2, 3, 5, 10, 20, 25, 33, 34, 50, 75, 98, 99, 100}  MapFixed = {}  MaxDelegators = 3  SimDepth = 0
INIT Init
NEXT NextCover
VIEW view
INVARIANTS TypeOK C26_SupplyIsSumOfBalances
PROPERTIES C26_RewardMintedExactly C26_FeesSplitExactly
CHECK_DEADLOCK FALSE
