------------------------------ MODULE MCReward ------------------------------
(* Model-checking / behaviour-generation instance of Reward (C26).          *)
EXTENDS Reward
CONSTANTS AllocGrid,   \* allocation values used for <<dao, proposer>> pairs
          ShareGrid,   \* share values used in delegator maps
          MaxDelegators, SimDepth,
          MaxReward,   \* relay rewards 1..MaxReward plus ExtraRewards
          ExtraRewards, FeeSet, AllocFixed, MapFixed

MCRewards == (1..MaxReward) \cup ExtraRewards
MCTxFees  == FeeSet

\* AllocFixed / MapFixed, when non-empty, replace the grids (used to vary one dimension at a time)
MCAllocPairs == IF AllocFixed # {} THEN AllocFixed
                ELSE {a \in AllocGrid \X AllocGrid : a[1] + a[2] <= 100}

\* delegator maps with at most MaxDelegators entries, as non-decreasing share sequences
\* (the map is unordered; the harness assigns the shares to distinct addresses)
MCShareMaps ==
    IF MapFixed # {} THEN MapFixed ELSE
    {<<>>} \cup
    UNION {{s \in [1..n -> ShareGrid] : (\A i \in 1..(n - 1) : s[i] <= s[i + 1]) /\ SumSeq(s) <= 100}
           : n \in 1..MaxDelegators}

\* named fixed sets (configuration files cannot contain tuples)
Maps_NoneAndThirds == {<<>>, <<33, 33, 34>>}
Maps_Thirds        == {<<33, 33, 34>>}
Allocs_MainAndThird == {<<10, 1>>, <<1, 2>>}
Allocs_OneSided     == {<<a, 0>> : a \in 0..100} \cup {<<0, a>> : a \in 0..100}
Allocs_All          == {a \in (0..100) \X (0..100) : a[1] + a[2] <= 100}
Fees_0_120          == 0..120

NextCover == Next /\ PrintT(ToJson(hist'))
EmitSim   == Len(hist) = SimDepth => PrintT(ToJson(hist))
HistBound == Len(hist) <= SimDepth
=============================================================================
