----------------------------- MODULE TraceSplit -----------------------------
(***************************************************************************)
(* C26, code -> spec: every event recorded from the real nodes keeper      *)
(* (RewardForRelays, fee payment, BeginBlocker/blockReward) carries the    *)
(* real ledger after the call.  Each step is judged on its own: the ledger *)
(* logged by the previous event is the pre-state, the RewardOps operators  *)
(* compute the post-state, and the logged post-state must equal it.        *)
(* A "reset" event starts a new world (concatenated traces).               *)
(***************************************************************************)
EXTENDS RewardOps, TLC, Json, IOUtils

Trace == ndJsonDeserialize(IOEnv.TRACE_FILE)

VARIABLES l, cfg, bal, supply, err
tvars == <<l, cfg, bal, supply, err>>

NoCfg == [dao |-> 0, prop |-> 0, cost |-> 0, shares |-> <<>>]

TraceInit ==
    /\ l = 1 /\ err = <<>> /\ cfg = NoCfg /\ supply = 0
    /\ bal = [op |-> 0, out |-> 0, fee |-> 0, dao |-> 0, payer |-> 0, d |-> <<>>]

Logged(e) == [bal |-> e.bal, supply |-> e.supply]

\* what the specification says the ledger (and return value) is after event e
Expected(e) ==
    CASE e.op = "RelayReward" -> LET r == RelayRewardResult(bal, supply, cfg, e.r)
                                 IN [bal |-> r.bal, supply |-> r.supply]
      [] e.op = "CollectFee"  -> CollectFeeResult(bal, supply, e.n)
      [] e.op = "BlockReward" -> BlockRewardResult(bal, supply, cfg)
      [] e.op = "Configure"   -> [bal |-> [bal EXCEPT !.d = [i \in 1..Len(e.shares) |-> 0]], supply |-> supply]
      [] OTHER                -> Logged(e)        \* reset

RetOK(e) == e.op = "RelayReward" => e.ret = RelayRewardResult(bal, supply, cfg, e.r).ret

Enabled(e) ==
    CASE e.op = "Configure"   -> ValidShares(e.shares) /\ e.dao + e.prop <= 100
      [] e.op = "BlockReward" -> cfg.dao + cfg.prop > 0 \/ bal.fee = 0
      [] e.op = "CollectFee"  -> e.n <= bal.payer
      [] OTHER                -> TRUE

TraceNext ==
    /\ l <= Len(Trace)
    /\ l' = l + 1
    /\ LET e == Trace[l] IN
       /\ cfg' = IF e.op = "Configure" THEN [dao |-> e.dao, prop |-> e.prop, cost |-> e.cost, shares |-> e.shares]
                 ELSE IF e.op = "reset" THEN NoCfg ELSE cfg
       /\ bal' = e.bal /\ supply' = e.supply
       /\ err' = IF err # <<>> THEN err
                 ELSE IF "fail" \in DOMAIN e THEN <<l, e.op, "real code failed">>
                 ELSE IF ~Enabled(e) THEN <<l, e.op, "driver left the specification's domain">>
                 ELSE IF Expected(e) # Logged(e) THEN <<l, e.op, "ledger">>
                 ELSE IF ~RetOK(e) THEN <<l, e.op, "ret">>
                 ELSE <<>>

\* C26: the real ledger after every call is the one the split arithmetic of the specification yields
C26_LedgerMatchesSpec == err = <<>>
\* C26: nothing created or lost, on the implementation's own states
C26_SupplyIsSumOfBalances == supply = Total(bal)
TraceAccepted == TLCGet("stats").diameter = Len(Trace) + 1
=============================================================================
