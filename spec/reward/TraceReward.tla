----------------------------- MODULE TraceReward -----------------------------
(***************************************************************************)
(* C27, numeric layer (code -> spec).  TLC cannot compute the 18-digit     *)
(* Newton iteration of types/decimal.go (FracPow / ApproxRoot / Power), so *)
(* the harness evaluates the REAL functions (CalculateRelayReward,         *)
(* BurnForChallenge) along sweeps and logs every result; this module       *)
(* checks the relations C27 states between the logged observations:        *)
(*   termination   - every evaluation returned before its deadline,        *)
(*   non-negative  - no negative amount,                                   *)
(*   monotone      - along a sweep in stake (or in the relay / challenge   *)
(*                   count) the amount never decreases,                    *)
(*   plateau       - from stake = ceiling on, the amount stays the same.   *)
(* Amounts exceed TLC's integers: they are logged as base-10^4 limbs, most *)
(* significant first, no leading zero limb (0 = <<>>), and compared here.  *)
(*                                                                         *)
(* Events:  series  fn, dir ("stake" | "count"), f, ceil, exp (x/100), wm, mult, fixed *)
(*          eval    stake, count, coins (limbs), neg                                   *)
(*          timeout stake, count                                                       *)
(***************************************************************************)
EXTENDS StakeWeightOps, Sequences, TLC, Json, IOUtils

CONSTANTS Excluded,     \* names of the known-finding patterns that are excluded from the checks
          OverflowBin   \* first bin whose 100th root overflows in ApproxRoot (see Known_C27_RootOverflow)

Trace == ndJsonDeserialize(IOEnv.TRACE_FILE)

VARIABLES l,      \* next line
          ser,    \* parameters of the current series
          prev,   \* previous observation of the series (order of the sweep)
          good,   \* last observation of the series that matches no excluded known pattern
          err
tvars == <<l, ser, prev, good, err>>

\* ---- limb arithmetic
ValidLimbs(a) == (\A i \in 1..Len(a) : a[i] \in 0..9999) /\ (Len(a) > 0 => a[1] # 0)
RECURSIVE LexLeq(_, _, _)
LexLeq(a, b, i) == IF i > Len(a) THEN TRUE
                   ELSE IF a[i] # b[i] THEN a[i] < b[i] ELSE LexLeq(a, b, i + 1)
Leq(a, b) == Len(a) < Len(b) \/ (Len(a) = Len(b) /\ LexLeq(a, b, 1))

\* ---- known findings (known_findings.json)
(* F-C27-b: ApproxRoot's first Newton step computes guess^99 with guess = 1 + (bin-1)/100; from bin 499 *)
(* on this exceeds the 255+60 bit limit of BigDec, the panic is swallowed and FracPow returns 1, so the   *)
(* weight of every bin >= 499 is that of bin 1 (for a non-zero exponent).                                 *)
Known_C27_RootOverflow(fn, stake) ==
    ser.exp > 0 /\ BinOf(fn, stake, ser.f, ser.ceil) >= OverflowBin
KnownHit(stake) ==
    \/ "burn-above-ceiling" \in Excluded /\ Known_C27_BurnAboveCeiling(ser.fn, stake, ser.f, ser.ceil)
    \/ "root-overflow" \in Excluded /\ Known_C27_RootOverflow(ser.fn, stake)

NoSer == [fn |-> "none", dir |-> "stake", f |-> 1, ceil |-> 1, exp |-> 0, wm |-> "1", mult |-> 0, fixed |-> 0]
NoObs == [has |-> 0, stake |-> 0, count |-> 0, coins |-> <<>>]
Obs(e) == [has |-> 1, stake |-> e.stake, count |-> e.count, coins |-> e.coins]

TraceInit == l = 1 /\ ser = NoSer /\ prev = NoObs /\ good = NoObs /\ err = <<>>

\* first failed check of an evaluation, or "" 
Judge(e) ==
    IF e.neg \/ ~ValidLimbs(e.coins) THEN "C27 non-negative"
    ELSE IF ser.dir = "stake" THEN
        IF e.count # ser.fixed \/ (prev.has = 1 /\ e.stake < prev.stake) THEN "driver order"
        ELSE IF KnownHit(e.stake) \/ good.has = 0 THEN ""
        ELSE IF ~Leq(good.coins, e.coins) THEN "C27 monotone in stake"
        ELSE IF good.stake >= ser.ceil /\ e.coins # good.coins THEN "C27 plateau beyond the ceiling"
        ELSE ""
    ELSE
        IF e.stake # ser.fixed \/ (prev.has = 1 /\ e.count < prev.count) THEN "driver order"
        ELSE IF prev.has = 1 /\ ~Leq(prev.coins, e.coins) THEN "C27 monotone in count"
        ELSE ""

TraceNext ==
    /\ l <= Len(Trace)
    /\ l' = l + 1
    /\ LET e == Trace[l] IN
       CASE e.op = "series" ->
              /\ ser' = [fn |-> e.fn, dir |-> e.dir, f |-> e.f, ceil |-> e.ceil, exp |-> e.exp, wm |-> e.wm,
                         mult |-> e.mult, fixed |-> e.fixed]
              /\ prev' = NoObs /\ good' = NoObs
              /\ err' = IF err # <<>> THEN err
                        ELSE IF e.f < 1 \/ e.ceil < e.f \/ e.exp \notin 0..100 THEN <<l, "series outside the valid parameter range">>
                        ELSE <<>>
         [] e.op = "eval" ->
              /\ UNCHANGED ser
              /\ prev' = Obs(e)
              /\ good' = IF ser.dir = "stake" /\ KnownHit(e.stake) THEN good ELSE Obs(e)
              /\ err' = IF err # <<>> THEN err ELSE IF Judge(e) # "" THEN <<l, Judge(e)>> ELSE <<>>
         [] e.op = "timeout" ->
              /\ UNCHANGED <<ser, prev, good>>
              /\ err' = IF err # <<>> THEN err ELSE <<l, "C27 termination: evaluation exceeded its deadline">>
         [] OTHER ->
              /\ UNCHANGED <<ser, prev, good>>
              /\ err' = IF err # <<>> THEN err ELSE <<l, "unknown event">>

\* C27: terminates, never negative, monotone in stake and count, constant beyond the ceiling
C27_TerminatesNonNegativeMonotonePlateau == err = <<>>
TraceAccepted == TLCGet("stats").diameter = Len(Trace) + 1
=============================================================================
