INIT Init
NEXT Next
