---------------------------- MODULE MCStakeWeight ----------------------------
EXTENDS StakeWeight
CONSTANT WMax
\* every non-decreasing weight-numerator function 0..MaxBin -> 0..WMax
MCMonotoneW == {ww \in [0..MaxBin -> 0..WMax] : \A b \in 0..(MaxBin - 1) : ww[b] <= ww[b + 1]}
\* W(bin) = bin: what exponent 1 / weight multiplier 1 computes
MCIdentityW == {[b \in 0..MaxBin |-> b]}
NextCover == Next /\ PrintT(ToJson(hist'))
=============================================================================
