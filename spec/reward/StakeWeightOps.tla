--------------------------- MODULE StakeWeightOps ---------------------------
(***************************************************************************)
(* Stake weighting (PIP-22) of relay rewards and challenge burns, the      *)
(* integer part of it, transcribed from                                    *)
(*   x/nodes/keeper/reward.go  calculateRewardRewardPip22                  *)
(*   x/nodes/keeper/slash.go   BurnForChallenge / simpleSlash              *)
(*                                                                         *)
(*   f    = ServicerStakeFloorMultiplier  (bin width, f >= 1)              *)
(*   ceil = ServicerStakeWeightCeiling    (ceil >= f)                      *)
(* The weight of a bin, bin^exponent / ServicerStakeWeightMultiplier, is   *)
(* an 18-digit Newton approximation in the code (types/decimal.go FracPow);*)
(* here it is a parameter W(bin) = wnum[bin] / wd.                         *)
(***************************************************************************)
EXTENDS Integers

Min2(a, b) == IF a <= b THEN a ELSE b

\* big.Int Quo truncates toward zero
QuoT(a, b) == IF a >= 0 THEN a \div b ELSE -((-a) \div b)

\* reward: flooredStake = min(stake - stake mod f, ceil - ceil mod f); bin = flooredStake / f
RewardFloored(stake, f, ceil) == Min2(stake - (stake % f), ceil - (ceil % f))
RewardBin(stake, f, ceil)     == QuoT(RewardFloored(stake, f, ceil), f)

\* burn, AS THE CODE HAS IT: the ceiling side subtracts the remainder of the STAKE
\*   flooredStake = min(stake - stake mod f, ceil - stake mod f)
BurnFloored(stake, f, ceil) == Min2(stake - (stake % f), ceil - (stake % f))
BurnBin(stake, f, ceil)     == QuoT(BurnFloored(stake, f, ceil), f)

BinOf(fn, stake, f, ceil) == IF fn = "burn" THEN BurnBin(stake, f, ceil) ELSE RewardBin(stake, f, ceil)

\* coins = Truncate(multiplier * count * W(bin)),  W(bin) = wnum / wd
Coins(mult, count, wnum, wd) == (mult * count * wnum) \div wd

\* simpleSlash: nothing for a non-positive amount, never more than the staked tokens
BurnApplied(coins, stake) == IF coins <= 0 THEN 0 ELSE Min2(coins, stake)

(* Known finding F-C27-a (known_findings.json): for a stake above the ceiling that is not a    *)
(* multiple of f the burn formula lands one bin BELOW the ceiling bin, so the burn decreases    *)
(* when the stake grows past the ceiling (and jumps back at every multiple of f).              *)
Known_C27_BurnAboveCeiling(fn, stake, f, ceil) == fn = "burn" /\ stake > ceil /\ stake % f # 0
=============================================================================
