---------------------------- MODULE TraceSession ----------------------------
(***************************************************************************)
(* C33, code -> spec.  Every event is one call of the real session node    *)
(* selection (types.NewSessionNodes / NewSession / keeper.HandleDispatch)  *)
(* on a real nodes keeper:                                                 *)
(*   n, ref   the candidates read from the raw staked-by-chain index of    *)
(*            the session-start state and their condition read from the    *)
(*            validator records of the reference state,                    *)
(*   N        the session node count,                                      *)
(*   stream   the index stream computed with the exported hash functions   *)
(*            (PseudorandomSelection / Hash) from the real session key,    *)
(*   res, sel the real outcome, nodes as candidate indices (0 = an address *)
(*            that is not a session-start candidate).                      *)
(* Calls with the same `world` have identical inputs.                      *)
(***************************************************************************)
EXTENDS SessionOps, TLC, Json, IOUtils

Trace == ndJsonDeserialize(IOEnv.TRACE_FILE)

VARIABLES l, prev, err
tvars == <<l, prev, err>>

NoPrev == [world |-> -1, res |-> "", sel |-> <<>>]
TraceInit == l = 1 /\ prev = NoPrev /\ err = <<>>

Judge(e) ==
    LET r == Select(e.n, e.ref, e.N, e.stream) IN
    IF "fail" \in DOMAIN e THEN "real code failed"
    ELSE IF ~(e.res \in {"ok", "fail"}) \/ Len(e.ref) # e.n THEN "malformed event"
    ELSE IF ~SessionProperties(e.n, e.ref, e.N, e.res, e.sel) THEN "C33 eligible / distinct / count / fails-only-if-too-few"
    ELSE IF prev.world = e.world /\ (prev.res # e.res \/ prev.sel # e.sel) THEN "C33 same inputs, different session"
    ELSE IF r.res = "short" THEN "logged stream too short"
    ELSE IF e.res # r.res \/ (e.res = "ok" /\ e.sel # r.sel) THEN "C33 selection differs from the specification's replay of the index stream"
    ELSE ""

TraceNext ==
    /\ l <= Len(Trace)
    /\ l' = l + 1
    /\ LET e == Trace[l] IN
       /\ prev' = [world |-> e.world, res |-> e.res, sel |-> e.sel]
       /\ err' = IF err # <<>> THEN err ELSE IF Judge(e) # "" THEN <<l, Judge(e)>> ELSE <<>>

C33_SessionsDeterministicEligibleDistinct == err = <<>>
TraceAccepted == TLCGet("stats").diameter = Len(Trace) + 1
=============================================================================
