\* thorough 1a: every reward 0..300 x every total allocation 0..100 (one-sided pairs) x {no delegators, 33/33/34}
CONSTANTS
  Rewards <- MCRewards  TxFees <- MCTxFees  AllocPairs <- MCAllocPairs  ShareMaps <- MCShareMaps
  MaxReward = 300  ExtraRewards = {0}  FeeSet = {}
  Costs = {0}  PayerInit = 1000  Linear = TRUE  MaxOps = 2  RecordHist = TRUE
  AllocGrid = {}  AllocFixed <- Allocs_OneSided
  ShareGrid = {}  MapFixed <- Maps_NoneAndThirds  MaxDelegators = 3  SimDepth = 0
INIT Init
NEXT NextCover
VIEW view
INVARIANTS TypeOK C26_SupplyIsSumOfBalances
PROPERTIES C26_RewardMintedExactly C26_FeesSplitExactly
CHECK_DEADLOCK FALSE
