------------------------------ MODULE MCSession ------------------------------
EXTENDS Session
\* a behaviour is printed when the loop has ended (the real code's result is then determined by
\* the population and the picks so far)
NextEmit == Next /\ (st'.res # "run" => PrintT(ToJson(hist')))
=============================================================================
