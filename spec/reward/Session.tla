------------------------------- MODULE Session -------------------------------
(***************************************************************************)
(* C33: sessions are deterministic and contain only eligible, distinct     *)
(* nodes.  The selection loop of NewSessionNodes as a state machine: Setup *)
(* fixes the population (candidates of the session-start state, their      *)
(* condition in the reference state) and the node count; every Pick(i) is  *)
(* one loop iteration consuming the next index of the pseudorandom stream. *)
(* In this exhaustive model the stream is arbitrary (every sequence of     *)
(* indices is explored); replay uses the stream the real hash produces.    *)
(***************************************************************************)
EXTENDS SessionOps, TLC, Json

CONSTANTS MaxNodes,     \* populations of 0..MaxNodes candidates
          StatusSet,    \* conditions used for the reference state
          Counts,       \* session node counts N
          MaxPicks,     \* streams of length <= MaxPicks
          RecordHist

VARIABLES n, ref, N, st, picks, phase, hist
vars == <<n, ref, N, st, picks, phase, hist>>

Rec(r) == IF RecordHist THEN Append(hist, r) ELSE hist

Init == n = 0 /\ ref = <<>> /\ N = 1 /\ st = Start(0, 1) /\ picks = <<>> /\ phase = 0 /\ hist = <<>>

Setup(nn, rr, NN) ==
    /\ phase = 0
    /\ n' = nn /\ ref' = rr /\ N' = NN /\ st' = Start(nn, NN) /\ picks' = <<>> /\ phase' = 1
    /\ hist' = Rec([op |-> "Setup", n |-> nn, ref |-> rr, N |-> NN, res |-> st'.res])

\* the loop notices at the top of an iteration that every candidate was examined
GiveUp ==
    /\ phase = 1 /\ Exhausted(st, n)
    /\ st' = [st EXCEPT !.res = "fail"]
    /\ UNCHANGED <<n, ref, N, picks, phase>>
    /\ hist' = Rec([op |-> "GiveUp", res |-> "fail", sel |-> st.sel])

Pick(i) ==
    /\ phase = 1 /\ st.res = "run" /\ ~Exhausted(st, n)
    /\ Len(picks) < MaxPicks
    /\ st' = Iterate(st, ref, N, i)
    /\ picks' = Append(picks, i)
    /\ UNCHANGED <<n, ref, N, phase>>
    /\ hist' = Rec([op |-> "Pick", i |-> i, res |-> st'.res, sel |-> st'.sel])

Next ==
    \/ phase = 0 /\ \E nn \in 0..MaxNodes, NN \in Counts : \E rr \in [1..nn -> StatusSet] : Setup(nn, rr, NN)
    \/ GiveUp
    \/ \E i \in 1..n : Pick(i)

Spec == Init /\ [][Next]_vars
-----------------------------------------------------------------------------
TypeOK == st.seen \subseteq 1..n /\ Len(st.sel) <= N /\ st.res \in {"run", "ok", "fail"}

\* C33: exactly N distinct nodes, each a session-start candidate that is eligible in the reference
\* state; failure only when fewer than N candidates are eligible
C33_OnlyEligibleDistinctNodes == SessionProperties(n, ref, N, st.res, st.sel)

\* C33: the outcome is a function of the inputs (population, count, stream): the step-wise loop and
\* the closed form Select agree, so equal inputs give equal sessions
C33_Deterministic ==
    LET r == Select(n, ref, N, picks) IN
    /\ st.sel = r.sel /\ st.seen = r.seen
    /\ st.res = r.res \/ (r.res \in {"short", "fail"} /\ st.res = "run")   \* "fail" is reported by GiveUp

\* the loop ends as soon as every candidate has been drawn once
C33_EndsWhenAllDrawn == (\A i \in 1..n : \E k \in 1..Len(picks) : picks[k] = i) => st.res # "run" \/ Exhausted(st, n)
=============================================================================
