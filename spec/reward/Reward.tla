------------------------------- MODULE Reward -------------------------------
(***************************************************************************)
(* C26: relay rewards and collected fees are split without creating or     *)
(* losing coins.  A ledger (operator, output address, delegators, fee      *)
(* collector, DAO, a fee payer, total supply) driven by the three calls    *)
(* of x/nodes that move reward money:                                      *)
(*   RelayReward(r)  = keeper.RewardForRelays on a validator whose         *)
(*                     computed relay reward is r coins (C27 covers how r  *)
(*                     is computed from relays and stake),                 *)
(*   CollectFee(n)   = a transaction fee reaching the fee collector,       *)
(*   BlockReward     = keeper.blockReward (BeginBlocker) for the previous  *)
(*                     proposer = the same validator.                      *)
(* Configure chooses the DAO / proposer allocations, the delegator map and *)
(* the reward cost.  The split arithmetic lives in RewardOps.              *)
(***************************************************************************)
EXTENDS RewardOps, FiniteSets, TLC, Json

CONSTANTS Rewards,       \* relay reward amounts
          TxFees,        \* fee amounts
          AllocPairs,    \* <<dao, proposer>> allocations, each 0..100, sum <= 100
          ShareMaps,     \* delegator maps (sequences of shares)
          Costs,         \* reward costs (fee(claim)+fee(proof) x fee multiplier)
          PayerInit,     \* initial balance of the fee payer (= initial supply)
          Linear,        \* TRUE: Configure ; (RelayReward | CollectFee) ; BlockReward.  FALSE: any order
          MaxOps,        \* bound on the number of ledger operations when ~Linear
          RecordHist

VARIABLES cfg, phase, bal, supply,
          last,   \* the last operation [op, arg, ret] (output only)
          hist    \* history (generation only)
vars == <<cfg, phase, bal, supply, last, hist>>
view == <<cfg, phase, bal, supply>>

Rec(r) == IF RecordHist THEN Append(hist, r) ELSE hist
Zeros(n) == [i \in 1..n |-> 0]
Ledger == [bal |-> bal, supply |-> supply]

Init ==
    /\ cfg = [dao |-> 0, prop |-> 0, cost |-> 0, shares |-> <<>>]
    /\ phase = 0
    /\ bal = [op |-> 0, out |-> 0, fee |-> 0, dao |-> 0, payer |-> PayerInit, d |-> <<>>]
    /\ supply = PayerInit
    /\ last = [op |-> "Init", arg |-> 0, ret |-> 0]
    /\ hist = <<>>

Configure(a, sh, c) ==
    /\ phase = 0
    /\ ValidShares(sh)
    /\ cfg' = [dao |-> a[1], prop |-> a[2], cost |-> c, shares |-> sh]
    /\ bal' = [bal EXCEPT !.d = Zeros(Len(sh))]
    /\ phase' = 1
    /\ UNCHANGED supply
    /\ last' = [op |-> "Configure", arg |-> 0, ret |-> 0]
    /\ hist' = Rec([op |-> "Configure", dao |-> a[1], prop |-> a[2], cost |-> c, shares |-> sh])

OpAllowed == IF Linear THEN phase = 1 ELSE phase \in 1..MaxOps

RelayReward(r) ==
    /\ OpAllowed
    /\ LET res == RelayRewardResult(bal, supply, cfg, r) IN
       /\ bal' = res.bal /\ supply' = res.supply
       /\ last' = [op |-> "RelayReward", arg |-> r, ret |-> res.ret]
    /\ phase' = phase + 1
    /\ UNCHANGED cfg
    /\ hist' = Rec([op |-> "RelayReward", r |-> r, ret |-> last'.ret, parts |-> RelayRewardParts(cfg, r),
                    bal |-> bal', supply |-> supply'])

CollectFee(n) ==
    /\ OpAllowed
    /\ n <= bal.payer
    /\ LET res == CollectFeeResult(bal, supply, n) IN bal' = res.bal /\ supply' = res.supply
    /\ phase' = phase + 1
    /\ UNCHANGED cfg
    /\ last' = [op |-> "CollectFee", arg |-> n, ret |-> 0]
    /\ hist' = Rec([op |-> "CollectFee", n |-> n, bal |-> bal', supply |-> supply'])

\* blockReward divides by dao+prop: with both allocations 0 and a non-empty collector the real
\* code panics (division by zero); that configuration is outside this specification.
BlockReward ==
    /\ IF Linear THEN phase = 2 ELSE phase \in 1..MaxOps
    /\ cfg.dao + cfg.prop > 0 \/ bal.fee = 0
    /\ LET res == BlockRewardResult(bal, supply, cfg) IN bal' = res.bal /\ supply' = res.supply
    /\ phase' = phase + 1
    /\ UNCHANGED cfg
    /\ last' = [op |-> "BlockReward", arg |-> 0, ret |-> 0]
    /\ hist' = Rec([op |-> "BlockReward", bal |-> bal', supply |-> supply'])

Next ==
    \/ phase = 0 /\ \E a \in AllocPairs, sh \in ShareMaps, c \in Costs : Configure(a, sh, c)
    \/ OpAllowed /\ \E r \in Rewards : RelayReward(r)
    \/ OpAllowed /\ \E n \in TxFees : CollectFee(n)
    \/ BlockReward

Spec == Init /\ [][Next]_vars

-----------------------------------------------------------------------------
TypeOK ==
    /\ cfg.dao \in 0..100 /\ cfg.prop \in 0..100 /\ cfg.dao + cfg.prop <= 100
    /\ ValidShares(cfg.shares) /\ Len(bal.d) = Len(cfg.shares)
    /\ \A x \in {bal.op, bal.out, bal.fee, bal.dao, bal.payer, supply} : x >= 0
    /\ \A i \in 1..Len(bal.d) : bal.d[i] >= 0

\* C26: nothing created or lost -- the supply is always the sum of all balances
C26_SupplyIsSumOfBalances == supply = Total(bal)

\* C26: the coins minted by a relay reward are exactly the computed reward r, divided into the
\* servicer's side (operator compensation + delegators + output address) and the fee collector's
\* side with nothing left over; every delegator gets floor(net*share/100), the output address the
\* (non-negative) remainder.
C26_RewardMintedExactly ==
    [][last'.op = "RelayReward" /\ phase' = phase + 1 =>
        LET r == last'.arg
            p == RelayRewardParts(cfg, r) IN
        /\ supply' - supply = r
        /\ bal'.fee - bal.fee = PctFloor(r, cfg.dao + cfg.prop)
        /\ (bal'.op - bal.op) + (bal'.out - bal.out) + (SumSeq(bal'.d) - SumSeq(bal.d))
              = r - (bal'.fee - bal.fee)
        /\ \A i \in 1..Len(bal.d) : bal'.d[i] - bal.d[i] = PctFloor(p.net, cfg.shares[i])
        /\ bal'.out - bal.out >= 0
        /\ bal'.dao = bal.dao /\ bal'.payer = bal.payer]_vars

\* C26: the collected fees are split between the DAO and the proposer side so that the parts add
\* up to the fees (the collector is emptied), and the DAO gets its proportion up to one coin.
C26_FeesSplitExactly ==
    [][last'.op = "BlockReward" /\ phase' = phase + 1 /\ bal.fee > 0 =>
        /\ bal'.fee = 0
        /\ (bal'.dao - bal.dao) + (bal'.out - bal.out) + (SumSeq(bal'.d) - SumSeq(bal.d)) = bal.fee
        /\ supply' = supply /\ bal'.op = bal.op /\ bal'.payer = bal.payer
        /\ LET s == cfg.dao + cfg.prop IN
           (bal'.dao - bal.dao) * s <= bal.fee * cfg.dao /\ (bal'.dao - bal.dao + 1) * s >= bal.fee * cfg.dao]_vars
=============================================================================
