----------------------------- MODULE RewardOps -----------------------------
(***************************************************************************)
(* Pure operators of the reward / fee distribution of x/nodes              *)
(* (keeper/params.go splitRewards, splitFeesCollected; keeper/reward.go    *)
(* RewardForRelaysPerChain, SplitNodeRewards, blockReward).                *)
(*                                                                         *)
(* All amounts are integers (uPOKT).  The code computes with 18-digit      *)
(* decimals; each operator below states which side of a split is truncated *)
(* exactly as the code does it.  Products are decomposed so that nothing   *)
(* exceeds TLC's 32-bit integers for amounts < 2^31.                       *)
(***************************************************************************)
EXTENDS Integers, Sequences

\* floor(x * p / 100) for 0 <= p <= 100 without computing x * p
PctFloor(x, p) == (x \div 100) * p + ((x % 100) * p) \div 100

RECURSIVE SumSeq(_)
SumSeq(s) == IF s = <<>> THEN 0 ELSE Head(s) + SumSeq(Tail(s))

AddSeq(a, b) == [i \in 1..Len(a) |-> a[i] + b[i]]

Min2(a, b) == IF a <= b THEN a ELSE b

\* A delegator map is a sequence of shares; valid (x/nodes/types/msg.go
\* NormalizeRewardDelegators): every share positive, total at most 100.
ValidShares(sh) == (\A i \in 1..Len(sh) : sh[i] \in 1..100) /\ SumSeq(sh) <= 100

----------------------------------------------------------------------------
(* splitRewards: feesCollected = Truncate(reward*dao/100 + reward*prop/100) -- the two  *)
(* decimal products are exact, so this is floor(reward*(dao+prop)/100); the node gets   *)
(* reward - feesCollected (the node side absorbs the fraction).                         *)
SplitReward(r, dao, prop) ==
    LET fees == PctFloor(r, dao + prop) IN [node |-> r - fees, fees |-> fees]

(* SplitNodeRewards: nothing happens for a non-positive amount; each delegator gets     *)
(* Truncate(amount * share/100) (paid only if positive), the primary recipient (output  *)
(* address) gets amount - sum (paid only if positive).                                  *)
SplitNode(amount, shares) ==
    IF amount <= 0
      THEN [d |-> [i \in 1..Len(shares) |-> 0], out |-> 0]
      ELSE LET alloc == [i \in 1..Len(shares) |-> PctFloor(amount, shares[i])]
           IN [d |-> alloc, out |-> amount - SumSeq(alloc)]

(* splitFeesCollected: daoCut = Truncate(fees * Quo(dao, dao+prop)), proposerCut = fees - daoCut.  *)
(* Quo rounds the 18-digit fraction half-even, so the cut is floor(fees*dao/(dao+prop)) except    *)
(* when that quotient is an integer and the stored fraction was rounded DOWN: then the product is  *)
(* a hair below the integer and truncation loses one coin to the proposer side (e.g. dao=1,       *)
(* prop=2, fees=3: 3 * 0.333333333333333333 -> daoCut 0).  Requires dao + prop > 0.               *)
Pow10_18Mod(s) == LET a == 1000000000 % s IN (a * a) % s
FractionRoundsDown(dao, s) == LET rem == (dao * Pow10_18Mod(s)) % s IN rem # 0 /\ 2 * rem < s
DaoCut(fees, dao, prop) ==
    LET s == dao + prop
        q == (fees \div s) * dao + ((fees % s) * dao) \div s
        integral == ((fees % s) * dao) % s = 0
    IN IF integral /\ fees > 0 /\ FractionRoundsDown(dao, s) THEN q - 1 ELSE q

----------------------------------------------------------------------------
(* Ledger: bal = [op, out, fee, dao, payer |-> Nat, d |-> Seq(Nat)] (operator address, output    *)
(* address, fee collector, DAO, a fee-paying account, one balance per delegator), supply.         *)
(* cfg = [dao, prop, cost |-> Nat, shares |-> Seq(1..100)].                                       *)

(* RewardForRelaysPerChain for a found validator, all features active, coins = r:                *)
(*   toNode, toFeeCollector = splitRewards(r); the operator is compensated min(cost, toNode)     *)
(*   (cost = fee(claim)+fee(proof)); the rest is split over delegators / output address; every   *)
(*   part is minted.  Returns the servicer's net portion.                                        *)
RelayRewardParts(cfg, r) ==
    LET sp   == SplitReward(r, cfg.dao, cfg.prop)
        cost == Min2(cfg.cost, sp.node)
        net  == sp.node - cost
        sn   == SplitNode(net, cfg.shares)
    IN [fees |-> sp.fees, cost |-> cost, net |-> net, d |-> sn.d, out |-> sn.out]

RelayRewardResult(bal, supply, cfg, r) ==
    LET p == RelayRewardParts(cfg, r) IN
    [bal |-> [bal EXCEPT !.op = @ + p.cost, !.out = @ + p.out, !.fee = @ + p.fees,
                         !.d = AddSeq(@, p.d)],
     supply |-> supply + p.cost + p.out + SumSeq(p.d) + p.fees,
     ret |-> p.net]

(* a transaction fee: payer -> fee collector *)
CollectFeeResult(bal, supply, n) ==
    [bal |-> [bal EXCEPT !.payer = @ - n, !.fee = @ + n], supply |-> supply]

(* blockReward (previous proposer = the validator, found): nothing if the collector is empty;    *)
(* daoCut -> DAO; proposerCut split over the proposer's delegators / output address.             *)
BlockRewardResult(bal, supply, cfg) ==
    IF bal.fee = 0 THEN [bal |-> bal, supply |-> supply]
    ELSE LET dc == DaoCut(bal.fee, cfg.dao, cfg.prop)
             sn == SplitNode(bal.fee - dc, cfg.shares)
         IN [bal |-> [bal EXCEPT !.fee = @ - dc - sn.out - SumSeq(sn.d), !.dao = @ + dc,
                                 !.out = @ + sn.out, !.d = AddSeq(@, sn.d)],
             supply |-> supply]

Total(bal) == bal.op + bal.out + bal.fee + bal.dao + bal.payer + SumSeq(bal.d)
=============================================================================
