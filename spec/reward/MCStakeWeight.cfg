\* design check: every (f, ceil) with f <= ceil <= 6 and every monotone W: 0..6 -> 0..2 (halves)
CONSTANTS Floors = {1, 2, 3}  MaxCeil = 6  Counts = {0, 1, 2, 7}  Mults = {1, 3}  WFuns <- MCMonotoneW  WMax = 2  WD = 2
  ExcludeKnown = TRUE  RecordHist = FALSE
INIT Init
NEXT Setup_Only
INVARIANTS TypeOK C27_RewardNonNegative C27_RewardMonotoneInStake C27_RewardMonotoneInRelays C27_RewardPlateau
  C27_BurnNonNegative C27_BurnMonotoneInStake C27_BurnMonotoneInChallenges C27_BurnPlateau
CHECK_DEADLOCK FALSE
