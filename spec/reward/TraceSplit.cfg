INIT TraceInit
NEXT TraceNext
INVARIANTS C26_LedgerMatchesSpec C26_SupplyIsSumOfBalances
POSTCONDITION TraceAccepted
CHECK_DEADLOCK FALSE
