\* random deep behaviours: free interleaving of rewards, fee payments and block rewards; amounts around
\* the reward cost (20000) and large; reward cost 0 or fee(claim)+fee(proof)
CONSTANTS
  Rewards <- MCRewards  TxFees <- MCTxFees  AllocPairs <- MCAllocPairs  ShareMaps <- MCShareMaps
  MaxReward = 40  ExtraRewards = {0, 99, 100, 101, 199, 200, 19999, 20000, 20001, 20099, 20100, 20101, 22345, 39999, 40000, 123456, 999999, 1000000, 19999999}
  FeeSet = {1, 3, 10000, 10001, 29999, 30000}
  Costs = {0, 20000}  PayerInit = 100000  Linear = FALSE  MaxOps = 12  RecordHist = TRUE
  AllocGrid = {0, 1, 10, 33, 67, 100}  AllocFixed = {}
  ShareGrid = {1, 3, 33, 34, 50, 100}  MapFixed = {}  MaxDelegators = 3  SimDepth = 12
INIT Init
NEXT Next
INVARIANTS TypeOK C26_SupplyIsSumOfBalances EmitSim
PROPERTIES C26_RewardMintedExactly C26_FeesSplitExactly
CONSTRAINT HistBound
CHECK_DEADLOCK FALSE
