\* thorough 1: 0..5 candidates x {ok, jailed, over-chained} x N in 1..3 x all index streams of length <= 5
CONSTANTS MaxNodes = 5  StatusSet = {"ok", "jailed", "over"}  Counts = {1, 2, 3}  MaxPicks = 5  RecordHist = TRUE
INIT Init
NEXT NextEmit
INVARIANTS TypeOK C33_OnlyEligibleDistinctNodes C33_Deterministic C33_EndsWhenAllDrawn
CHECK_DEADLOCK FALSE
