----------------------------- MODULE StakeWeight -----------------------------
(***************************************************************************)
(* C27, structural layer: for every bin width f, ceiling, and every        *)
(* monotone weight function W (an arbitrary non-decreasing map from bins   *)
(* to non-negative rationals wnum/WD), the relay reward and the challenge  *)
(* burn                                                                    *)
(*   - are never negative,                                                 *)
(*   - never decrease when the stake or the relay/challenge count grows,   *)
(*   - stop increasing once the stake reaches the ceiling.                 *)
(* Setup chooses (f, ceil, W); Eval is one call of the real function       *)
(* (CalculateRelayReward / BurnForChallenge) and records what it must      *)
(* return, for replay on the real code with W(bin) = bin (exponent 1,      *)
(* weight multiplier 1).                                                   *)
(***************************************************************************)
EXTENDS StakeWeightOps, Sequences, FiniteSets, TLC, Json

CONSTANTS Floors,        \* bin widths f
          MaxCeil,       \* ceilings f..MaxCeil
          Counts,        \* relay / challenge counts
          Mults,         \* RelaysToTokensMultiplier values
          WFuns,         \* weight numerators: set of functions 0..MaxBin -> Nat (monotone)
          WD,            \* weight denominator
          ExcludeKnown,  \* TRUE: the known burn defect is excluded from the burn invariants
          RecordHist

MaxBin == MaxCeil      \* f >= 1

VARIABLES f, ceil, w, phase, last, hist
vars == <<f, ceil, w, phase, last, hist>>
view == <<f, ceil, w, phase, last>>

Rec(r) == IF RecordHist THEN Append(hist, r) ELSE hist
Stakes == 0..(2 * ceil + f)

RewardCoins(s, n, m) == Coins(m, n, w[RewardBin(s, f, ceil)], WD)
BurnCoins(s, n, m)   == Coins(m, n, w[BurnBin(s, f, ceil)], WD)
CoinsOf(fn, s, n, m) == IF fn = "burn" THEN BurnCoins(s, n, m) ELSE RewardCoins(s, n, m)

NoEval == [fn |-> "none", stake |-> 0, count |-> 0, mult |-> 0, bin |-> 0, coins |-> 0, applied |-> 0]

Init == f = 1 /\ ceil = 1 /\ w = [b \in 0..MaxBin |-> 0] /\ phase = 0 /\ last = NoEval /\ hist = <<>>

Setup(ff, cc, ww) ==
    /\ phase = 0 /\ cc >= ff
    /\ f' = ff /\ ceil' = cc /\ w' = ww /\ phase' = 1 /\ last' = NoEval
    /\ hist' = Rec([op |-> "Setup", f |-> ff, ceil |-> cc])

Eval(fn, s, n, m) ==
    /\ phase = 1
    /\ LET c == CoinsOf(fn, s, n, m) IN
       last' = [fn |-> fn, stake |-> s, count |-> n, mult |-> m, bin |-> BinOf(fn, s, f, ceil), coins |-> c,
                applied |-> IF fn = "burn" THEN BurnApplied(c, s) ELSE c]
    /\ phase' = 2
    /\ UNCHANGED <<f, ceil, w>>
    /\ hist' = Rec([op |-> "Eval"] @@ last')

Next ==
    \/ phase = 0 /\ \E ff \in Floors, cc \in 1..MaxCeil, ww \in WFuns : Setup(ff, cc, ww)
    \/ phase = 1 /\ \E fn \in {"reward", "burn"}, s \in Stakes, n \in Counts, m \in Mults : Eval(fn, s, n, m)

\* design check only needs the configurations (the invariants quantify over the evaluations)
Setup_Only == phase = 0 /\ \E ff \in Floors, cc \in 1..MaxCeil, ww \in WFuns : Setup(ff, cc, ww)

-----------------------------------------------------------------------------
Monotone(ww) == \A a, b \in DOMAIN ww : a <= b => ww[a] <= ww[b]
TypeOK == f >= 1 /\ ceil >= f /\ Monotone(w) /\ \A b \in DOMAIN w : w[b] >= 0

Configured == phase = 1
Excl(fn, s) == ExcludeKnown /\ Known_C27_BurnAboveCeiling(fn, s, f, ceil)

\* ---- relay reward
C27_RewardNonNegative ==
    Configured => \A s \in Stakes, n \in Counts, m \in Mults : RewardCoins(s, n, m) >= 0
C27_RewardMonotoneInStake ==
    Configured => \A s1, s2 \in Stakes, n \in Counts, m \in Mults :
                      s1 <= s2 => RewardCoins(s1, n, m) <= RewardCoins(s2, n, m)
C27_RewardMonotoneInRelays ==
    Configured => \A s \in Stakes, n1, n2 \in Counts, m \in Mults :
                      n1 <= n2 => RewardCoins(s, n1, m) <= RewardCoins(s, n2, m)
C27_RewardPlateau ==
    Configured => \A s \in Stakes, n \in Counts, m \in Mults :
                      s >= ceil => RewardCoins(s, n, m) = RewardCoins(ceil, n, m)

\* ---- challenge burn (formula as coded; the known defect excluded when ExcludeKnown)
C27_BurnNonNegative ==
    Configured => \A s \in Stakes, n \in Counts, m \in Mults : BurnCoins(s, n, m) >= 0
C27_BurnMonotoneInStake ==
    Configured => \A s1, s2 \in Stakes, n \in Counts, m \in Mults :
                      s1 <= s2 /\ ~Excl("burn", s1) /\ ~Excl("burn", s2) => BurnCoins(s1, n, m) <= BurnCoins(s2, n, m)
C27_BurnMonotoneInChallenges ==
    Configured => \A s \in Stakes, n1, n2 \in Counts, m \in Mults :
                      n1 <= n2 => BurnCoins(s, n1, m) <= BurnCoins(s, n2, m)
C27_BurnPlateau ==
    Configured => \A s \in Stakes, n \in Counts, m \in Mults :
                      s >= ceil /\ ~Excl("burn", s) => BurnCoins(s, n, m) = BurnCoins(ceil, n, m)
=============================================================================
