INIT TraceInit
NEXT TraceNext
INVARIANTS C33_SessionsDeterministicEligibleDistinct
POSTCONDITION TraceAccepted
CHECK_DEADLOCK FALSE
