\* behaviours for replay: every (f, ceil, fn, stake, count, mult) with W(bin) = bin
CONSTANTS Floors = {1, 2, 3}  MaxCeil = 7  Counts = {0, 1, 5}  Mults = {1, 3}  WFuns <- MCIdentityW  WMax = 0  WD = 1
  ExcludeKnown = TRUE  RecordHist = TRUE
INIT Init
NEXT NextCover
VIEW view
INVARIANTS TypeOK
CHECK_DEADLOCK FALSE
