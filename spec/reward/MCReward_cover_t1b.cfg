\* thorough 1b: every <<dao, proposer>> pair (5151) x every collected fee 0..120 (more than one period of the rounding), block reward
CONSTANTS
  Rewards <- MCRewards  TxFees <- MCTxFees  AllocPairs <- MCAllocPairs  ShareMaps <- MCShareMaps
  MaxReward = 0  ExtraRewards = {}  FeeSet <- Fees_0_120
  Costs = {0}  PayerInit = 1000  Linear = TRUE  MaxOps = 2  RecordHist = TRUE
  AllocGrid = {}  AllocFixed <- Allocs_All
  ShareGrid = {}  MapFixed <- Maps_Thirds  MaxDelegators = 3  SimDepth = 0
INIT Init
NEXT NextCover
VIEW view
INVARIANTS TypeOK C26_SupplyIsSumOfBalances
PROPERTIES C26_RewardMintedExactly C26_FeesSplitExactly
CHECK_DEADLOCK FALSE
