----------------------------- MODULE MerkleOps -----------------------------
(***************************************************************************)
(* Merkle-sum-index tree of x/pocketcore/types/merkle.go, transcribed at   *)
(* the level of an IDEAL hash function.                                    *)
(*                                                                         *)
(*   sortAndStructure  -> Leaves        levelUp      -> LevelUp            *)
(*   root/GenerateRoot -> Tree, RootOf  merkleProof/GenerateProofs -> GenProof *)
(*   MerkleProof.Validate -> Validate   parentHash   -> ParentHash         *)
(*   codec.GetCodecUpgradeHeight / Codec.IsAfterCodecUpgrade -> gating     *)
(*                                                                         *)
(* A hash value is the tuple of what the code feeds to blake2b, with an    *)
(* integer tag in front (so that two hashes are equal iff they were        *)
(* computed from equal inputs, and TLC never compares values of different  *)
(* types):                                                                 *)
(*   <<0, u>>                        merkleHash(leaf.Bytes()); u is the    *)
(*                                   leaf's sum, sumFromHash(hash)         *)
(*   <<1, i>>                        merkleHash(strconv.Itoa(i)) (padding) *)
(*   <<2, h1, h2, i1, i2, lo, up>>   parentHash after the codec upgrade    *)
(*   <<3, h1, h2, lo, up>>           parentHash before the codec upgrade   *)
(*   <<9, h>>                        "some byte string other than h"       *)
(*                                                                         *)
(* Leaves are identified with their rank in the order the code sorts them  *)
(* in (ascending sum).  Code index k (0-based) is used everywhere, so that *)
(* i%2 and i/2 read as in the code.  The k-th leaf has sum Gap*(rank of    *)
(* its hash among the distinct hashes); a duplicated relay (k \in D: leaf k*)
(* has the same bytes as leaf k-1) gets the same sum, hence Lower = Upper. *)
(* Gap only has to exceed the number of padding leaves + 2: real sums are  *)
(* 64-bit values whose gaps are astronomically larger than the +-1 of      *)
(* padding ranges and of the range mutations used below, and Gap keeps the *)
(* same order/equality pattern between all values that ever get compared.  *)
(***************************************************************************)
EXTENDS Integers, Sequences, FiniteSets, TLC

Gap == 1000

-----------------------------------------------------------------------------
(* codec gating: which parentHash variant a (session) height selects        *)

INF == 2147483647                \* stands for math.MaxInt64, the default of codec.UpgradeHeight
UpgradeCodecHeight == 30024      \* codec.UpgradeCodecHeight

\* the process-global schedules the harness can put in force (codec.UpgradeHeight,
\* codec.OldUpgradeHeight, codec.TestMode); ModuleCdc.upgradeOverride stays -1
Gate(name) ==
    CASE name = "default" -> [upg |-> INF, old |-> 0,  testMode |-> 0]
      [] name = "h50"     -> [upg |-> 50,  old |-> 0,  testMode |-> 0]
      [] name = "old10"   -> [upg |-> 50,  old |-> 10, testMode |-> 0]
GateNames == {"default", "h50", "old10"}

\* codec.GetCodecUpgradeHeight
CodecUpgradeHeight(g) ==
    IF g.upg >= UpgradeCodecHeight THEN UpgradeCodecHeight
    ELSE IF g.old # 0 /\ g.old < g.upg THEN g.old
    ELSE g.upg

\* Codec.IsAfterCodecUpgrade (includes the upgrade height itself; height -1 counts as after)
IsAfterCodecUpgrade(g, h) == (CodecUpgradeHeight(g) <= h \/ h = -1) \/ g.testMode <= -1

VariantAt(gateName, h) == IF IsAfterCodecUpgrade(Gate(gateName), h) THEN "post" ELSE "pre"
Other(v) == IF v = "pre" THEN "post" ELSE "pre"

-----------------------------------------------------------------------------
(* ideal hash                                                               *)

LeafHash(u) == <<0, u>>
PadHash(i)  == <<1, i>>
Forged(h)   == <<9, h>>
SumFromHash(h) == h[2]           \* only ever applied to a leaf hash (see Validate)

\* parentHash(height, hash1, hash2, r, index1, index2)
ParentHash(v, h1, h2, lo, up, i1, i2) ==
    IF v = "post" THEN <<2, h1, h2, i1, i2, lo, up>>
    ELSE <<3, h1, h2, lo, up>>

-----------------------------------------------------------------------------
(* arithmetic helpers                                                       *)

Pow2(k) == 2 ^ k
\* nextPowerOfTwo(v) for 1 <= v <= 4096
NextPow2(n) == CHOOSE p \in {Pow2(k) : k \in 0..12} : p >= n /\ (p = 1 \/ p \div 2 < n)
\* int(math.Ceil(math.Log2(float64(n)))) as computed by keeper.ValidateProof
CeilLog2(n) == CHOOSE k \in 0..12 : Pow2(k) >= n /\ (k = 0 \/ Pow2(k - 1) < n)

\* Go's % and / on int64 truncate towards zero (TLA+'s do not): -3 % 2 = -1, -3 / 2 = -1
GoMod2(x) == IF x >= 0 THEN x % 2 ELSE -((-x) % 2)
GoDiv2(x) == IF x >= 0 THEN x \div 2 ELSE -((-x) \div 2)

Size(d) == Cardinality(DOMAIN d)     \* length of a 0-based array

-----------------------------------------------------------------------------
(* sortAndStructure: the leaf level, sorted by sum, lower = previous upper, *)
(* padded with [lower, lower+1] ranges to the next power of two             *)

Upper(D, k) == Gap * Cardinality({j \in 0..k : j \notin D})

Leaves(n, D) ==
    LET P    == NextPow2(n)
        last == Upper(D, n - 1)
    IN TLCEval([k \in 0..(P - 1) |->
          IF k < n
          THEN [h |-> LeafHash(Upper(D, k)), lo |-> IF k = 0 THEN 0 ELSE Upper(D, k - 1), up |-> Upper(D, k)]
          ELSE [h |-> PadHash(k), lo |-> last + (k - n), up |-> last + (k - n) + 1]])

\* levelUp: parent j of children 2j, 2j+1; the hash binds the children's hashes, the
\* children's positions in their level (post-upgrade only) and the parent range
\* (TLCEval: TLC evaluates a function constructor lazily, once per application; forcing every
\* level keeps the construction linear in the number of nodes)
LevelUp(v, d) ==
    TLCEval([j \in 0..(Size(d) \div 2 - 1) |->
        LET lo == d[2 * j].lo
            up == d[2 * j + 1].up
        IN [h |-> ParentHash(v, d[2 * j].h, d[2 * j + 1].h, lo, up, 2 * j, 2 * j + 1), lo |-> lo, up |-> up]])

RECURSIVE LevelsFrom(_, _)
LevelsFrom(v, d) == IF Size(d) = 1 THEN <<d>> ELSE <<d>> \o LevelsFrom(v, LevelUp(v, d))

\* all levels of the tree: T[1] = leaves (array 0..P-1), T[Len(T)] = <<root>>
Tree(v, n, D) == LevelsFrom(v, Leaves(n, D))
RootOf(T)  == T[Len(T)][0]
Height(T)  == Len(T) - 1             \* number of levelUp rounds = len(MerkleProof.HashRanges)

\* merkleProof / GenerateProofs
Sib(x) == IF x % 2 = 1 THEN x - 1 ELSE x + 1
Anc(i, t) == i \div Pow2(t)          \* position of leaf i's ancestor t levels up
GenProof(T, i) ==
    [idx  |-> i,
     tgt  |-> T[1][i],
     sibs |-> TLCEval([t \in 1..Height(T) |-> T[t][Sib(Anc(i, t - 1))]])]

-----------------------------------------------------------------------------
(* MerkleProof.Validate(height, root, leaf, numOfLevels) -> the code's pair *)
(* (isValid, isReplayAttack) plus the return statement that fired           *)

Verdict(valid, replay, why) == [valid |-> valid, replay |-> replay, why |-> why]

\* HashRange.isValidRange
IsValidRange(x) == ~(x.up = 0) /\ ~(x.lo >= x.up)
\* HashRange.Equal
NodeEq(a, b) == a.h = b.h /\ a.lo = b.lo /\ a.up = b.up

RECURSIVE Climb(_, _, _, _, _, _, _)
Climb(v, root, tgt, idx, sibs, t, L) ==
    IF t > L
    THEN IF NodeEq(root, tgt) THEN Verdict(TRUE, FALSE, "ok") ELSE Verdict(FALSE, TRUE, "rootMismatch")
    ELSE IF ~IsValidRange(tgt) THEN Verdict(FALSE, TRUE, "targetRange")
    ELSE IF t > Len(sibs) THEN Verdict(FALSE, FALSE, "panic")        \* mp.HashRanges[i] out of range
    ELSE LET s == sibs[t] IN
         IF ~IsValidRange(s) THEN Verdict(FALSE, TRUE, "siblingRange")
         ELSE IF GoMod2(idx) = 1
              THEN IF tgt.lo # s.up THEN Verdict(FALSE, FALSE, "contOdd")
                   ELSE Climb(v, root,
                              [h |-> ParentHash(v, s.h, tgt.h, s.lo, tgt.up, idx - 1, idx), lo |-> s.lo, up |-> tgt.up],
                              GoDiv2(idx), sibs, t + 1, L)
              ELSE IF tgt.up # s.lo THEN Verdict(FALSE, FALSE, "contEven")
                   ELSE Climb(v, root,
                              [h |-> ParentHash(v, tgt.h, s.h, tgt.lo, s.up, idx, idx + 1), lo |-> tgt.lo, up |-> s.up],
                              GoDiv2(idx), sibs, t + 1, L)

Validate(v, root, leafHash, mp, L) ==
    IF root.lo # 0 THEN Verdict(FALSE, FALSE, "rootLower")
    ELSE IF mp.tgt.h # leafHash THEN Verdict(FALSE, FALSE, "leafHash")
    ELSE IF mp.tgt.up # SumFromHash(mp.tgt.h) THEN Verdict(FALSE, FALSE, "leafSum")
    ELSE Climb(v, root, mp.tgt, mp.idx, mp.sibs, 1, L)

-----------------------------------------------------------------------------
(* one verification request = what keeper.ValidateProof hands to Validate   *)

\* the honest request for leaf i of tree T built with variant v
Honest(v, T, i) ==
    [v |-> v, root |-> RootOf(T), leaf |-> T[1][i].h, mp |-> GenProof(T, i), L |-> Height(T)]

Run(a) == Validate(a.v, a.root, a.leaf, a.mp, a.L)

\* does the path of leaf i (its ancestors and their siblings) contain a zero-width range?
PathThroughZeroWidth(T, i) ==
    \E t \in 1..Height(T) :
        LET x == Anc(i, t - 1) IN
        \/ T[t][x].lo = T[t][x].up
        \/ T[t][Sib(x)].lo = T[t][Sib(x)].up

-----------------------------------------------------------------------------
(* single-field mutations and cross-leaf substitutions                      *)
(*   m = [site, lvl, kind, arg]; lvl is the 0-based level of a sibling      *)

NoMut == [site |-> "none", lvl |-> -1, kind |-> "", arg |-> -1]
Mut(site, lvl, kind, arg) == [site |-> site, lvl |-> lvl, kind |-> kind, arg |-> arg]

RangeKinds == {"dec", "inc", "zero", "collapse"}
\* new value of a range bound (`other` = the other bound of the same range)
NewBound(cur, other, kind) ==
    CASE kind = "dec"      -> cur - 1
      [] kind = "inc"      -> cur + 1
      [] kind = "zero"     -> 0
      [] kind = "collapse" -> other

SetLo(x, kind) == [x EXCEPT !.lo = NewBound(x.lo, x.up, kind)]
SetUp(x, kind) == [x EXCEPT !.up = NewBound(x.up, x.lo, kind)]

\* n = number of relays of the tree T (needed for the cross-tree root)
Apply(v, n, T, i, m) ==
    LET a == Honest(v, T, i) IN
    CASE m.site = "none"     -> a
      \* the leaf presented with the proof
      [] m.site = "leaf"     -> [a EXCEPT !.leaf = IF m.kind = "fresh" THEN LeafHash(Gap \div 2) ELSE T[1][m.arg].h]
      \* another committed leaf together with its own target hash/range, on i's path
      [] m.site = "xleaf"    -> [a EXCEPT !.leaf = T[1][m.arg].h, !.mp.tgt = T[1][m.arg]]
      [] m.site = "tgtHash"  -> [a EXCEPT !.mp.tgt.h = Forged(@)]
      [] m.site = "tgtLower" -> [a EXCEPT !.mp.tgt = SetLo(@, m.kind)]
      [] m.site = "tgtUpper" -> [a EXCEPT !.mp.tgt = SetUp(@, m.kind)]
      [] m.site = "index"    -> [a EXCEPT !.mp.idx = m.arg]
      [] m.site = "sibHash"  -> [a EXCEPT !.mp.sibs[m.lvl + 1].h = Forged(@)]
      [] m.site = "sibLower" -> [a EXCEPT !.mp.sibs[m.lvl + 1] = SetLo(@, m.kind)]
      [] m.site = "sibUpper" -> [a EXCEPT !.mp.sibs[m.lvl + 1] = SetUp(@, m.kind)]
      \* the sibling at one level replaced by the sibling another leaf's proof has there
      [] m.site = "sibSubst" -> [a EXCEPT !.mp.sibs[m.lvl + 1] = GenProof(T, m.arg).sibs[m.lvl + 1]]
      [] m.site = "rootHash" -> [a EXCEPT !.root.h = Forged(@)]
      [] m.site = "rootLower"-> [a EXCEPT !.root = SetLo(@, m.kind)]
      [] m.site = "rootUpper"-> [a EXCEPT !.root = SetUp(@, m.kind)]
      \* the same proof and root presented for a session height of the other hashing variant
      [] m.site = "height"   -> [a EXCEPT !.v = Other(v)]
      \* the root of another tree: the same relays without the one of highest sum
      [] m.site = "rootTree" -> [a EXCEPT !.root = RootOf(Tree(v, n - 1, {}))]
      \* a different number of levels (proof shortened / lengthened consistently)
      [] m.site = "levels"   ->
            IF m.kind = "truncate"
            THEN [a EXCEPT !.mp.sibs = SubSeq(@, 1, a.L - 1), !.L = a.L - 1]
            ELSE [a EXCEPT !.mp.sibs = Append(@, @[a.L]), !.L = a.L + 1]

\* a mutation must change the field (and keep a uint64 non-negative)
Changes(cur, new) == new # cur /\ new >= 0

Enabled(v, n, T, i, m) ==
    LET a == Honest(v, T, i) IN
    CASE m.site = "leaf"      -> m.kind = "fresh" \/ (m.arg \in 0..(n - 1) /\ T[1][m.arg].h # a.leaf)
      [] m.site = "xleaf"     -> m.arg \in 0..(n - 1) /\ T[1][m.arg].h # a.leaf
      [] m.site = "tgtLower"  -> Changes(a.mp.tgt.lo, NewBound(a.mp.tgt.lo, a.mp.tgt.up, m.kind))
      [] m.site = "tgtUpper"  -> Changes(a.mp.tgt.up, NewBound(a.mp.tgt.up, a.mp.tgt.lo, m.kind))
      [] m.site = "index"     -> m.arg # i
      [] m.site \in {"sibHash"} -> m.lvl \in 0..(a.L - 1)
      [] m.site = "sibLower"  -> m.lvl \in 0..(a.L - 1) /\
                                 LET s == a.mp.sibs[m.lvl + 1] IN Changes(s.lo, NewBound(s.lo, s.up, m.kind))
      [] m.site = "sibUpper"  -> m.lvl \in 0..(a.L - 1) /\
                                 LET s == a.mp.sibs[m.lvl + 1] IN Changes(s.up, NewBound(s.up, s.lo, m.kind))
      [] m.site = "sibSubst"  -> m.lvl \in 0..(a.L - 1) /\ m.arg \in 0..(n - 1) /\
                                 ~NodeEq(GenProof(T, m.arg).sibs[m.lvl + 1], a.mp.sibs[m.lvl + 1])
      [] m.site = "rootLower" -> Changes(a.root.lo, NewBound(a.root.lo, a.root.up, m.kind))
      [] m.site = "rootUpper" -> Changes(a.root.up, NewBound(a.root.up, a.root.lo, m.kind))
      [] m.site = "rootTree"  -> n >= 3
      [] m.site = "levels"    -> m.kind \in {"truncate", "extend"} /\ (m.kind = "truncate" => a.L >= 2)
      [] OTHER                -> TRUE      \* none, tgtHash, rootHash, height

\* index values tried for leaf i of a tree with P padded leaves: every other position of
\* the tree, the same position shifted by the tree size (both directions), -1 and -i
IndexValues(i, P) == ((0..(P - 1)) \cup {i + P, i + 2 * P, i - P, -1, -i}) \ {i}

AllMutations(v, n, T, i) ==
    LET L == Height(T)
        P == Pow2(L)
        cand ==
             {Mut("leaf", -1, "fresh", -1)}
        \cup {Mut("leaf", -1, "other", j) : j \in 0..(n - 1)}
        \cup {Mut("xleaf", -1, "leafAndTarget", j) : j \in 0..(n - 1)}
        \cup {Mut("tgtHash", -1, "flip", -1), Mut("rootHash", -1, "flip", -1), Mut("height", -1, "other", -1),
              Mut("rootTree", -1, "dropLast", -1), Mut("levels", -1, "truncate", -1), Mut("levels", -1, "extend", -1)}
        \cup {Mut(s, -1, k, -1) : s \in {"tgtLower", "tgtUpper", "rootLower", "rootUpper"}, k \in RangeKinds}
        \cup {Mut("index", -1, "set", x) : x \in IndexValues(i, P)}
        \* "extend": the sibling hash is LENGTHENED by the bytes that follow it in the parent-hash preimage
        \* (a changed sibling hash like any other: verification must fail)
        \cup {Mut("sibHash", t, k, -1) : t \in 0..(L - 1), k \in {"flip", "extend"}}
        \cup {Mut(s, t, k, -1) : s \in {"sibLower", "sibUpper"}, t \in 0..(L - 1), k \in RangeKinds}
        \cup {Mut("sibSubst", t, "from", j) : t \in 0..(L - 1), j \in 0..(n - 1)}
    IN {m \in cand : Enabled(v, n, T, i, m)}

-----------------------------------------------------------------------------
(* Named deviation of the code from property C30 (known finding C30-1).     *)
(* Before the codec upgrade parentHash does not take the indices, so        *)
(* Validate only uses TargetIndex for the left/right decision of each       *)
(* level: every index with the same parity path as i (i + k*2^L, and for    *)
(* leaf 0 every negative multiple and -1, because Go's -1 % 2 is -1) is     *)
(* accepted for leaf i.  keeper.ValidateProof compares TargetIndex with the *)
(* required pseudo-random index before calling Validate, so the alias       *)
(* cannot be used on chain.                                                 *)

RECURSIVE SameParityPath(_, _, _)
SameParityPath(x, y, L) ==
    L = 0 \/ ((GoMod2(x) = 1) = (GoMod2(y) = 1) /\ SameParityPath(GoDiv2(x), GoDiv2(y), L - 1))

Known_C30_1(v, i, L, m) == v = "pre" /\ m.site = "index" /\ SameParityPath(i, m.arg, L)

=============================================================================
