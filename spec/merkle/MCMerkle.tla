------------------------------ MODULE MCMerkle ------------------------------
EXTENDS MerkleSum
MCVariants    == {"pre", "post"}
MCGateHeights == {-1, 0, 1, 9, 10, 11, 49, 50, 51, 30023, 30024, 30025}
\* one line per verified case, replayed on the real code by vh-merkle
NextCover == Next /\ PrintT(ToJson(hist'))
=============================================================================
