\* C30 thorough: every mutation site of every proof, n in 5..33
CONSTANTS NMin = 5  NMax = 33  Variants <- MCVariants  Mode = "forge"  MaxDups = 0  MaxDupN = 0
          GateHeights <- MCGateHeights
INIT Init
NEXT NextCover
INVARIANTS C30_ForgeriesRejected Model_KnownDeviationAccepts
CHECK_DEADLOCK FALSE
