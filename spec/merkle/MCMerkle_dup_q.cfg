\* C30 quick: every placement of 1 duplicated relay for n in 5..17 and of 2 for n <= 12, every leaf
CONSTANTS NMin = 5  NMax = 17  Variants <- MCVariants  Mode = "dups"  MaxDups = 2  MaxDupN = 12
          GateHeights <- MCGateHeights
INIT Init
NEXT NextCover
INVARIANTS C30_ZeroWidthIsReplay Model_OffPathOfDuplicatesVerifies
CHECK_DEADLOCK FALSE
