\* C30 quick: every placement of 1 or 2 duplicated relays, n in 5..17, every leaf
CONSTANTS NMin = 5  NMax = 17  Variants <- MCVariants  Mode = "dups"  MaxDups = 2  MaxDupN = 17
          GateHeights <- MCGateHeights
INIT Init
NEXT NextCover
INVARIANTS C30_ZeroWidthIsReplay Model_OffPathOfDuplicatesVerifies
CHECK_DEADLOCK FALSE
