\* C30 quick: every mutation site of every proof, n in 5..17
CONSTANTS NMin = 5  NMax = 17  Variants <- MCVariants  Mode = "forge"  MaxDups = 0  MaxDupN = 0
          GateHeights <- MCGateHeights
INIT Init
NEXT NextCover
INVARIANTS C30_ForgeriesRejected Model_KnownDeviationAccepts
CHECK_DEADLOCK FALSE
