\* C29 quick: every n in 5..65, every leaf, both hashing variants
CONSTANTS NMin = 5  NMax = 65  Variants <- MCVariants  Mode = "honest"  MaxDups = 0  MaxDupN = 0
          GateHeights <- MCGateHeights
INIT Init
NEXT NextCover
INVARIANTS C29_HonestProofsVerify Model_GatingBoundary
CHECK_DEADLOCK FALSE
