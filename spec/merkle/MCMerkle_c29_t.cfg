\* C29 thorough: every n in 5..130 (7 padding regimes), every leaf, both hashing variants
CONSTANTS NMin = 5  NMax = 130  Variants <- MCVariants  Mode = "honest"  MaxDups = 0  MaxDupN = 0
          GateHeights <- MCGateHeights
INIT Init
NEXT NextCover
INVARIANTS C29_HonestProofsVerify Model_GatingBoundary
CHECK_DEADLOCK FALSE
