\* C30 thorough: 1 duplicate for n in 5..33, up to 3 duplicates for n <= 12
CONSTANTS NMin = 5  NMax = 33  Variants <- MCVariants  Mode = "dups"  MaxDups = 3  MaxDupN = 12
          GateHeights <- MCGateHeights
INIT Init
NEXT NextCover
INVARIANTS C30_ZeroWidthIsReplay Model_OffPathOfDuplicatesVerifies
CHECK_DEADLOCK FALSE
