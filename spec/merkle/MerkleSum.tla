----------------------------- MODULE MerkleSum -----------------------------
(***************************************************************************)
(* Design model for C29 / C30: every behaviour is ONE verification case.   *)
(*                                                                         *)
(*   Init      chooses the relay set and the leaf: hashing variant v, n    *)
(*             relays, the set D of duplicated relays, leaf index i        *)
(*             (or a codec-gating question: schedule + height);            *)
(*   Verify(m) builds the tree (sortAndStructure + levelUp), the proof for *)
(*             i (GenerateProofs), applies one mutation m (or none) and    *)
(*             records MerkleProof.Validate's verdict in `hist`.           *)
(*                                                                         *)
(* TLC enumerates all (v, n, D, i, m) exhaustively; every hist line is     *)
(* replayed on the real functions by vh-merkle (ranks -> real relays       *)
(* sorted by their real hashes).                                           *)
(***************************************************************************)
EXTENDS MerkleOps, SequencesExt, FiniteSetsExt, Json

CONSTANTS NMin, NMax,        \* numbers of relays
          Variants,          \* subset of {"pre", "post"}
          Mode,              \* "honest" | "dups" | "forge"
          MaxDups,           \* Mode "dups": 1..MaxDups duplicated relays
          MaxDupN,           \* Mode "dups": two or more duplicates only for n <= MaxDupN
          GateHeights        \* Mode "honest": heights asked of every gating schedule

VARIABLES cur,   \* the chosen case
          hist   \* <<>> or <<the record of the verified case>>

vars == <<cur, hist>>

DupSets(n) ==
    IF Mode # "dups" THEN {{}}
    ELSE UNION {kSubset(k, 1..(n - 1)) : k \in 1..(IF n <= MaxDupN THEN MaxDups ELSE 1)}

TreeCases ==
    UNION {{[kind |-> "tree", v |-> v, n |-> n, D |-> D, i |-> i] : v \in Variants, D \in DupSets(n), i \in 0..(n - 1)}
           : n \in NMin..NMax}

GateCases ==
    IF Mode # "honest" THEN {}
    ELSE {[kind |-> "gate", gate |-> g, h |-> h] : g \in GateNames, h \in GateHeights}

Init == cur \in TreeCases \cup GateCases /\ hist = <<>>

B(b) == IF b THEN 1 ELSE 0
SortedSeq(S) == SetToSortSeq(S, LAMBDA a, b : a < b)

\* the record of one verified case: the abstract case, the verdict of the specification
\* and the classification the invariants (and the harness) judge by
CaseRec(c, m) ==
    LET T   == Tree(c.v, c.n, c.D)
        a   == Apply(c.v, c.n, T, c.i, m)
        r   == Run(a)
    IN [op |-> "case", v |-> c.v, n |-> c.n, dups |-> SortedSeq(c.D), i |-> c.i,
        site |-> m.site, lvl |-> m.lvl, kind |-> m.kind, arg |-> m.arg,
        levels |-> a.L, nsib |-> Len(a.mp.sibs),
        valid |-> B(r.valid), replay |-> B(r.replay), why |-> r.why,
        zw |-> B(PathThroughZeroWidth(T, c.i)),
        known |-> B(Known_C30_1(c.v, c.i, Height(T), m))]

Mutations(c) ==
    IF Mode = "forge" THEN AllMutations(c.v, c.n, Tree(c.v, c.n, c.D), c.i) ELSE {NoMut}

Verify(m) ==
    /\ hist' = <<CaseRec(cur, m)>>
    /\ UNCHANGED cur

AskGate ==
    /\ cur.kind = "gate"
    /\ hist' = <<[op |-> "gate", gate |-> cur.gate, h |-> cur.h,
                  after |-> B(IsAfterCodecUpgrade(Gate(cur.gate), cur.h))]>>
    /\ UNCHANGED cur

\* one step per behaviour (the guard comes first so that verified cases are not expanded again)
Next == hist = <<>> /\ (AskGate \/ (cur.kind = "tree" /\ \E m \in Mutations(cur) : Verify(m)))

Spec == Init /\ [][Next]_vars

-----------------------------------------------------------------------------
Cases == {hist[k] : k \in 1..Len(hist)}
TreeRecs == {r \in Cases : r.op = "case"}

(* C29: the proof generated for any leaf of a tree of distinct relays verifies against
   the root of the same tree, with the number of levels keeper.ValidateProof derives
   from the relay count (which must be the length of the generated proof). *)
C29_HonestProofsVerify ==
    \A r \in TreeRecs :
        (r.site = "none" /\ r.dups = <<>>) =>
            /\ r.valid = 1 /\ r.replay = 0
            /\ r.nsib = CeilLog2(r.n) /\ r.levels = r.nsib

(* C30 (a): no single-field mutation and no cross-leaf / cross-tree substitution
   verifies -- except the named deviation Known_C30_1 *)
C30_ForgeriesRejected ==
    \A r \in TreeRecs : (r.site # "none" /\ r.known = 0) => r.valid = 0

(* C30 (b): a path through a zero-width range (duplicated relay) is rejected and
   reported as a replay *)
C30_ZeroWidthIsReplay ==
    \A r \in TreeRecs : (r.site = "none" /\ r.zw = 1) => (r.valid = 0 /\ r.replay = 1)

(* what the code does in the cases the property does not speak about (documentation of
   the model, not judged on the real code): a proof whose path avoids the duplicates still
   verifies; the known deviation is exactly an accepted forgery *)
Model_OffPathOfDuplicatesVerifies ==
    \A r \in TreeRecs : (r.site = "none" /\ r.zw = 0) => (r.valid = 1 /\ r.replay = 0)
Model_KnownDeviationAccepts ==
    \A r \in TreeRecs : r.known = 1 => r.valid = 1

(* gating: the two schedules below the mainnet constant switch at their own height,
   the default schedule at 30024; -1 always counts as upgraded *)
Model_GatingBoundary ==
    \A r \in Cases : r.op = "gate" =>
        (r.after = 1) = (r.h = -1 \/ r.h >= (CASE r.gate = "default" -> 30024 [] r.gate = "h50" -> 50 [] r.gate = "old10" -> 10))

view == <<cur, hist>>
=============================================================================
