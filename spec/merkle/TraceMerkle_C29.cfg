INIT TraceInit
NEXT TraceNext
INVARIANTS C29_TraceHonestProofsVerify
POSTCONDITION TraceAccepted
CHECK_DEADLOCK FALSE
