---------------------------- MODULE TraceMerkle ----------------------------
(***************************************************************************)
(* Trace validation of x/pocketcore/types/merkle.go against MerkleOps.     *)
(*                                                                         *)
(* vh-merkle's seeded driver builds real relay sets (up to 200 relays,     *)
(* random session heights under three codec schedules, random duplicates), *)
(* lets the real code build root and proof, mutates the real structures    *)
(* and logs the abstract case with the real (isValid, isReplayAttack).     *)
(* Every "tree" event rebuilds the ideal-hash tree with the operators of   *)
(* the design model; every "case" event is re-executed with Apply / Run    *)
(* and judged exactly like the design model's invariants:                  *)
(*                                                                         *)
(*   honest proof, distinct relays    real isValid = 1, len(HashRanges) =  *)
(*                                    ceil(log2 n)                  (C29)  *)
(*   honest proof, duplicates, path   real verdict = (0, 1)         (C30)  *)
(*     through a zero-width range                                          *)
(*   forged request                   real isValid = Validate's (= 0)(C30) *)
(*   forged request matching the      reported (KNOWN_C30_1), not judged   *)
(*     named deviation Known_C30_1                                         *)
(***************************************************************************)
EXTENDS MerkleOps, Json, IOUtils

Trace == ndJsonDeserialize(IOEnv.TRACE_FILE)

VARIABLES l,      \* next trace line
          err,    \* <<>> or <<line, what>> of the first event the specification rejects
          tr,     \* the tree of the last "tree" event
          nknown  \* number of events that reproduce the known deviation
tvars == <<l, err, tr, nknown>>

NoTree == [gate |-> "default", v |-> "pre", n |-> 0, D |-> {}, T |-> <<>>]

TraceInit == l = 1 /\ err = <<>> /\ tr = NoTree /\ nknown = 0

B(b) == IF b THEN 1 ELSE 0
ToSet(s) == {s[k] : k \in 1..Len(s)}

TreeOf(e) ==
    LET v == VariantAt(e.gate, e.h)
        D == ToSet(e.dups)
    IN [gate |-> e.gate, v |-> v, n |-> e.n, D |-> D, T |-> Tree(v, e.n, D)]

TreeEventOK(e) ==
    /\ e.gate \in GateNames /\ e.n >= 2
    /\ Len(e.perm) = e.n /\ ToSet(e.perm) = 0..(e.n - 1)          \* the logged rank order is a permutation
    /\ \A k \in 1..Len(e.dups) : e.dups[k] \in 1..(e.n - 1)

\* "" = accepted, "known" = reproduces Known_C30_1, anything else = rejected
Judge(e) ==
    LET m      == [site |-> e.site, lvl |-> e.lvl, kind |-> e.kind, arg |-> e.arg]
        honest == e.site = "none"
    IN
    IF "fail" \in DOMAIN e THEN "fail"
    ELSE IF tr.n = 0 \/ e.i \notin 0..(tr.n - 1) THEN "malformed"
    ELSE IF ~honest /\ (tr.D # {} \/ ~Enabled(tr.v, tr.n, tr.T, e.i, m)) THEN "not-enabled"
    ELSE
      LET a0 == Apply(tr.v, tr.n, tr.T, e.i, IF e.site = "height" THEN NoMut ELSE m)
          a  == [a0 EXCEPT !.v = VariantAt(tr.gate, e.vh)]     \* the hashing variant the validation height selects
          r  == Run(a)
      IN
      IF honest /\ tr.D = {}
      THEN IF e.valid = 1 /\ r.valid /\ e.nsib = CeilLog2(tr.n) /\ e.levels = e.nsib THEN "" ELSE "honest-rejected"
      ELSE IF honest
      THEN IF PathThroughZeroWidth(tr.T, e.i) /\ ~(e.valid = 0 /\ e.replay = 1 /\ ~r.valid /\ r.replay)
           THEN "zero-width-not-replay" ELSE ""
      ELSE IF Known_C30_1(a.v, e.i, Height(tr.T), m)
      THEN IF e.valid = 1 THEN "known" ELSE ""
      ELSE IF e.valid # B(r.valid) \/ e.valid = 1 THEN "forgery-accepted" ELSE ""

TraceNext ==
    /\ l <= Len(Trace)
    /\ l' = l + 1
    /\ LET e == Trace[l] IN
       IF e.op = "tree"
       THEN /\ tr' = IF TreeEventOK(e) THEN TreeOf(e) ELSE NoTree
            /\ err' = IF err # <<>> THEN err ELSE IF TreeEventOK(e) THEN <<>> ELSE <<l, "malformed-tree">>
            /\ UNCHANGED nknown
       ELSE LET j == Judge(e) IN
            /\ err' = IF err # <<>> THEN err ELSE IF j \in {"", "known"} THEN <<>> ELSE <<l, j>>
            /\ nknown' = IF j = "known" /\ PrintT(<<"KNOWN_C30_1", l, e.i, e.arg>>) THEN nknown + 1 ELSE nknown
            /\ UNCHANGED tr

TraceSpec == TraceInit /\ [][TraceNext]_tvars

C29_TraceHonestProofsVerify == err = <<>>
C30_TraceForgeriesRejected  == err = <<>>
TraceAccepted == TLCGet("stats").diameter = Len(Trace) + 1
=============================================================================
