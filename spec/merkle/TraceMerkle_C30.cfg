INIT TraceInit
NEXT TraceNext
INVARIANTS C30_TraceForgeriesRejected
POSTCONDITION TraceAccepted
CHECK_DEADLOCK FALSE
