\* transition cover + the design-level invariants (mechanism = statement modulo Known_C42_SortInverted)
CONSTANTS Heights <- MCHeights  Addrs = {1, 2}  Classes <- MCClasses  MaxPerBlock = 3  MaxTx = 3
          PageSizes = {1, 2, 3}  RecordHist = TRUE  SimDepth = 0
INIT Init
NEXT NextCover
VIEW view
INVARIANTS TypeOK C42_GetReturnsIndexed C42_PaginationPartitions C42_ScanExact C42_SearchExact SignerHeightIsLowerBound
