\* the statement of C42 without the exclusion of the known deviation (expected to be violated
\* by the design model while PrefixIterator inverts the directions)
CONSTANTS Heights <- MCHeights  Addrs = {1, 2}  Classes <- MCClasses  MaxPerBlock = 2  MaxTx = 2
          PageSizes = {1, 2, 3}  RecordHist = FALSE  SimDepth = 0
INIT Init
NEXT Next
VIEW view
INVARIANTS C42_SearchInRequestedDirection
