------------------------------- MODULE TxIndex -------------------------------
(***************************************************************************)
(* Design model of types.TransactionIndexer (C42).                         *)
(*                                                                         *)
(* State: `ix`, the set of indexed results, and `failed`, the positions of *)
(* results that were submitted in a batch but rejected by the ante handler *)
(* (they are skipped by AddBatch and only leave a gap in the positions).   *)
(* One action per API call: AddBatch (one block of results), Get (lookup   *)
(* by hash) and Search by height / signer / recipient with sort direction  *)
(* and pagination, as tendermint's rpc/core.TxSearch drives it             *)
(* (Pagination = {Size: perPage, Skip: (page-1)*perPage, Sort}).           *)
(*                                                                         *)
(* Assumption (replay protection of the chain): a transaction hash is      *)
(* indexed at most once, and a height is batch-added at most once.         *)
(***************************************************************************)
EXTENDS TxIndexOps

CONSTANTS Heights,      \* block heights that can be indexed
          Addrs,        \* addresses (1..n); 0 = "none"
          Classes,      \* set of <<signer, recipient, class>> a result can have
          MaxPerBlock,  \* results per block
          MaxTx,        \* results over the whole history
          PageSizes,    \* perPage values
          RecordHist

VARIABLES ix, failed, hist
vars == <<ix, failed, hist>>
view == <<ix, failed>>

Rec(r) == IF RecordHist THEN Append(hist, r) ELSE hist

Blocks == UNION {[1..n -> Classes] : n \in 1..MaxPerBlock}
Done   == {t.h : t \in ix} \cup {f[1] : f \in failed}
Sorts  == {"asc", "desc"}

Init == ix = {} /\ failed = {} /\ hist = <<>>

TypeOK ==
    /\ \A t \in ix : t.h \in Heights /\ t.i \in 0..(MaxPerBlock - 1) /\ t.s \in Addrs \cup {0} /\ t.r \in Addrs \cup {0}
    /\ \A a, b \in ix : (a.h = b.h /\ a.i = b.i) => a = b
    /\ \A f \in failed : ~\E t \in ix : t.h = f[1] /\ t.i = f[2]

-----------------------------------------------------------------------------
AddBatch(h, txs) ==
    /\ h \notin Done
    /\ Cardinality(ix) + Cardinality(failed) + Len(txs) <= MaxTx
    /\ ix' = ix \cup BlockResults(h, txs)
    /\ failed' = failed \cup BlockFailed(h, txs)
    /\ hist' = Rec([op |-> "AddBatch", h |-> h, txs |-> txs,
                    view |-> Ids(Ordered(ix', "asc")), nkeys |-> NKeys(ix')])

Get(h, i) ==
    /\ UNCHANGED <<ix, failed>>
    /\ hist' = Rec([op |-> "Get", h |-> h, i |-> i, ret |-> GetRet(ix, h, i)])

Search(kind, key, sort, page, pp) ==
    /\ UNCHANGED <<ix, failed>>
    /\ hist' = Rec([op |-> "Search", kind |-> kind, key |-> key, sort |-> sort, page |-> page, pp |-> pp,
                    ret |-> SearchRet(ix, kind, key, sort, page, pp),
                    inv |-> SearchRetInv(ix, kind, key, sort, page, pp)])

\* every page that has something on it and the first page past the end
Queries ==
    {<<"height", h>> : h \in Heights} \cup {<<"signer", a>> : a \in Addrs} \cup {<<"recipient", a>> : a \in Addrs}

Next ==
    \/ \E h \in Heights, txs \in Blocks : AddBatch(h, txs)
    \/ \E h \in Heights, i \in 0..(MaxPerBlock - 1) : Get(h, i)
    \/ \E q \in Queries, sort \in Sorts, pp \in PageSizes :
          \E page \in 1..NPages(Cardinality(Matches(ix, q[1], q[2])), pp) : Search(q[1], q[2], sort, page, pp)

Spec == Init /\ [][Next]_vars

-----------------------------------------------------------------------------
\* C42 at design level: the mechanism (key layout + range scan) against the statement.

\* "lookup by hash returns the stored result for every indexed transaction" (and nothing else)
C42_GetReturnsIndexed ==
    \A h \in Heights, i \in 0..(MaxPerBlock - 1) :
        (GetRet(ix, h, i) # <<-1>>) <=> (\E t \in ix : t.h = h /\ t.i = i)

\* pagination neither skips nor repeats: the pages, concatenated in page order, are the
\* whole ordered list of matches, once
RECURSIVE ConcatPages(_, _, _, _)
ConcatPages(seq, pp, page, n) ==
    IF page > n THEN <<>> ELSE PageOf(seq, page, pp) \o ConcatPages(seq, pp, page + 1, n)
C42_PaginationPartitions ==
    \A q \in Queries, sort \in Sorts, pp \in PageSizes :
        LET all == Ordered(Matches(ix, q[1], q[2]), sort)
        IN ConcatPages(all, pp, 1, NPages(Len(all), pp)) = all

\* the mechanism returns exactly the matches (as a set) with the right total, whatever the direction
C42_ScanExact ==
    \A q \in Queries, sort \in Sorts :
        LET full == ImplSearch(ix, q[1], q[2], sort, 1, MaxTx + 1)
            M    == Matches(ix, q[1], q[2])
        IN /\ full[1] = Cardinality(M)
           /\ Len(full) = Cardinality(M) + 1
           /\ {full[k] : k \in 2..Len(full)} = {TxId(t) : t \in M}

\* Known_C42_SortInverted: PrefixIterator maps "asc" to the store's ReverseIterator and
\* "desc" to the forward Iterator, so every search comes back in the opposite direction.
Known_C42_SortInverted(q, sort, page, pp) ==
    ImplSearch(ix, q[1], q[2], sort, page, pp) = SearchRetInv(ix, q[1], q[2], sort, page, pp)

\* the mechanism agrees with the statement on every page, except for the named deviation
C42_SearchExact ==
    \A q \in Queries, sort \in Sorts, pp \in PageSizes :
        \A page \in 1..NPages(Cardinality(Matches(ix, q[1], q[2])), pp) :
            \/ ImplSearch(ix, q[1], q[2], sort, page, pp) = SearchRet(ix, q[1], q[2], sort, page, pp)
            \/ Known_C42_SortInverted(q, sort, page, pp)

\* the statement without the exclusion: violated by the design model as the code stands
C42_SearchInRequestedDirection ==
    \A q \in Queries, sort \in Sorts, pp \in PageSizes :
        \A page \in 1..NPages(Cardinality(Matches(ix, q[1], q[2])), pp) :
            ImplSearch(ix, q[1], q[2], sort, page, pp) = SearchRet(ix, q[1], q[2], sort, page, pp)

\* Observation outside C42's statement (not judged by the check): the optional height condition of
\* the account queries is a lower bound, not a filter ("tx.signer/<a>/<h>" .. "tx.signer/<a>/MAX").
SignerHeightIsLowerBound ==
    \A a \in Addrs, h \in Heights :
        LET full == ImplScan(ix, PrefixSignerHeight(a, h), "desc", 0, MaxTx + 1)
        IN {full[k] : k \in 2..Len(full)} = {TxId(t) : t \in {x \in ix : x.s = a /\ x.h >= h}}

\* the number encoding preserves order on the numbers that occur (and around digit-count changes)
ElenSamples == Heights \cup 0..12 \cup {99, 100, 101, 999, 1000, 1001, 999999, 1000000, MaxNum - 1}
ElenOrderPreserving ==
    \A a, b \in ElenSamples : (a < b) <=> LexLess(Elen(a), Elen(b))
ElenBelowMax == \A a \in ElenSamples : LexLess(Elen(a), MaxEnc)
ASSUME ElenOrderPreserving /\ ElenBelowMax

-----------------------------------------------------------------------------
EmitAtDepth(D) == Len(hist) = D => PrintT(ToJson(hist))
=============================================================================
