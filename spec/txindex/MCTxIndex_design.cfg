\* design model: the key layout / range scan mechanism against the statement of C42
CONSTANTS Heights <- MCHeights  Addrs = {1, 2}  Classes <- MCClasses  MaxPerBlock = 3  MaxTx = 4
          PageSizes = {1, 2, 3}  RecordHist = FALSE  SimDepth = 0
INIT Init
NEXT Next
VIEW view
INVARIANTS TypeOK C42_GetReturnsIndexed C42_PaginationPartitions C42_ScanExact C42_SearchExact
           SignerHeightIsLowerBound
