CONSTANTS Heights <- MCHeights  Addrs = {1, 2}  Classes <- MCClasses  MaxPerBlock = 3  MaxTx = 5
          PageSizes = {1, 2, 3}  RecordHist = TRUE  SimDepth = 0
INIT Init
NEXT NextCover
VIEW view
INVARIANTS TypeOK
