---------------------------- MODULE TraceTxIndex ----------------------------
(***************************************************************************)
(* Trace validation of types.TransactionIndexer against the operators of   *)
(* TxIndexOps over an unbounded space (any heights, addresses, batch sizes *)
(* and page sizes the recorded run used).  Events (one JSON object a line):*)
(*   {"op":"reset"}                                                         *)
(*   {"op":"AddBatch","h":H,"txs":[[s,r,class],...]}                        *)
(*   {"op":"Get","h":H,"i":I,"ret":[id] | [-1]}                             *)
(*   {"op":"Search","kind":K,"key":X,"sort":S,"page":P,"pp":N,              *)
(*                  "ret":[total,id,...]}                                   *)
(* "fail" in an event = the real code panicked / returned an error /       *)
(* returned a result whose content differs from what was stored.           *)
(*                                                                         *)
(* Strict = TRUE : C42 exactly as stated.                                  *)
(* Strict = FALSE: the named deviation Known_C42_SortInverted is excluded  *)
(* (a search may come back as the same search in the opposite direction);  *)
(* anything else (missing / extra / repeated entries, wrong total, wrong   *)
(* page arithmetic) is still rejected.                                     *)
(***************************************************************************)
EXTENDS TxIndexOps, IOUtils

CONSTANT Strict

Trace == ndJsonDeserialize(IOEnv.TRACE_FILE)

VARIABLES ix, l, err
tvars == <<ix, l, err>>

TraceInit == ix = {} /\ l = 1 /\ err = <<>>

SearchOK(e) ==
    \/ e.ret = SearchRet(ix, e.kind, e.key, e.sort, e.page, e.pp)
    \/ /\ ~Strict       \* Known_C42_SortInverted
       /\ e.ret = SearchRetInv(ix, e.kind, e.key, e.sort, e.page, e.pp)

Agrees(e) ==
    CASE e.op = "Get"    -> e.ret = GetRet(ix, e.h, e.i)
      [] e.op = "Search" -> SearchOK(e)
      [] OTHER           -> TRUE

TraceNext ==
    /\ l <= Len(Trace)
    /\ l' = l + 1
    /\ LET e == Trace[l] IN
       /\ ix' = CASE e.op = "reset"    -> {}
                  [] e.op = "AddBatch" -> ix \cup BlockResults(e.h, e.txs)
                  [] OTHER             -> ix
       /\ err' = IF err # <<>> THEN err
                 ELSE IF "fail" \in DOMAIN e THEN <<l, e.op>>
                 ELSE IF ~Agrees(e) THEN <<l, e.op>>
                 ELSE <<>>

TraceSpec == TraceInit /\ [][TraceNext]_tvars

C42_SearchAndGetExact == err = <<>>
TraceAccepted == TLCGet("stats").diameter = Len(Trace) + 1
=============================================================================
