\* address focus: all signer x recipient combinations over heights {2, 10}
CONSTANTS Heights <- MCHeightsA  Addrs = {1, 2}  Classes <- MCClassesA  MaxPerBlock = 3  MaxTx = 4
          PageSizes = {1, 2, 3}  RecordHist = TRUE  SimDepth = 0
INIT Init
NEXT NextCover
VIEW view
INVARIANTS TypeOK
