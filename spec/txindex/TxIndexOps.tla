----------------------------- MODULE TxIndexOps -----------------------------
(***************************************************************************)
(* Pure operators of the transaction index (types/indexer.go).             *)
(*                                                                         *)
(* Part 1 is what property C42 states: a search is a filter of the set of  *)
(* indexed results, ordered by (height, position) in the requested         *)
(* direction, cut into pages, with total = number of matches.              *)
(*                                                                         *)
(* Part 2 is the mechanism the code uses: every indexed result owns up to  *)
(* three string keys                                                        *)
(*     tx.height/ELEN(h)/ELEN(i)                                           *)
(*     tx.signer/<addr>/ELEN(h)/ELEN(i)                                    *)
(*     tx.recipient/<addr>/ELEN(h)/ELEN(i)                                 *)
(* in a byte-ordered key-value store, ELEN being the order preserving      *)
(* number encoding of github.com/jordanorelli/lexnum ('=' positive prefix);*)
(* a search is a range scan [prefix, endKey(prefix)) with a skip/size loop.*)
(* Keys are modelled as sequences of character codes (ASCII for the        *)
(* characters that decide an ordering: '/'=47 '0'..'9'=48..57 '='=61).     *)
(* The design model (TxIndex.tla) checks Part 2 against Part 1.            *)
(*                                                                         *)
(* An indexed result is a record [h, i, s, r]: height, position in block,  *)
(* signer and recipient address (0 = the result has none).                 *)
(***************************************************************************)
EXTENDS Integers, Sequences, FiniteSets, SequencesExt, TLC, Json

\* identity of a result in observations: (height, position) packed in one integer
TxId(t) == t.h * 100 + t.i

-----------------------------------------------------------------------------
\* Part 1: the property's vocabulary

Before(a, b) == a.h < b.h \/ (a.h = b.h /\ a.i < b.i)

Matches(ix, kind, key) ==
    {t \in ix : CASE kind = "height"    -> t.h = key
                  [] kind = "signer"    -> t.s = key
                  [] kind = "recipient" -> t.r = key}

Ordered(S, sort) == SetToSortSeq(S, LAMBDA a, b : IF sort = "asc" THEN Before(a, b) ELSE Before(b, a))

Opposite(sort) == IF sort = "asc" THEN "desc" ELSE "asc"

\* page `page` (1-based) of `pp` entries: the caller (tendermint rpc/core TxSearch) turns
\* it into skip = (page-1)*pp, size = pp
PageOf(seq, page, pp) ==
    LET skip == (page - 1) * pp
        last == IF skip + pp < Len(seq) THEN skip + pp ELSE Len(seq)
    IN IF skip >= Len(seq) THEN <<>> ELSE SubSeq(seq, skip + 1, last)

Ids(seq) == [k \in 1..Len(seq) |-> TxId(seq[k])]

\* observation of a search: <<total, id_1, ..., id_n>>
SearchRet(ix, kind, key, sort, page, pp) ==
    LET M == Matches(ix, kind, key)
    IN <<Cardinality(M)>> \o Ids(PageOf(Ordered(M, sort), page, pp))

\* Named deviation Known_C42_SortInverted: the same search with the two directions swapped
\* (same matches, same total, same page arithmetic applied to the reversed order).
SearchRetInv(ix, kind, key, sort, page, pp) == SearchRet(ix, kind, key, Opposite(sort), page, pp)

\* lookup by hash: <<id>> when a result with that (height, position) is indexed, <<-1>> (nil) otherwise
GetRet(ix, h, i) == IF \E t \in ix : t.h = h /\ t.i = i THEN <<h * 100 + i>> ELSE <<-1>>

\* number of pages that contain something, plus one past the end
NPages(n, pp) == (n + pp - 1) \div pp + 1

\* results of one block: txs[k] = <<signer, recipient, class>> at position k-1;
\* class 1 = rejected by the ante handler (codespace "auth", code < 10): never indexed;
\* class 0 = success, class 2 = failed later (still indexed)
AnteFail(x) == x[3] = 1
BlockResults(h, txs) ==
    {[h |-> h, i |-> k - 1, s |-> txs[k][1], r |-> txs[k][2]] : k \in {j \in 1..Len(txs) : ~AnteFail(txs[j])}}
BlockFailed(h, txs) == {<<h, k - 1>> : k \in {j \in 1..Len(txs) : AnteFail(txs[j])}}

\* number of store entries the code writes for a set of results (by-hash, by-height,
\* by-signer and by-recipient when present)
NKeys(ix) == 2 * Cardinality(ix) + Cardinality({t \in ix : t.s # 0}) + Cardinality({t \in ix : t.r # 0})

-----------------------------------------------------------------------------
\* Part 2: the mechanism (key layout, ELEN, range scan)

SEP == 47      \* '/'
POS == 61      \* '='   lexnum positive prefix
TagHeight    == 201    \* "tx.height"     (one symbol per tag; tags differ at their 4th character
TagRecipient == 202    \* "tx.recipient"   h < r < s, all three above every other character)
TagSigner    == 203    \* "tx.signer"
AddrSym(a)   == 100 + a \* a 40 character hex address: fixed length, so one symbol suffices

RECURSIVE DigitsOf(_)
DigitsOf(n) == IF n < 10 THEN <<48 + n>> ELSE Append(DigitsOf(n \div 10), 48 + (n % 10))

\* lexnum.Encoder.encodePos
RECURSIVE EncPos(_)
EncPos(n) == LET d == DigitsOf(n)
             IN IF Len(d) = 1 THEN <<POS>> \o d ELSE <<POS>> \o EncPos(Len(d)) \o d
\* lexnum.Encoder.EncodeInt for n >= 0
Elen(n) == IF n = 0 THEN <<48>> ELSE EncPos(n)

\* the code appends ELEN(math.MaxInt64); any number above every height / index does for the model
MaxNum  == 2147483647
MaxEnc  == Elen(MaxNum)

\* bytes.Compare(a, b) < 0
RECURSIVE LexLess(_, _)
LexLess(a, b) ==
    IF a = <<>> THEN b # <<>>
    ELSE IF b = <<>> THEN FALSE
    ELSE IF a[1] # b[1] THEN a[1] < b[1]
    ELSE LexLess(Tail(a), Tail(b))

KeyHeight(t)    == <<TagHeight, SEP>> \o Elen(t.h) \o <<SEP>> \o Elen(t.i)
KeySigner(t)    == <<TagSigner, SEP, AddrSym(t.s), SEP>> \o Elen(t.h) \o <<SEP>> \o Elen(t.i)
KeyRecipient(t) == <<TagRecipient, SEP, AddrSym(t.r), SEP>> \o Elen(t.h) \o <<SEP>> \o Elen(t.i)

\* the index entries of the store (the by-hash entries are point lookups and not modelled as strings)
Entries(ix) ==
    {[key |-> KeyHeight(t), tx |-> t] : t \in ix}
    \cup {[key |-> KeySigner(t), tx |-> t] : t \in {x \in ix : x.s # 0}}
    \cup {[key |-> KeyRecipient(t), tx |-> t] : t \in {x \in ix : x.r # 0}}

PrefixHeight(h)    == <<TagHeight, SEP>> \o Elen(h) \o <<SEP>>          \* "tx.height/<h>/"
PrefixSigner(a)    == <<TagSigner, SEP, AddrSym(a), SEP>> \o Elen(0)    \* "tx.signer/<a>/0"
PrefixRecipient(a) == <<TagRecipient, SEP, AddrSym(a), SEP>> \o Elen(0)
\* the optional "AND tx.height=h" of the account queries: "tx.signer/<a>/<h>" (no trailing separator)
PrefixSignerHeight(a, h) == <<TagSigner, SEP, AddrSym(a), SEP>> \o Elen(h)

\* endKey: replace the last '/'-separated segment of the prefix by ELEN(MaxInt64)
LastSep(p) == CHOOSE k \in 1..Len(p) : p[k] = SEP /\ \A j \in (k + 1)..Len(p) : p[j] # SEP
EndKey(p)  == SubSeq(p, 1, LastSep(p)) \o MaxEnc

PrefixOf(kind, key) == CASE kind = "height"    -> PrefixHeight(key)
                         [] kind = "signer"    -> PrefixSigner(key)
                         [] kind = "recipient" -> PrefixRecipient(key)

\* PrefixIterator + getByPrefix: SortAscending takes the store's ReverseIterator,
\* SortDescending the forward Iterator (this is what the code does); then skip / size.
ScanOrder(E, sort) ==
    SetToSortSeq(E, LAMBDA a, b : IF sort = "asc" THEN LexLess(b.key, a.key) ELSE LexLess(a.key, b.key))
ImplScan(ix, prefix, sort, skip, size) ==
    LET lo  == prefix
        hi  == EndKey(prefix)
        E   == {e \in Entries(ix) : ~LexLess(e.key, lo) /\ LexLess(e.key, hi)}
        seq == ScanOrder(E, sort)
        res == [k \in 1..Len(seq) |-> seq[k].tx]
        last == IF skip + size < Len(res) THEN skip + size ELSE Len(res)
    IN <<Len(seq)>> \o Ids(IF skip >= Len(res) THEN <<>> ELSE SubSeq(res, skip + 1, last))
ImplSearch(ix, kind, key, sort, page, pp) == ImplScan(ix, PrefixOf(kind, key), sort, (page - 1) * pp, pp)
=============================================================================
