------------------------------ MODULE MCTxIndex ------------------------------
(* Model-checking / behaviour-generation instances of TxIndex.                *)
EXTENDS TxIndex
CONSTANT SimDepth

\* heights 2 and 10 exercise the order-preserving number encoding ("=2" < "==210" although "10" < "2")
MCHeights   == {1, 2, 3, 10}
\* <<signer, recipient, class>>: an ante failure (would be signer 1 / recipient 1 if it leaked into the
\* index), a send without recipient entry, a send 2 -> 1, a failed (but indexed) send 1 -> 2
MCClasses   == { <<1, 1, 1>>, <<1, 0, 0>>, <<2, 1, 0>>, <<1, 2, 2>> }
\* address focus: all signer / recipient combinations, no ante failures
MCClassesA  == { <<1, 0, 0>>, <<1, 1, 0>>, <<1, 2, 0>>, <<2, 0, 0>>, <<2, 1, 0>>, <<2, 2, 0>> }
MCHeightsA  == {2, 10}
\* simulation: more heights around digit-count changes, three addresses
MCHeightsS  == {1, 2, 9, 10, 11, 99, 100, 101, 1000, 99999}
MCClassesS  == { <<1, 1, 1>>, <<2, 3, 1>>, <<1, 0, 0>>, <<2, 1, 0>>, <<1, 2, 2>>, <<3, 3, 0>>, <<0, 0, 0>>, <<3, 1, 2>>, <<0, 2, 0>> }

\* Transition cover: every distinct abstract state is expanded once (VIEW view), from the shortest
\* history reaching it, and every outgoing transition is printed as history + 1 step.
NextCover == Next /\ PrintT(ToJson(hist'))

EmitSim   == EmitAtDepth(SimDepth)
HistBound == Len(hist) <= SimDepth
=============================================================================
