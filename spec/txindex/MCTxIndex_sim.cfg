CONSTANTS Heights <- MCHeightsS  Addrs = {1, 2, 3}  Classes <- MCClassesS  MaxPerBlock = 3  MaxTx = 24
          PageSizes = {1, 2, 3, 5, 30}  RecordHist = TRUE  SimDepth = 30
INIT Init
NEXT Next
INVARIANTS TypeOK EmitSim
CONSTRAINT HistBound
CHECK_DEADLOCK FALSE
