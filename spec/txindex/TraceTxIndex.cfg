CONSTANTS Strict = TRUE
INIT TraceInit
NEXT TraceNext
INVARIANTS C42_SearchAndGetExact
POSTCONDITION TraceAccepted
CHECK_DEADLOCK FALSE
