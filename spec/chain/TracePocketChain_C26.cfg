INIT TraceInit
NEXT TraceNext
INVARIANTS C26_RewardsAndFeesSplit
POSTCONDITION TraceAccepted
CHECK_DEADLOCK FALSE
