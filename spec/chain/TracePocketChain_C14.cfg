INIT TraceInit
NEXT TraceNext
INVARIANTS C14_OnlyAuthorizedSignersChangeState
POSTCONDITION TraceAccepted
CHECK_DEADLOCK FALSE
