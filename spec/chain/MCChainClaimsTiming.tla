------------------------ MODULE MCChainClaimsTiming ------------------------
(***************************************************************************)
(* C31, timing part: for every blocks-per-session value B, every claim     *)
(* submission window W, a session S and every height ch around the claim   *)
(* window, is a claim accepted at ch (as the code computes the window) and *)
(* is the block whose hash will select the leaf already known then?        *)
(* One behaviour = one (B, W, S, ch) case; every case is printed and        *)
(* replayed on a real chain built with those parameters (the application   *)
(* only accepts B >= 2 and W >= 2 at genesis; the other cases are checked  *)
(* on the model alone).  Every case exists twice: on a node that never     *)
(* served a dispatch and on a node that served one for the session while   *)
(* it was current (session cached): consensus may not depend on that.      *)
(***************************************************************************)
EXTENDS ChainClaims, Json

CONSTANTS MaxB, MaxW

VARIABLES B, W, S, disp, hist
tvars == <<B, W, S, disp, hist>>

FirstS(b) == ((b + 1) \div b) * b + 1        \* first session start >= 3

Init == /\ B \in 1..MaxB /\ W \in 1..MaxW
        /\ S \in {FirstS(B), FirstS(B) + B}
        /\ disp \in BOOLEAN      \* the node served a dispatch for the session while it was current (the
                               \* session is then in its node-local cache when the claim arrives)
        /\ hist = <<>>

Case(ch) ==
    [B |-> B, W |-> W, S |-> S, ch |-> ch, disp |-> disp,   \* the verdict does not depend on disp
     accepted |-> ClaimWindowOpen(ch, S, B, W),
     entropyH |-> EntropyHeight(S, B, W),
     known    |-> EntropyHeight(S, B, W) \in Known(ch),
     boundary |-> Known_C31_Boundary(ch, S, B, W)]

Next == /\ hist = <<>>
        /\ \E ch \in (S - 1)..(LastClaimHeight(S, B, W) + 2) : hist' = <<Case(ch)>>
        /\ UNCHANGED <<B, W, S, disp>>
NextCover == Next /\ PrintT(ToJson(hist'))

\* the property, strictly: no accepted claim height knows the entropy block
C31_Strict == \A i \in 1..Len(hist) : hist[i].accepted => ~hist[i].known
\* with the known boundary case (claim height = last accepted height) taken out
C31_ExceptBoundary == \A i \in 1..Len(hist) : (hist[i].accepted /\ hist[i].known) => hist[i].boundary
\* the same statements over whole windows (ChainClaims)
C31_Windows == Inv_C31_UnpredictableExceptBoundary(S, B, W)
\* sanity of the window arithmetic: accepted heights are exactly FirstClaimHeight..LastClaimHeight
WindowShape == \A i \in 1..Len(hist) :
                  hist[i].accepted <=> (hist[i].ch >= FirstClaimHeight(S, B) /\ hist[i].ch <= LastClaimHeight(S, B, W))
=============================================================================
