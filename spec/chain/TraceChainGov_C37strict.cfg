INIT TraceInit
NEXT TraceNext
INVARIANTS C37_Strict_NoFeatureLossOnRestart
POSTCONDITION TraceAccepted
CHECK_DEADLOCK FALSE
