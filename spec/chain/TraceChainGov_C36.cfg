INIT TraceInit
NEXT TraceNext
INVARIANTS C36_OnlyTheOwnerChangesParamsOrMovesDaoFunds
POSTCONDITION TraceAccepted
CHECK_DEADLOCK FALSE
