----------------------------- MODULE ChainNodes -----------------------------
(***************************************************************************)
(* Nodes module (x/nodes): exact functional model of the node messages     *)
(* (stake / edit-stake, begin-unstake, unjail), of the node part of        *)
(* BeginBlock (fee distribution, signature accounting, double-sign         *)
(* evidence) and of EndBlock (jailed-block counter, release of waiting     *)
(* validators, validator-set updates, maturation of the unstaking queue),  *)
(* written as the sequence of validations and writes the real code         *)
(* performs (x/nodes/handler.go, keeper/valStateChanges.go, validator.go,  *)
(* valStaked.go, valUnstaked.go, valPrevState.go, slash.go,                *)
(* signing_info.go, abci.go, pool.go).  Handlers run directly on the root  *)
(* store: a message that fails after a write leaves that write in place,   *)
(* so every operator returns the state reached where the handler returns.  *)
(*                                                                         *)
(* State fields owned by this module (see ChainBase for the vocabulary):   *)
(*   s.val        [name -> [status, jailed, tokens, chains, output,        *)
(*                          delegators, unstakeAt, url, pubkeyOK]]         *)
(*   s.ixStaked   SEQUENCE of <<name, power, valueName>>: raw staked-by-   *)
(*                power index (prefix 0x23, key = power || ^address, value *)
(*                = address) in DESCENDING key order: power descending,    *)
(*                then address ascending                                   *)
(*   s.ixChain    SEQUENCE of <<chain, name>>: raw per-chain index (0x22)  *)
(*                ascending by chain id, then address                      *)
(*   s.ixUnstaking SEQUENCE of <<time, <<names>>>>: raw unstaking queue    *)
(*                (0x41) ascending by time; names in stored (append) order *)
(*   s.ixWaiting  SEQUENCE of names: waiting-to-begin-unstaking set (0x43) *)
(*                ascending by address                                     *)
(*   s.prevPower  [name -> power]  previous-state powers (0x31)            *)
(*   s.prevTotal  previous-state total power (0x32)                        *)
(*   s.signing    [name -> [missed, index, jailedUntil, jailedBlocks]]     *)
(*   s.missed     [name -> ascending sequence of window indexes whose      *)
(*                 missed bit is set] (0x12; names without a set bit are   *)
(*                 absent)                                                 *)
(*   s.prevProposer, s.tmSet (ghost: consensus set accumulated from the    *)
(*                reported updates)                                        *)
(* Configuration: c.nodeParams (chainsim), c.featMem, c.acl and c.nx       *)
(* (projected by vh-chain-nodes): nx.rank [name -> position of its address *)
(* in byte order], nx.crank [chain id -> position in byte order],          *)
(* nx.minSigned (MinBlocksSignedPerWindow as the code rounds it),          *)
(* nx.maxEvidenceAge (block intervals), nx.maxEvidenceAgeMin (whole        *)
(* minutes, as BeginBlocker truncates it).                                 *)
(*                                                                         *)
(* Transactions (ChainAuth record plus):                                   *)
(*   node_stake    node, output ("" = nil), amount, chains (ascending      *)
(*                 sequence of ids), url, delegators [name -> share]       *)
(*   node_unstake  node, msgSigner        node_unjail  node, msgSigner     *)
(*   change_param  from, key ("pos/MaxValidators" | "pos/StakeMinimum"),   *)
(*                 value                                                   *)
(* h = height of the executing block, t = its time in block intervals.     *)
(*                                                                         *)
(* Scope: the non-custodial feature (NCUST) is active from height 2 and    *)
(* every modelled step runs at h >= 2 (the pre-NCUST legacy branches are   *)
(* not modelled; NodesScopeOK states it).                                  *)
(***************************************************************************)
EXTENDS ChainAuth, ChainBlock

NodesKinds == {"node_stake", "node_unstake", "node_unjail", "change_param"}

PowerReduction == 1000000
PowerOf(tok)   == tok \div PowerReduction           \* sdk.TokensToConsensusPower
SigningPatchHeight == 30040                          \* "patch for june 30 fork" in the code

NP(c) == c.nodeParams
NodesScopeOK(c, h) == Active(c, "NCUST", h)

NoDelegators == [x \in {} |-> 0]
FreshSigning == [missed |-> 0, index |-> 0, jailedUntil |-> 0, jailedBlocks |-> 0]

MinI(a, b) == IF a < b THEN a ELSE b
MaxI(a, b) == IF a > b THEN a ELSE b

\* ---- sorted raw index images ----------------------------------------------
\* insert e into the sorted sequence q (Before(x, y) = x sorts before y)
InsertSorted(q, e, Before(_, _)) ==
    LET k == Cardinality({i \in 1..Len(q) : Before(q[i], e)})
    IN SubSeq(q, 1, k) \o <<e>> \o SubSeq(q, k + 1, Len(q))

\* staked-by-power index: descending key order = power descending, address ascending
StakedBefore(c, x, y) == x[2] > y[2] \/ (x[2] = y[2] /\ c.nx.rank[x[1]] < c.nx.rank[y[1]])
StakedDel(ix, n, p)   == SelectSeq(ix, LAMBDA e : ~(e[1] = n /\ e[2] = p))
StakedPut(c, ix, n, p) ==
    InsertSorted(StakedDel(ix, n, p), <<n, p, n>>, LAMBDA x, y : StakedBefore(c, x, y))

\* per-chain index: ascending by chain id, then address
ChainBefore(c, x, y) ==
    c.nx.crank[x[1]] < c.nx.crank[y[1]] \/ (x[1] = y[1] /\ c.nx.rank[x[2]] < c.nx.rank[y[2]])
\* the index key is made of the DECODED chain id (hex): spellings of a chain id that differ only in the
\* case of their hex digits share one entry.  Binding convention: the drivers use the one upper-case
\* spelling "00A1" of chain "00a1".
ChainKey(ch) == IF ch = "00A1" THEN "00a1" ELSE ch
ChainDel(ix, ch, n)    == SelectSeq(ix, LAMBDA e : ~(e[1] = ChainKey(ch) /\ e[2] = n))
ChainPut(c, ix, ch, n) ==
    InsertSorted(ChainDel(ix, ch, n), <<ChainKey(ch), n>>, LAMBDA x, y : ChainBefore(c, x, y))
RECURSIVE ChainPutAll(_, _, _, _), ChainDelAll(_, _, _)
ChainPutAll(c, ix, chains, n) ==
    IF chains = <<>> THEN ix ELSE ChainPutAll(c, ChainPut(c, ix, Head(chains), n), Tail(chains), n)
ChainDelAll(ix, chains, n) ==
    IF chains = <<>> THEN ix ELSE ChainDelAll(ChainDel(ix, Head(chains), n), Tail(chains), n)

\* waiting set: ascending by address
WaitingPut(c, ix, n) ==
    IF n \in SeqToSet(ix) THEN ix
    ELSE InsertSorted(ix, n, LAMBDA x, y : c.nx.rank[x] < c.nx.rank[y])
WaitingDel(ix, n) == SelectSeq(ix, LAMBDA e : e # n)

\* unstaking queue: one slot per completion time
SlotAt(ix, tm) ==
    LET S == {i \in 1..Len(ix) : ix[i][1] = tm} IN IF S = {} THEN <<>> ELSE ix[CHOOSE i \in S : TRUE][2]
SlotDel(ix, tm) == SelectSeq(ix, LAMBDA e : e[1] # tm)
SlotSet(ix, tm, names) == InsertSorted(SlotDel(ix, tm), <<tm, names>>, LAMBDA x, y : x[1] < y[1])
\* SetUnstakingValidator: append (duplicates are possible: every re-save of an unstaking record appends)
QueueAppend(ix, tm, n) == SlotSet(ix, tm, Append(SlotAt(ix, tm), n))
\* deleteUnstakingValidator: drop every occurrence; an emptied slot is deleted
QueueRemove(ix, tm, n) ==
    LET rest == SelectSeq(SlotAt(ix, tm), LAMBDA x : x # n)
    IN IF rest = <<>> THEN SlotDel(ix, tm) ELSE SlotSet(ix, tm, rest)

\* ---- missed-bit array -------------------------------------------------------
RECURSIVE SortInts(_)
SortInts(S) == IF S = {} THEN <<>>
               ELSE LET m == CHOOSE x \in S : \A y \in S : x <= y IN <<m>> \o SortInts(S \ {m})
MissedSet(s, n) == IF n \in DOMAIN s.missed THEN SeqToSet(s.missed[n]) ELSE {}
SetMissed(s, n, S) == [s EXCEPT !.missed = IF S = {} THEN Del(@, n) ELSE Put(@, n, SortInts(S))]

\* ---- record store -----------------------------------------------------------
HasVal(s, n) == n \in DOMAIN s.val

\* keeper.SetValidator: write the record, re-index by status
SetValidator(s, c, n, r) ==
    LET s1 == [s EXCEPT !.val = Put(@, n, r)]
        s2 == IF r.status = UNSTAKING
                THEN [s1 EXCEPT !.ixUnstaking = QueueAppend(@, r.unstakeAt, n)] ELSE s1
    IN IF r.status = STAKED /\ ~r.jailed
         THEN [s2 EXCEPT !.ixStaked = StakedPut(c, @, n, PowerOf(r.tokens))] ELSE s2

\* keeper.DeleteValidator: record and signing info (the missed-bit array stays)
DeleteValidator(s, n) == [s EXCEPT !.val = Del(@, n), !.signing = Del(@, n)]

DelFromStakingSet(s, n, r) == [s EXCEPT !.ixStaked = StakedDel(@, n, PowerOf(r.tokens))]
DelForChains(s, n, r)      == [s EXCEPT !.ixChain = ChainDelAll(@, r.chains, n)]
SetByChains(s, c, n, r)    == [s EXCEPT !.ixChain = ChainPutAll(c, @, r.chains, n)]
SetWaiting(s, c, n)        == [s EXCEPT !.ixWaiting = WaitingPut(c, @, n)]
IsWaiting(s, n)            == n \in SeqToSet(s.ixWaiting)

\* ValidateValidatorMsgSigner: operator, or output address when one is set
MsgSignerOK(output, node, sg) == IF output = "" THEN sg = node ELSE sg = node \/ sg = output

\* ---- jail / forced unstake / slash ---------------------------------------------
\* keeper.JailValidator
JailValidator(s, c, n) ==
    IF ~HasVal(s, n) THEN s
    ELSE LET v == s.val[n] IN
         IF v.jailed \/ v.status = UNSTAKED THEN s
         ELSE SetValidator(DelFromStakingSet(s, n, v), c, n, [v EXCEPT !.jailed = TRUE])

\* keeper.ForceValidatorUnstake (non-custodial version): jail + wait for the session end
ForceUnstake(s, c, n) == SetWaiting(JailValidator(s, c, n), c, n)

\* keeper.removeValidatorTokens + burnStakedTokens + forced unstake below the minimum;
\* shared tail of slash and simpleSlash.  `amount` = computed slash amount (> 0).
SlashTail(s, c, n, amount) ==
    LET v    == s.val[n]
        burn == MaxI(MinI(amount, v.tokens), 0)
        v1   == [v EXCEPT !.tokens = @ - burn]
        s1   == SetValidator(DelFromStakingSet(s, n, v), c, n, v1)
    IN IF burn > 0 /\ BalOf(s1, NODEPOOL) < burn THEN s1        \* BurnCoins fails: logged, return
       ELSE LET s2 == IF burn > 0 THEN Burn(s1, NODEPOOL, burn) ELSE s1
            IN IF v1.tokens < NP(c).StakeMinimum THEN ForceUnstake(s2, c, n) ELSE s2

\* slash amount = power * 10^6 * fraction, truncated; fractions are given in percent
\* (double sign) and parts per million (downtime) - exact for the configured values
SlashAmountPct(power, pct) == power * 10000 * pct
SlashAmountPpm(power, ppm) == power * ppm

\* keeper.slash (validateSlash + SlashTail)
Slash(s, c, h, n, infractionHeight, amount, fractionPositive) ==
    IF ~fractionPositive \/ infractionHeight > h \/ ~HasVal(s, n) THEN s
    ELSE IF s.val[n].status = UNSTAKED THEN s
    ELSE SlashTail(s, c, n, amount)

\* keeper.simpleSlash (challenge burns): amount in uPOKT
SimpleSlash(s, c, n, amount) ==
    IF amount <= 0 \/ ~HasVal(s, n) THEN s
    ELSE IF s.val[n].status = UNSTAKED THEN s
    ELSE SlashTail(s, c, n, amount)

\* keeper.BurnForChallenge with RSCAL active, weight exponent 1 and weight multiplier 1
\* (the configured values): coins = RTTM * challenges * bin
ChallengeCoins(c, tokens, challenges) ==
    LET f   == NP(c).ServicerStakeFloorMultiplier
        fl  == MinI(tokens - (tokens % f), NP(c).ServicerStakeWeightCeiling - (tokens % f))
    IN NP(c).RelaysToTokensMultiplier * challenges * (fl \div f)
BurnForChallenge(s, c, h, n, challenges) ==
    IF Active(c, "RSCAL", h)
      THEN IF ~HasVal(s, n) THEN s ELSE SimpleSlash(s, c, n, ChallengeCoins(c, s.val[n].tokens, challenges))
      ELSE SimpleSlash(s, c, n, NP(c).RelaysToTokensMultiplier * challenges)

-----------------------------------------------------------------------------
\* MsgStake: handleStake -> ValidateValidatorStaking -> StakeValidator

\* delegators the handler keeps: ignored before the RewardDelegators feature
MsgDelegators(c, tx, h) == IF Active(c, "RewardDelegators", h) THEN tx.delegators ELSE NoDelegators

HasCoins(s, a, n) == BalOf(s, a) >= n

\* keeper.ValidateEditStake; "" = valid
EditStakeError(s, c, tx, h) ==
    LET n    == tx.node
        cur  == s.val[n]
        sg   == tx.signer
        diff == tx.amount - cur.tokens
        fl   == NP(c).ServicerStakeFloorMultiplier
    IN IF diff < 0 THEN "minedit"
       ELSE IF Active(c, "RSCAL", h) /\ Active(c, "VEDIT", h)
               /\ tx.amount < NP(c).ServicerStakeWeightCeiling
               /\ tx.amount - (tx.amount % fl) <= cur.tokens THEN "samebin"
       ELSE IF diff # 0 /\ ~HasCoins(s, sg, diff) THEN "notenough"
       ELSE IF Active(c, "OEDIT", h) /\ cur.output # "" /\ sg # cur.output /\ tx.output # cur.output
              THEN "outputedit"           \* only the current output address may change it
       ELSE IF ~Active(c, "OEDIT", h) /\ cur.output # "" /\ tx.output # cur.output
              THEN "unequaloutput"
       ELSE IF Active(c, "RewardDelegators", h) /\ tx.delegators # cur.delegators /\ sg # n
              THEN "delegatoredit"        \* only the operator may change the delegators
       ELSE IF IsWaiting(s, n) THEN "waiting"
       ELSE ""

\* keeper.ValidateValidatorStaking; "" = valid
StakeError(s, c, tx, h) ==
    LET n     == tx.node
        found == HasVal(s, n)
        sg    == tx.signer
        \* an edit of the output address signed by the CURRENT output address skips the
        \* signer check against the NEW record
        skip  == found /\ Active(c, "OEDIT", h) /\ tx.output # ""
                 /\ s.val[n].output # tx.output /\ s.val[n].output = sg
    IN IF ~skip /\ ~MsgSignerOK(tx.output, n, sg) THEN "unauthorized"
       ELSE IF tx.output = "" THEN "niloutput"
       ELSE IF Len(tx.chains) > NP(c).MaximumChains THEN "toomanychains"
       ELSE IF found /\ ~MsgSignerOK(s.val[n].output, n, sg) THEN "unauthorized"
       ELSE IF found /\ s.val[n].status = STAKED THEN EditStakeError(s, c, tx, h)
       ELSE IF found /\ s.val[n].status # UNSTAKED THEN "status"
       ELSE IF tx.amount < NP(c).StakeMinimum THEN "minstake"
       ELSE IF ~HasCoins(s, sg, tx.amount) THEN "notenough"
       ELSE ""

\* keeper.EditStakeValidator
EditStakeValidator(s, c, tx, h) ==
    LET n    == tx.node
        orig == s.val[n]
        diff == tx.amount - orig.tokens
        s1   == IF diff > 0 THEN Move(s, tx.signer, NODEPOOL, diff) ELSE s
        r1   == [orig EXCEPT
                   !.tokens     = IF diff > 0 THEN @ + diff ELSE @,
                   !.output     = IF Active(c, "OEDIT", h) \/ orig.output = "" THEN tx.output ELSE @,
                   !.delegators = IF Active(c, "RewardDelegators", h) THEN tx.delegators ELSE @,
                   !.chains     = tx.chains,
                   !.url        = tx.url]
        s2   == DelFromStakingSet(s1, n, orig)
        s3   == DelForChains(s2, n, orig)
        s4   == DeleteValidator(s3, n)                 \* also drops the signing info
        s5   == SetValidator(s4, c, n, r1)
        s6   == SetByChains(s5, c, n, r1)
    IN IF h >= SigningPatchHeight
         THEN SetMissed([s6 EXCEPT !.signing = Put(@, n, FreshSigning)], n, {})   \* ResetValidatorSigningInfo
         ELSE s6

\* keeper.StakeValidator for a new (or unstaked) record
NewStakeValidator(s, c, tx, h) ==
    LET n  == tx.node
        r  == [status |-> STAKED, jailed |-> FALSE, tokens |-> tx.amount, chains |-> tx.chains,
               output |-> tx.output, delegators |-> MsgDelegators(c, tx, h), unstakeAt |-> 0,
               url |-> tx.url, pubkeyOK |-> TRUE]
        s1 == Move(s, tx.signer, NODEPOOL, tx.amount)
        s2 == SetByChains(SetValidator(s1, c, n, r), c, n, r)
    IN IF n \in DOMAIN s2.signing THEN s2 ELSE [s2 EXCEPT !.signing = Put(@, n, FreshSigning)]

NodeStakeOK(s, c, tx, h) == StakeError(s, c, [tx EXCEPT !.delegators = MsgDelegators(c, tx, h)], h) = ""
NodeStakeResult(s, c, tx0, h) ==
    LET tx == [tx0 EXCEPT !.delegators = MsgDelegators(c, tx0, h)] IN
    IF StakeError(s, c, tx, h) # "" THEN s
    ELSE IF HasVal(s, tx.node) /\ s.val[tx.node].status = STAKED THEN EditStakeValidator(s, c, tx, h)
    ELSE NewStakeValidator(s, c, tx, h)

\* MsgBeginUnstake: handleMsgBeginUnstake (the declared msg.Signer is what is checked)
NodeUnstakeOK(s, c, tx, h) ==
    /\ HasVal(s, tx.node)
    /\ MsgSignerOK(s.val[tx.node].output, tx.node, tx.msgSigner)
    /\ s.val[tx.node].status = STAKED          \* jailed validators may begin unstaking
NodeUnstakeResult(s, c, tx, h) == IF NodeUnstakeOK(s, c, tx, h) THEN SetWaiting(s, c, tx.node) ELSE s

\* MsgUnjail: ValidateUnjailMessage + UnjailValidator.  wallOK = outcome of the additional
\* comparison "JailedUntil is not after time.Now()" (wall clock!) that trees before the
\* fix fixes/C25-unjail-wall-clock.diff perform; it is bound from the run (TRUE when the
\* comparison is absent or does not fire), never computed by the specification.
UnjailError(s, c, tx, t, wallOK) ==
    LET n == tx.node IN
    IF ~HasVal(s, n) THEN "novalidator"
    ELSE IF ~MsgSignerOK(s.val[n].output, n, tx.msgSigner) THEN "unauthorized"
    ELSE IF s.val[n].tokens < NP(c).StakeMinimum THEN "toolow"
    ELSE IF ~s.val[n].jailed THEN "notjailed"
    ELSE IF n \notin DOMAIN s.signing THEN "nosigninginfo"
    ELSE IF ~wallOK THEN "jailedwall"
    ELSE IF t < s.signing[n].jailedUntil THEN "jailed"
    ELSE ""
NodeUnjailOK(s, c, tx, t, wallOK) == UnjailError(s, c, tx, t, wallOK) = ""
NodeUnjailResult(s, c, tx, t, wallOK) ==
    LET n   == tx.node
        err == UnjailError(s, c, tx, t, wallOK)
    IN IF err = "toolow" THEN SetWaiting(s, c, n)      \* written although the message fails
       ELSE IF err # "" THEN s
       ELSE LET v  == [s.val[n] EXCEPT !.jailed = FALSE]
                s1 == SetValidator(s, c, n, v)
                i  == [At(s1.signing, n, FreshSigning) EXCEPT !.missed = 0, !.index = 0, !.jailedBlocks = 0]
            IN SetMissed([s1 EXCEPT !.signing = Put(@, n, i)], n, {})

\* MsgChangeParam for the two node parameters the scenarios change (gov ModifyParam)
ParamOfKey(key) == IF key = "pos/MaxValidators" THEN "MaxValidators" ELSE "StakeMinimum"
ChangeParamOK(s, c, tx, h) == tx.key \in DOMAIN c.acl /\ c.acl[tx.key] = tx.from
ChangeParamCfg(c, tx) == [c EXCEPT !.nodeParams = [@ EXCEPT ![ParamOfKey(tx.key)] = tx.value]]

\* DeliverTx for the kinds of this module (after ChainAuth's pipeline).
NodesMsgOK(s, c, tx, h, t, wallOK) ==
    CASE tx.kind = "node_stake"   -> NodeStakeOK(s, c, tx, h)
      [] tx.kind = "node_unstake" -> NodeUnstakeOK(s, c, tx, h)
      [] tx.kind = "node_unjail"  -> NodeUnjailOK(s, c, tx, t, wallOK)
      [] tx.kind = "change_param" -> ChangeParamOK(s, c, tx, h)
      [] tx.kind = "send"         -> SendOK(s, tx)
NodesMsgResult(s, c, tx, h, t, wallOK) ==
    CASE tx.kind = "node_stake"   -> NodeStakeResult(s, c, tx, h)
      [] tx.kind = "node_unstake" -> NodeUnstakeResult(s, c, tx, h)
      [] tx.kind = "node_unjail"  -> NodeUnjailResult(s, c, tx, t, wallOK)
      [] tx.kind = "change_param" -> s
      [] tx.kind = "send"         -> SendResult(s, tx)
NodesDeliver(s, c, tx, h, t, wallOK) ==
    IF ~AuthOK(s, c, tx, h) THEN s ELSE NodesMsgResult(ChargeFee(s, tx), c, tx, h, t, wallOK)
NodesDeliverOK(s, c, tx, h, t, wallOK) ==
    AuthOK(s, c, tx, h) /\ NodesMsgOK(ChargeFee(s, tx), c, tx, h, t, wallOK)
NodesDeliverCfg(s, c, tx, h, t) ==
    IF tx.kind = "change_param" /\ NodesDeliverOK(s, c, tx, h, t, TRUE) THEN ChangeParamCfg(c, tx) ELSE c

-----------------------------------------------------------------------------
\* BeginBlock (keeper.BeginBlocker): fees, proposer, signatures, evidence

\* keeper.handleValidatorSignature for one vote <<name, power, signed>>
HandleSignature(s, c, h, t, vote) ==
    LET n == vote[1] power == vote[2] signed == vote[3] IN
    IF ~HasVal(s, n) THEN s
    ELSE IF n \notin DOMAIN s.signing
      THEN IF h >= SigningPatchHeight
             THEN SetMissed([s EXCEPT !.signing = Put(@, n, FreshSigning)], n, {}) ELSE s
    ELSE LET window  == NP(c).SignedBlocksWindow
             reset   == h % window = 0
             i0      == IF reset THEN [s.signing[n] EXCEPT !.missed = 0, !.index = 0, !.jailedBlocks = 0]
                        ELSE s.signing[n]
             bits0   == IF reset THEN {} ELSE MissedSet(s, n)
             prev    == i0.index \in bits0
             bits1   == IF ~prev /\ ~signed THEN bits0 \cup {i0.index}
                        ELSE IF prev /\ signed THEN bits0 \ {i0.index} ELSE bits0
             cnt     == IF ~prev /\ ~signed THEN i0.missed + 1
                        ELSE IF prev /\ signed THEN i0.missed - 1 ELSE i0.missed
             i1      == [i0 EXCEPT !.missed = cnt, !.index = @ + 1]
             s1      == SetMissed(s, n, bits1)
         IN IF cnt > window - c.nx.minSigned
              THEN \* downtime: slash by the voting power, reset the accounting, jail
                   LET s2 == Slash(s1, c, h, n, h - 2,
                                   SlashAmountPpm(power, NP(c).SlashFractionDowntimePpm),
                                   NP(c).SlashFractionDowntimePpm > 0)
                       s3 == JailValidator(SetMissed(s2, n, {}), c, n)
                       i2 == [i1 EXCEPT !.missed = 0, !.index = 0, !.jailedBlocks = 0,
                                        !.jailedUntil = t + NP(c).DowntimeJailDuration]
                   IN [s3 EXCEPT !.signing = Put(@, n, i2)]
              ELSE [s1 EXCEPT !.signing = Put(@, n, i1)]

RECURSIVE HandleVotes(_, _, _, _, _)
HandleVotes(s, c, h, t, votes) ==
    IF votes = <<>> THEN s ELSE HandleVotes(HandleSignature(s, c, h, t, Head(votes)), c, h, t, Tail(votes))

\* duplicate-vote evidence <<name, height, time, power>>: BeginBlocker's age-in-blocks
\* bound, then keeper.handleDoubleSign / validateDoubleSign / slash
EvidenceBlocks(c) == MaxI(c.nx.maxEvidenceAgeMin \div 15, 1)
HandleEvidence(s, c, h, t, ev) ==
    LET n == ev[1] evH == ev[2] evT == ev[3] power == ev[4] IN
    IF h - evH > EvidenceBlocks(c) THEN s
    ELSE IF ~HasVal(s, n) THEN s
    ELSE IF s.val[n].status = UNSTAKED THEN s
    ELSE IF t - evT > c.nx.maxEvidenceAge THEN s
    ELSE IF n \notin DOMAIN s.signing THEN s
    ELSE Slash(s, c, h, n, evH - 1, SlashAmountPct(power, NP(c).SlashFractionDoubleSignPct),
               NP(c).SlashFractionDoubleSignPct > 0)

RECURSIVE HandleEvidences(_, _, _, _, _)
HandleEvidences(s, c, h, t, evs) ==
    IF evs = <<>> THEN s ELSE HandleEvidences(HandleEvidence(s, c, h, t, Head(evs)), c, h, t, Tail(evs))

NodesBeginBlock(s, c, h, t, proposer, votes, evidence) ==
    HandleEvidences(HandleVotes(BeginBlockFees(s, c, h, proposer), c, h, t, votes), c, h, t, evidence)

-----------------------------------------------------------------------------
\* EndBlock (keeper.EndBlocker)

\* keeper.IncrementJailedValidators: every jailed record, any status
IncrementOne(s, c, n) ==
    IF ~s.val[n].jailed THEN s
    ELSE LET i == [At(s.signing, n, FreshSigning) EXCEPT !.jailedBlocks = @ + 1] IN
         IF i.jailedBlocks > NP(c).MaxJailedBlocks
           THEN ForceUnstake(s, c, n)                     \* the incremented counter is NOT saved
           ELSE [s EXCEPT !.signing = Put(@, n, i)]
RECURSIVE IncrementAll(_, _, _)
IncrementAll(s, c, todo) ==
    IF todo = {} THEN s
    ELSE LET n == CHOOSE x \in todo : TRUE IN IncrementAll(IncrementOne(s, c, n), c, todo \ {n})
IncrementJailed(s, c) == IncrementAll(s, c, DOMAIN s.val)

\* keeper.BeginUnstakingValidator
BeginUnstaking(s, c, n, v, t) ==
    LET s1 == DelForChains(DelFromStakingSet(s, n, v), n, v)
        v1 == [v EXCEPT !.status = UNSTAKING,
                        !.unstakeAt = IF v.unstakeAt = 0 THEN t + NP(c).UnstakingTime ELSE @]
    IN SetValidator(s1, c, n, v1)

\* keeper.GetWaitingValidators: stops at (and deletes) the first entry without a record
RECURSIVE WaitingPrefix(_, _)
WaitingPrefix(s, q) ==
    IF q = <<>> THEN [names |-> <<>>, orphan |-> ""]
    ELSE IF ~HasVal(s, Head(q)) THEN [names |-> <<>>, orphan |-> Head(q)]
    ELSE LET r == WaitingPrefix(s, Tail(q)) IN [names |-> <<Head(q)>> \o r.names, orphan |-> r.orphan]

\* keeper.ReleaseWaitingValidators
RECURSIVE ReleaseEach(_, _, _, _)
ReleaseEach(s, c, names, t) ==
    IF names = <<>> THEN s
    ELSE LET n  == Head(names)
             v  == s.val[n]
             s1 == IF v.status = STAKED THEN BeginUnstaking(s, c, n, v, t) ELSE s
         IN ReleaseEach([s1 EXCEPT !.ixWaiting = WaitingDel(@, n)], c, Tail(names), t)
ReleaseWaiting(s, c, t) ==
    LET w  == WaitingPrefix(s, s.ixWaiting)
        s1 == IF w.orphan = "" THEN s ELSE [s EXCEPT !.ixWaiting = WaitingDel(@, w.orphan)]
    IN ReleaseEach(s1, c, w.names, t)

\* walk of the staked-by-power index, at most MaxValidators counted entries.
\* acc = [s (prevPower updated), rem (previous powers not yet matched), ups, count, total]
RECURSIVE WalkStaked(_, _, _)
WalkStaked(acc, c, q) ==
    IF q = <<>> \/ acc.count >= NP(c).MaxValidators THEN acc
    ELSE LET n == Head(q)[3] IN                         \* the index VALUE names the record
         IF ~HasVal(acc.s, n) THEN WalkStaked(acc, c, Tail(q))
         ELSE LET v == acc.s.val[n] IN
              IF v.jailed \/ v.status # STAKED \/ PowerOf(v.tokens) = 0 THEN WalkStaked(acc, c, Tail(q))
              ELSE LET p   == PowerOf(v.tokens)
                       upd == n \notin DOMAIN acc.rem \/ acc.rem[n] # p
                   IN WalkStaked([s     |-> IF upd THEN [acc.s EXCEPT !.prevPower = Put(@, n, p)] ELSE acc.s,
                                  rem   |-> Del(acc.rem, n),
                                  ups   |-> IF upd THEN Append(acc.ups, <<n, p>>) ELSE acc.ups,
                                  count |-> acc.count + 1,
                                  total |-> acc.total + p], c, Tail(q))

\* remaining previous powers, in address order: zero update (after the validator split),
\* entry deleted, record deleted when already unstaked
RECURSIVE Leavers(_, _, _)
Leavers(acc, c, todo) ==
    IF todo = {} THEN acc
    ELSE LET n == CHOOSE x \in todo : \A y \in todo : c.nx.rank[x] <= c.nx.rank[y] IN
         IF ~HasVal(acc.s, n) THEN Leavers(acc, c, todo \ {n})        \* entry stays (logged)
         ELSE LET s1 == [acc.s EXCEPT !.prevPower = Del(@, n)]
                  s2 == IF s1.val[n].status = UNSTAKED THEN DeleteValidator(s1, n) ELSE s1
              IN Leavers([acc EXCEPT !.s = s2, !.ups = Append(@, <<n, 0>>)], c, todo \ {n})

\* keeper.UpdateTendermintValidators: [s |-> state, ups |-> reported updates]
UpdateTm(s, c, h, t) ==
    LET s1 == IF h % NP(c).SessionBlockFrequency = 0 THEN ReleaseWaiting(s, c, t) ELSE s
        a1 == WalkStaked([s |-> s1, rem |-> s1.prevPower, ups |-> <<>>, count |-> 0, total |-> 0], c, s1.ixStaked)
        a2 == Leavers(a1, c, DOMAIN a1.rem)
    IN [s   |-> IF a2.ups # <<>> THEN [a2.s EXCEPT !.prevTotal = a2.total] ELSE a2.s,
        ups |-> a2.ups]

\* keeper.unstakeAllMatureValidators: every slot with time <= block time
OutputOf(n, v) == IF v.output = "" THEN n ELSE v.output
RECURSIVE FinishEach(_, _)
FinishEach(s, names) ==
    IF names = <<>> THEN s
    ELSE LET n == Head(names) IN
         IF ~HasVal(s, n) THEN FinishEach(s, Tail(names))
         ELSE LET v == s.val[n] IN
              IF v.status # UNSTAKING THEN FinishEach(s, Tail(names))
              ELSE LET s1 == IF BalOf(s, NODEPOOL) >= v.tokens
                               THEN Move(s, NODEPOOL, OutputOf(n, v), v.tokens) ELSE s   \* send error is only logged
                   IN FinishEach(DeleteValidator(s1, n), Tail(names))
RECURSIVE MatureSlots(_, _, _)
MatureSlots(s, q, t) ==
    IF q = <<>> THEN s
    ELSE IF Head(q)[1] > t THEN s
    ELSE MatureSlots([FinishEach(s, Head(q)[2]) EXCEPT !.ixUnstaking = SlotDel(@, Head(q)[1])], Tail(q), t)
MatureUnstake(s, t) == MatureSlots(s, s.ixUnstaking, t)

\* consensus set after applying reported updates (what Tendermint does)
RECURSIVE ApplyUpdates(_, _)
ApplyUpdates(tm, ups) ==
    IF ups = <<>> THEN tm
    ELSE LET u == Head(ups) IN
         ApplyUpdates(IF u[2] = 0 THEN Del(tm, u[1]) ELSE Put(tm, u[1], u[2]), Tail(ups))

\* [s |-> state after EndBlock, ups |-> reported updates]
NodesEndBlock(s, c, h, t) ==
    LET u  == UpdateTm(IncrementJailed(s, c), c, h, t)
        s1 == MatureUnstake(u.s, t)
    IN [s |-> [s1 EXCEPT !.tmSet = ApplyUpdates(@, u.ups)], ups |-> u.ups]

-----------------------------------------------------------------------------
\* Property-level state predicates (evaluated on implementation states and on the
\* design model).  They do not mention how the code maintains the indexes.

Staked(v)    == v.status = STAKED
Unstaking(v) == v.status = UNSTAKING

\* C19: pool = staked + unstaking tokens, up to `donated` = coins sent to the pool address
\* by ordinary send transactions (known finding: nothing stops such sends)
Inv_C19_Pool(s, donated) == BalOf(s, NODEPOOL) = NodeStakeSum(s) + donated

\* C21 -- staked-by-power index = exactly the staked, unjailed nodes under current power
StakedIndexSet(s)  == {<<s.ixStaked[i][1], s.ixStaked[i][2]>> : i \in 1..Len(s.ixStaked)}
StakedWantSet(s)   == {<<n, PowerOf(s.val[n].tokens)>> : n \in {m \in DOMAIN s.val : Staked(s.val[m]) /\ ~s.val[m].jailed}}
Inv_C21_Staked(s)  == /\ StakedIndexSet(s) = StakedWantSet(s)
                      /\ Len(s.ixStaked) = Cardinality(StakedIndexSet(s))
                      /\ \A i \in 1..Len(s.ixStaked) : s.ixStaked[i][3] = s.ixStaked[i][1]
\* per-chain index = exactly the staked nodes (jailed or not: jailing keeps a node's
\* chains, it only leaves sessions through the jailed flag) for each declared chain
ChainIndexSet(s)   == SeqToSet(s.ixChain)
ChainWantSet(s)    == UNION {{<<ChainKey(s.val[n].chains[i]), n>> : i \in 1..Len(s.val[n].chains)} :
                             n \in {m \in DOMAIN s.val : Staked(s.val[m])}}
Inv_C21_Chain(s)   == ChainIndexSet(s) = ChainWantSet(s) /\ Len(s.ixChain) = Cardinality(ChainIndexSet(s))
\* unstaking queue = exactly the unstaking nodes under their completion time, as sets
QueueSet(s)        == UNION {{<<s.ixUnstaking[i][1], s.ixUnstaking[i][2][j]>> : j \in 1..Len(s.ixUnstaking[i][2])} :
                             i \in 1..Len(s.ixUnstaking)}
QueueWantSet(s)    == {<<s.val[n].unstakeAt, n>> : n \in {m \in DOMAIN s.val : Unstaking(s.val[m])}}
Inv_C21_Queue(s)   == QueueSet(s) = QueueWantSet(s)
Inv_C21(s) == Inv_C21_Staked(s) /\ Inv_C21_Chain(s) /\ Inv_C21_Queue(s)

\* C22 (after EndBlock): the accumulated consensus set consists of staked, unjailed,
\* positive-power nodes with their current power, has min(MaxValidators, #eligible)
\* members, and no excluded eligible node has more power than an included one
Eligible(s) == {n \in DOMAIN s.val : Staked(s.val[n]) /\ ~s.val[n].jailed /\ PowerOf(s.val[n].tokens) > 0}
Inv_C22(s, c) ==
    LET E == Eligible(s) T == DOMAIN s.tmSet IN
    /\ T \subseteq E
    /\ \A n \in T : s.tmSet[n] = PowerOf(s.val[n].tokens)
    /\ Cardinality(T) = MinI(MaxI(NP(c).MaxValidators, 0), Cardinality(E))
    /\ \A n \in T, m \in E \ T : PowerOf(s.val[m].tokens) <= PowerOf(s.val[n].tokens)
\* leavers are reported with zero power, joiners / changed powers with the new power
Updates_C22(pre, post, ups) ==
    LET U == {ups[i][1] : i \in 1..Len(ups)} IN
    /\ Cardinality(U) = Len(ups)
    /\ \A i \in 1..Len(ups) :
         LET n == ups[i][1] p == ups[i][2] IN
         IF n \in DOMAIN post.tmSet THEN p = post.tmSet[n] /\ At(pre.tmSet, n, 0) # p
         ELSE p = 0 /\ n \in DOMAIN pre.tmSet
    /\ \A n \in DOMAIN pre.tmSet \cup DOMAIN post.tmSet :
         At(pre.tmSet, n, 0) # At(post.tmSet, n, 0) => n \in U

\* C23: an accepted or rejected stake message on an already staked node (edit-stake)
Step_C23(pre, post, c, tx, h) ==
    LET n == tx.node v == pre.val[n] IN
    (HasVal(pre, n) /\ Staked(v)) =>
      /\ HasVal(post, n)
      /\ LET w == post.val[n] IN
         /\ w.tokens >= v.tokens
         /\ w.status = v.status /\ w.jailed = v.jailed /\ w.pubkeyOK /\ w.unstakeAt = v.unstakeAt
         /\ w.output # v.output => /\ tx.signer = OutputOf(n, v)
                                   /\ v.output # "" => Active(c, "OEDIT", h)
         /\ w.delegators # v.delegators => tx.signer = n /\ Active(c, "RewardDelegators", h)
         /\ IsWaiting(pre, n) => w = v

\* C24: a node leaves the staked state only at a session boundary and only when it was
\* waiting (begin-unstake request or forced unstake); DeliverTx / BeginBlock never do it
Step_C24_Leave(pre, post, c, h, isEndBlock) ==
    \A n \in DOMAIN pre.val :
      (Staked(pre.val[n]) /\ (~HasVal(post, n) \/ ~Staked(post.val[n]))) =>
         /\ isEndBlock /\ h % NP(c).SessionBlockFrequency = 0
         /\ IsWaiting(pre, n) \/ (pre.val[n].jailed /\ At(pre.signing, n, FreshSigning).jailedBlocks >= NP(c).MaxJailedBlocks)
         /\ HasVal(post, n) /\ Unstaking(post.val[n])
\* completion time fixed when unstaking begins, never changed afterwards
Step_C24_Time(pre, post, c, t) ==
    \A n \in DOMAIN post.val :
      Unstaking(post.val[n]) =>
        IF HasVal(pre, n) /\ Unstaking(pre.val[n]) THEN post.val[n].unstakeAt = pre.val[n].unstakeAt
        ELSE post.val[n].unstakeAt = t + NP(c).UnstakingTime
\* payout (EndBlock, pre = state before it; UnstakingTime >= 1 so a node never begins and
\* finishes in the same block): every unstaking node whose time has come is paid exactly
\* its tokens, to its output address (the operator when it has none), and its record is
\* gone; no other record disappears; nobody else's balance changes
DueSet(s, t) == {n \in DOMAIN s.val : Unstaking(s.val[n]) /\ s.val[n].unstakeAt <= t}
DueTo(s, t, a) == SumOver([n \in DOMAIN s.val |-> IF n \in DueSet(s, t) /\ OutputOf(n, s.val[n]) = a THEN s.val[n].tokens ELSE 0], DOMAIN s.val)
DueTotal(s, t) == SumOver([n \in DOMAIN s.val |-> IF n \in DueSet(s, t) THEN s.val[n].tokens ELSE 0], DOMAIN s.val)
Step_C24_Payout(pre, post, t) ==
    /\ \A n \in DOMAIN pre.val : (n \in DueSet(pre, t)) <=> ~HasVal(post, n)
    /\ \A a \in (DOMAIN post.bal \cup DOMAIN pre.bal) \ {NODEPOOL} : BalOf(post, a) = BalOf(pre, a) + DueTo(pre, t, a)
    /\ BalOf(post, NODEPOOL) = BalOf(pre, NODEPOOL) - DueTotal(pre, t)
\* outside EndBlock no record disappears and no unstaking node is paid
\* ... and a node that has begun unstaking stays so, with the completion time it was given and
\* never more tokens, until its record disappears at the payout (no message re-stakes it)
Step_C24_NoEarly(pre, post) ==
    \A n \in DOMAIN pre.val :
       /\ HasVal(post, n)
       /\ Unstaking(pre.val[n]) => /\ Unstaking(post.val[n])
                                   /\ post.val[n].unstakeAt = pre.val[n].unstakeAt
                                   /\ post.val[n].tokens <= pre.val[n].tokens

\* C25: slashing (BeginBlock or challenge burn): tokens removed = pool decrease = supply
\* decrease, never more than the stake; below the minimum => jailed and waiting
Step_C25_Slash(pre, post, c) ==
    LET removed == SumOver([n \in DOMAIN pre.val |-> IF HasVal(post, n) THEN pre.val[n].tokens - post.val[n].tokens ELSE 0], DOMAIN pre.val) IN
    /\ \A n \in DOMAIN pre.val : HasVal(post, n) /\ post.val[n].tokens >= 0 /\ post.val[n].tokens <= pre.val[n].tokens
    /\ BalOf(pre, NODEPOOL) - BalOf(post, NODEPOOL) = removed
    /\ pre.supply - post.supply = removed
    /\ \A n \in DOMAIN pre.val :
         (post.val[n].tokens < pre.val[n].tokens /\ post.val[n].tokens < NP(c).StakeMinimum) =>
            post.val[n].jailed /\ IsWaiting(post, n)
\* jailed nodes are not in the consensus set after the next EndBlock
Inv_C25_JailedOut(s) == \A n \in DOMAIN s.tmSet : HasVal(s, n) /\ ~s.val[n].jailed
\* unjail succeeds iff authorized signer, stake >= minimum, jailed, jail period over in
\* BLOCK time (periodEnd = end of the jail period, a ghost kept by the caller)
PropUnjailAllowed(pre, c, tx, t, periodEnd) ==
    /\ HasVal(pre, tx.node)
    /\ tx.msgSigner \in {tx.node, OutputOf(tx.node, pre.val[tx.node])}
    /\ pre.val[tx.node].tokens >= NP(c).StakeMinimum
    /\ pre.val[tx.node].jailed
    /\ t >= periodEnd
=============================================================================
