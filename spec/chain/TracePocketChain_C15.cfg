INIT TraceInit
NEXT TraceNext
INVARIANTS C15_FeeChargedExactlyOnce
POSTCONDITION TraceAccepted
CHECK_DEADLOCK FALSE
