INIT TraceInit
NEXT TraceNext
INVARIANTS C20_Strict_NoDonations
POSTCONDITION TraceAccepted
CHECK_DEADLOCK FALSE
