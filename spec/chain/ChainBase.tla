----------------------------- MODULE ChainBase -----------------------------
(***************************************************************************)
(* Vocabulary shared by all chain-engine modules (variable-free).          *)
(*                                                                         *)
(* The abstract application state is ONE record `s`, with the same shape   *)
(* as the JSON projection produced by harness/chainsim (project.go):       *)
(*   s.bal      [account name -> uPOKT]   domain = accounts that exist     *)
(*   s.supply   recorded total supply                                      *)
(*   s.nopk     [account name -> TRUE] accounts without a stored public key *)
(*   s.badCoins accounts whose coin set is not canonical (must stay <<>>)  *)
(*   s.val      [node name -> [status, jailed, tokens, chains, output,     *)
(*                delegators, unstakeAt, ...]]   status 0 unstaked,        *)
(*                1 unstaking, 2 staked                                    *)
(*   s.ixStaked, s.ixChain, s.ixUnstaking, s.ixWaiting   raw index images  *)
(*   s.prevPower, s.prevTotal, s.signing, s.prevProposer                   *)
(*   s.app, s.ixAppStaked, s.ixAppUnstaking                                *)
(*   s.claims                                                              *)
(*   s.tmSet    consensus set as accumulated from reported updates (ghost) *)
(* and a slowly changing configuration record `c` (c.nodeParams,           *)
(* c.appParams, c.pcParams, c.acl, c.daoOwner, c.upgrade, c.featMem).      *)
(* Account names are strings: "a1".."aN" for keys, module accounts by      *)
(* their module names.  Times are block intervals since genesis.           *)
(***************************************************************************)
EXTENDS Integers, Sequences, FiniteSets, TLC

FEE      == "fee_collector"
NODEPOOL == "staked_tokens_pool"
APPPOOL  == "application_staked_tokens_pool"
DAO      == "dao"
ModuleAccounts == {FEE, NODEPOOL, APPPOOL, DAO}

UNSTAKED  == 0
UNSTAKING == 1
STAKED    == 2

\* ---- functions with growing string domains
Put(f, k, v) == [x \in DOMAIN f \cup {k} |-> IF x = k THEN v ELSE f[x]]
Del(f, k)    == [x \in DOMAIN f \ {k} |-> f[x]]
At(f, k, d)  == IF k \in DOMAIN f THEN f[k] ELSE d

RECURSIVE SumOver(_, _)
SumOver(f, S) == IF S = {} THEN 0
                 ELSE LET x == CHOOSE y \in S : TRUE IN f[x] + SumOver(f, S \ {x})
SumAll(f) == SumOver(f, DOMAIN f)

SeqToSet(q) == {q[i] : i \in 1..Len(q)}

\* ---- balances
BalOf(s, a)      == At(s.bal, a, 0)
Exists(s, a)     == a \in DOMAIN s.bal
\* setting the balance of a missing account creates it (without a public key)
SetBal(s, a, n)  == [s EXCEPT !.bal = Put(@, a, n),
                              !.nopk = IF a \in DOMAIN s.bal THEN @ ELSE Put(@, a, TRUE)]
\* move n from a to b (b is created if missing); caller guarantees BalOf(s,a) >= n
Move(s, a, b, n) == LET s1 == SetBal(s, a, BalOf(s, a) - n) IN SetBal(s1, b, BalOf(s1, b) + n)
Mint(s, a, n)    == [SetBal(s, a, BalOf(s, a) + n) EXCEPT !.supply = @ + n]
Burn(s, a, n)    == [SetBal(s, a, BalOf(s, a) - n) EXCEPT !.supply = @ - n]

\* ---- feature gating (c.featMem is the activation map of the running process)
Active(c, f, h) == f \in DOMAIN c.featMem /\ c.featMem[f] # 0 /\ h >= c.featMem[f]

-----------------------------------------------------------------------------
\* State predicates that several properties share (evaluated on implementation states)

\* C17: recorded supply = sum of all balances
Inv_C17_SupplyIsSumOfBalances(s) == s.supply = SumAll(s.bal)

\* C18 (state part): no negative balance; canonical coin sets (projection reports offenders)
Inv_C18_NonNegative(s) == (\A a \in DOMAIN s.bal : s.bal[a] >= 0) /\ s.badCoins = <<>>

StakedOrUnstaking(r) == r.status \in {UNSTAKING, STAKED}
NodeStakeSum(s) == SumOver([n \in DOMAIN s.val |-> IF StakedOrUnstaking(s.val[n]) THEN s.val[n].tokens ELSE 0], DOMAIN s.val)
AppStakeSum(s)  == SumOver([n \in DOMAIN s.app |-> IF StakedOrUnstaking(s.app[n]) THEN s.app[n].tokens ELSE 0], DOMAIN s.app)

\* C19 / C20: pools hold exactly the staked tokens (at commit boundaries)
Inv_C19_NodePoolExact(s) == BalOf(s, NODEPOOL) = NodeStakeSum(s)
Inv_C20_AppPoolExact(s)  == BalOf(s, APPPOOL) = AppStakeSum(s)
=============================================================================
