---------------------------- MODULE MCChainApps ----------------------------
(***************************************************************************)
(* Design model of the applications module: every application request      *)
(* against every state of a 3-key application set.                         *)
(*                                                                         *)
(* The initial states are projections of REAL chains (written by           *)
(* `vh-chain-apps init-state`: several variants - no application staked,   *)
(* the application set full, one application about to finish unstaking...) *)
(* so TLC's behaviours can be replayed verbatim on identically built       *)
(* chains.  One step = one block:                                          *)
(*   BeginBlock (fee distribution)  ->  DeliverTx (at most one)            *)
(*   -> EndBlock (maturation of unstaking applications)  ->  Commit        *)
(* with block time t advancing by dt block intervals.                      *)
(***************************************************************************)
EXTENDS ChainApps, ChainBlock, IOUtils, Json

CONSTANTS MaxSteps,    \* blocks per behaviour
          Rich,        \* TRUE: amounts x chain lists as a full product; FALSE: pairwise
          Variants,    \* set of indices into the init file
          Focus,       \* "all" | "edit" | "unstake": request families generated (parts for C23 / C24)
          SimDepth     \* simulation only: length at which a random behaviour is emitted (0 otherwise)

Inits == JsonDeserialize(IOEnv.INIT_FILE)    \* <<[st, cfg, h, t, proposer], ...>>

VARIABLES v,        \* which initial variant this behaviour started from
          s,        \* application state (fields this model reads or writes)
          t,        \* time of the last block (block intervals)
          n,        \* number of blocks executed
          donated,  \* ghost: coins sent to the pool address by successful sends
          hist

vars == <<v, s, t, n, donated, hist>>
view == <<v, s, t, n, donated>>

C == Inits[v].cfg
Fee == BaseFee
AppKeys == {"a4", "a5", "a6"}
Donor == "a7"

Slim(x) == [bal |-> x.bal, supply |-> x.supply, nopk |-> x.nopk, val |-> x.val, prevProposer |-> x.prevProposer,
            app |-> x.app, appIx |-> SeqToSet(x.appIx), appUnst |-> x.appUnst]

Init == /\ v \in Variants
        /\ s = Slim(Inits[v].st)
        /\ t = Inits[v].t
        /\ n = 0 /\ donated = 0 /\ hist = <<>>

HeightOf(k) == Inits[v].h + k

\* ---- requests ------------------------------------------------------------------
MkTx(kind, app, signer, chains, amount, id) ==
    LET tx0 == [kind |-> kind, app |-> app, chains |-> chains, amount |-> amount, from |-> "", to |-> "",
                signer |-> signer, sigOK |-> TRUE, chainOK |-> TRUE, hasSig |-> TRUE, hasPK |-> TRUE,
                multisig |-> FALSE, depthOK |-> TRUE, fee |-> Fee, feeValid |-> TRUE, memoLen |-> 0,
                decodes |-> TRUE, basicOK |-> TRUE, id |-> id, dup |-> "no"]
    IN [tx0 EXCEPT !.basicOK = AppsBasicOK(tx0)]
MkSend(from, to, amount, id) ==
    [MkTx("send", "", from, <<>>, amount, id) EXCEPT !.from = from, !.to = to]
NoTx == MkTx("none", "", "", <<>>, 0, 0)

IsStaked(a) == a \in DOMAIN s.app /\ s.app[a].status = STAKED
Avail(a)    == BalOf(s, a) - Fee                   \* what the handler sees once the fee is charged
Min         == MinStake(C)

\* stake amounts at every boundary the handlers distinguish
StakeAmounts(a) ==
    (IF IsStaked(a)
       THEN LET cur == s.app[a].tokens IN {cur - 1, cur, cur + 1, cur + 1000000, cur + Avail(a), cur + Avail(a) + 1}
       ELSE {Min - 1, Min, Min + 500000, Avail(a), Avail(a) + 1})
    \cap (1..2000000000)
GoodAmount(a) == IF IsStaked(a) THEN s.app[a].tokens ELSE Min
\* chain lists: none, one, another one, the maximum (2), one too many, a malformed id, a duplicated id
ChainLists == {<<>>, <<"0001">>, <<"0002">>, <<"0001", "0002">>, <<"0001", "0002", "0003">>, <<"zz">>, <<"0001", "0001">>}
TooMany == <<"0001", "0002", "0003">>
\* the admission limits on the EDIT path, combined with a stake bump (pairwise mode; Rich has the full product)
BumpChainReqs(a) == IF IsStaked(a)
                      THEN {<<s.app[a].tokens + 1000000, ch>> : ch \in {TooMany, <<"0001", "0001">>, <<"zz">>, <<>>}}
                           \cup {<<s.app[a].tokens + Avail(a) + 1, TooMany>>}
                      ELSE {}

StakeReqs(a) ==
    IF Rich THEN (StakeAmounts(a) \cup {0}) \X ChainLists
    ELSE ({<<amt, <<"0001">>>> : amt \in StakeAmounts(a)}
          \cup {<<GoodAmount(a), ch>> : ch \in ChainLists}
          \cup BumpChainReqs(a)
          \cup {<<0, <<>>>>, <<0, <<"0001">>>>})
EditReqs(a) == {r \in StakeReqs(a) : IsStaked(a)}

Next3(a) == CASE a = "a4" -> "a5" [] a = "a5" -> "a6" [] a = "a6" -> "a4"

\* ---- one block ---------------------------------------------------------------------

Block(tx, dt, hasTx) ==
    LET h   == HeightOf(n + 1)
        t1  == t + dt
        sb  == AppsBeginBlock(BeginBlockFees(s, C, h, Inits[v].proposer), C, h)
        dl  == IF hasTx THEN AppsDeliver(sb, C, tx, h, t1, 0) ELSE sb
        ok  == hasTx /\ AppsDeliverOK(sb, C, tx, h, t1)
        en  == AppsEndBlock(dl, C, h, t1)
    IN /\ n < MaxSteps
       /\ v' = v /\ n' = n + 1 /\ t' = t1
       /\ s' = en
       /\ donated' = donated + (IF ok /\ tx.kind = "send" /\ tx.to = APPPOOL THEN tx.amount ELSE 0)
       /\ hist' = Append(hist, [v |-> v, dt |-> dt, t |-> t1, hasTx |-> hasTx, tx |-> tx,
                                ante |-> IF hasTx THEN AppsAnteClass(sb, C, tx, h) ELSE "none",
                                cls |-> IF hasTx THEN AppsClass(sb, C, tx, h) ELSE "tick",
                                why |-> IF hasTx THEN AppsWhy(sb, C, tx, h) ELSE "",
                                ok |-> ok, begun |-> AppsFocus(sb), st |-> AppsFocus(dl), end |-> AppsFocus(en)])

Id == n + 1

Stakes    == \E a \in AppKeys : \E r \in StakeReqs(a) : Block(MkTx("app_stake", a, a, r[2], r[1], Id), 1, TRUE)
Edits     == \E a \in AppKeys : \E r \in EditReqs(a) : Block(MkTx("app_stake", a, a, r[2], r[1], Id), 1, TRUE)
\* transfer of a to the key b: message names b, no chains, zero value, signed by a
Transfers == \E a \in AppKeys : \E b \in AppKeys \ {a} : Block(MkTx("app_stake", b, a, <<>>, 0, Id), 1, TRUE)
\* somebody else's signature on an ordinary stake / on an unstake request
Foreign   == \E a \in AppKeys :
               \/ Block(MkTx("app_stake", a, Next3(a), <<"0001">>, GoodAmount(a), Id), 1, TRUE)
               \/ Block(MkTx("app_unstake", a, Next3(a), <<>>, 0, Id), 1, TRUE)
Unstakes  == \E a \in AppKeys : Block(MkTx("app_unstake", a, a, <<>>, 0, Id), 1, TRUE)
Unjails   == \E a \in AppKeys : Block(MkTx("app_unjail", a, a, <<>>, 0, Id), 1, TRUE)
Ticks     == \E dt \in {1, 2, 3} : Block(NoTx, dt, FALSE)
Donate    == Block(MkSend(Donor, APPPOOL, 7, Id), 1, TRUE)

Next == CASE Focus = "all"     -> Stakes \/ Transfers \/ Foreign \/ Unstakes \/ Unjails \/ Ticks \/ Donate
          [] Focus = "edit"    -> Edits \/ (\E a \in AppKeys : Block(MkTx("app_stake", a, Next3(a), <<"0001">>, GoodAmount(a), Id), 1, TRUE))
          [] Focus = "unstake" -> Unstakes \/ Ticks \/ Foreign
                                  \/ (\E a \in AppKeys : Block(MkTx("app_stake", a, a, <<"0001">>, GoodAmount(a), Id), 1, TRUE))

NextCover == Next /\ PrintT(ToJson(hist'))
Spec == Init /\ [][Next]_vars

\* simulation (tlc -simulate, MaxSteps large): emit the history of a random behaviour when it reaches SimDepth blocks
EmitSim == Len(hist) = SimDepth => PrintT(ToJson(hist))
SimBound == Len(hist) <= SimDepth

-----------------------------------------------------------------------------
\* Model sanity: the relay function is the exact one in every variant
ASSUME \A i \in Variants : RelaysExact(Inits[i].cfg)

\* ---- state invariants (evaluated after every block = at every committed height) ----
C20_Design      == Inv_C20(s, donated)
AppIndex_Design == Inv_AppIndex(s)
C28_Relays      == Inv_C28_Relays(s, C)
C28_Chains      == Inv_C28_Chains(s, C)
C24_NoOverdue   == Inv_C24_NoOverdue(s, t)
SupplyOK        == Inv_C17_SupplyIsSumOfBalances(s)

\* ---- step properties: the property statements on every transition of the model ----
E == hist'[Len(hist')]
Authd(e) == e.hasTx /\ e.ante = "ok"
C28_Design ==
    [][LET e == E IN Authd(e) =>
         /\ Step_C28_NewAt(e.begun, C, e.tx, HeightOf(n + 1), e.st, e.ok)
         /\ Step_C28_Transfer(e.begun, C, e.tx, e.st, e.ok)
         /\ Step_C28_Edit(e.begun, C, e.tx, e.st, e.ok)]_vars
C23_Design == [][LET e == E IN Authd(e) => Step_C23_App(e.begun, C, e.tx, e.st, e.ok)]_vars
C24_Design ==
    [][LET e == E IN
         /\ Authd(e) => Step_C24_Deliver(e.begun, C, e.tx, e.t, e.st, e.ok)
         /\ Step_C24_EndBlockAt(e.st, C, HeightOf(n + 1), e.t, e.end)]_vars
\* a request that is not authenticated changes nothing at all
Unauth_Design == [][LET e == E IN (e.hasTx /\ e.ante # "ok") => e.st = e.begun]_vars
=============================================================================
