----------------------------- MODULE ChainApps -----------------------------
(***************************************************************************)
(* Applications module (x/apps): exact functional model of the three       *)
(* application messages and of the application part of EndBlock, written   *)
(* as the sequence of validations and writes the real handlers perform     *)
(* (x/apps/handler.go, keeper/appStateChanges.go, application.go,          *)
(* appStaked.go, appUnstaked.go, pool.go, abci.go).  Handlers run directly *)
(* on the root store, so a message that fails after a write would leave    *)
(* that write in place: every branch below returns the state reached at    *)
(* the point where the real handler returns.                               *)
(*                                                                         *)
(* State fields owned by this module (projection: harness/cmd/vh-chain-apps)*)
(*   s.app      [name -> [status, jailed, tokens, chains, maxRelays,       *)
(*                        unstakeAt, pubkeyOK]]   (main store, prefix 0x01) *)
(*   s.appIx    SET of <<name, power>>: the raw staking-set index (prefix  *)
(*              0x02, key = power || ^address, value = address).  Its SIZE *)
(*              is what MaxApplications is compared with.                  *)
(*   s.appUnst  sequence of <<time, <<names>>>> ascending by time: the raw *)
(*              unstaking queue (prefix 0x03); names in stored order       *)
(* plus s.bal / s.supply / s.nopk of ChainBase.  The application staking   *)
(* pool is the module account APPPOOL.                                     *)
(*                                                                         *)
(* A transaction record (see ChainAuth) of kind                            *)
(*   "app_stake"   has  app (address of the message's public key), chains  *)
(*                 (sequence of chain ids, ascending), amount              *)
(*   "app_unstake" / "app_unjail" have  app                                *)
(* An application TRANSFER is an app_stake message naming the NEW key with *)
(* no chains and amount 0, signed by the CURRENT application's key.        *)
(* h = height of the executing block, t = its time (block intervals).      *)
(***************************************************************************)
EXTENDS ChainAuth

AppsKinds == {"app_stake", "app_unstake", "app_unjail"}

PowerReduction  == 1000000
AppPower(tok)   == tok \div PowerReduction      \* sdk.TokensToConsensusPower

\* ctx.IsAfterUpgradeHeight(): height >= codec.GetCodecUpgradeHeight() = the height K of the amino -> proto
\* upgrade.  chainsim sets codec.OldUpgradeHeight = K, UpgradeHeight = K + 1 and logs K as c.codecAt
\* (default 1: every block is past it).  BEFORE K (the amino era, as on mainnet below 30024):
\*   - there is no edit-stake: a staked application that stakes again is refused (status);
\*   - MaxApplications is not enforced; there are no transfers;
\*   - a matured application is NOT deleted: its record stays, status Unstaked, 0 tokens, and such a
\*     legacy record may stake again at any later height - through the FRESH-stake path (a brand new
\*     record: status Staked, jailed cleared), also after K.
CodecAt(c) == IF "codecAt" \in DOMAIN c THEN c.codecAt ELSE 1
AfterCodecUpgrade(c, h) == h >= CodecAt(c)

\* ---- stateless validation (types/msg.go) ---------------------------------
\* ValidateNetworkIdentifier: 1..2 bytes of hex.  Chain ids are opaque strings here; the
\* drivers draw malformed ids from this fixed set (binding convention).
BadChainIds   == {"", "zz", "0g", "000001"}
ChainIdOK(ch) == ch \notin BadChainIds

\* MsgStake.IsValidTransfer (public key present in every generated message)
TransferShape(tx) == tx.amount = 0 /\ tx.chains = <<>>

\* MsgStake.ValidateBasic; MsgBeginUnstake / MsgUnjail only require a non-empty address
AppsBasicOK(tx) ==
    IF tx.kind = "app_stake"
      THEN \/ TransferShape(tx)
           \/ /\ tx.amount > 0
              /\ tx.chains # <<>>
              /\ \A i \in 1..Len(tx.chains) : ChainIdOK(tx.chains[i])
      ELSE TRUE

\* ---- ante: who may sign (x/auth/ante.go, keeper/appUtil.go IsMsgAppTransfer) ----
\* NOTE: the ante handler accepts the signature's own address as an extra valid signer
\* when that address is an application IN ANY STATUS (GetApplication found); the
\* "staked" requirement is only enforced later by the message handler, after the fee
\* has been charged.  (ChainAuth.IsAppTransfer requires status = STAKED, which differs
\* for an unstaking signer; this module therefore carries its own copy.)
AppsIsMsgAppTransfer(s, c, tx, h) ==
    /\ tx.kind = "app_stake"
    /\ AfterCodecUpgrade(c, h) /\ Active(c, "AppTransfer", h)
    /\ TransferShape(tx)
    /\ tx.signer # "" /\ tx.signer # tx.app
    /\ tx.signer \in DOMAIN s.app

AppsValidSignerSeq(s, c, tx, h) ==
    DeclaredSigners(tx) \o (IF AppsIsMsgAppTransfer(s, c, tx, h) THEN <<tx.signer>> ELSE <<>>)

\* outcome class of decode / duplicate cache / ValidateBasic / ante for the kinds this
\* module delivers ("ok" = authenticated, fee charged)
AppsAnteClass(s, c, tx, h) ==
    IF tx.kind \notin AppsKinds THEN AnteClass(s, c, tx, h)
    ELSE IF ~tx.decodes THEN "decode"
    ELSE IF tx.dup = "inblock" /\ Active(c, "REDUP", h - 1) THEN "dup"
    ELSE IF ~AppsBasicOK(tx) THEN "basic"
    ELSE IF ~tx.feeValid \/ ~tx.hasSig THEN "txbasic"
    ELSE IF tx.memoLen > c.maxMemo THEN "memo"
    ELSE IF tx.dup = "indexed" THEN "dup"
    ELSE LET r == AuthLoop(s, c, tx, AppsValidSignerSeq(s, c, tx, h)) IN
         IF r # "ok" THEN r
         ELSE IF ~Exists(s, tx.signer) THEN "noaccount"
         ELSE IF BalOf(s, tx.signer) < tx.fee THEN "balance"
         ELSE "ok"

\* ---- parameters ------------------------------------------------------------
MinStake(c)      == c.appParams.AppStakeMin
MaxApps(c)       == c.appParams.MaxApplications
MaxAppChains(c)  == c.appParams.MaxChains
AppUnstaking(c)  == c.appParams.UnstakingTime
ParticipationOn(c) == At(c.appParams, "ParticipationRateOn", 0) # 0

\* ---- relay allowance (keeper/application.go CalculateAppRelays) --------------
\* result = trunc( participation * (BaseRelaysPerPOKT/100) * (tokens/10^6) + StabilityAdjustment )
\* in 18-decimal arithmetic.  With the participation rate off and BaseRelaysPerPOKT a
\* multiple of 100 every intermediate value is exact and the result is
\*     floor(pct * tokens / 10^6) + adjustment,   pct = BaseRelaysPerPOKT / 100
\* computed below in two halves so that all products stay below 2^31 (pct <= 2000).
\* Otherwise (participation on: the rate depends on both pools and the supply, 18-digit
\* quotients) the value is bound from the log (`orc`) and only the relation stated by
\* C28 is constrained: set on stake, recomputed on a bump, untouched otherwise.
RelaysExact(c) == ~ParticipationOn(c) /\ c.appParams.BaseRelaysPerPOKT % 100 = 0
                  /\ c.appParams.BaseRelaysPerPOKT \div 100 <= 2000
                  /\ c.appParams.StabilityAdjustment >= 0
CalcRelays(c, tok) ==
    LET pct == c.appParams.BaseRelaysPerPOKT \div 100 IN
    pct * (tok \div PowerReduction) + (pct * (tok % PowerReduction)) \div PowerReduction
      + c.appParams.StabilityAdjustment
Relays(c, tok, orc) == IF RelaysExact(c) THEN CalcRelays(c, tok) ELSE orc

\* ---- store primitives (application.go, appStaked.go, appUnstaked.go) ---------
QSlot(q, tm)  == IF \E i \in 1..Len(q) : q[i][1] = tm
                   THEN q[CHOOSE i \in 1..Len(q) : q[i][1] = tm][2] ELSE <<>>
QDel(q, tm)   == SelectSeq(q, LAMBDA e : e[1] # tm)
QSet(q, tm, names) ==      \* the store keeps the slots ordered by their time key
    SelectSeq(q, LAMBDA e : e[1] < tm) \o << <<tm, names>> >> \o SelectSeq(q, LAMBDA e : e[1] > tm)

\* SetUnstakingApplication: APPEND the address to the slot of its completion time
SetUnstakingApp(s, a, r)  == [s EXCEPT !.appUnst = QSet(@, r.unstakeAt, Append(QSlot(@, r.unstakeAt), a))]
\* deleteUnstakingApplication: drop every occurrence; delete the slot when it becomes empty
DelUnstakingApp(s, a, r)  ==
    LET rest == SelectSeq(QSlot(s.appUnst, r.unstakeAt), LAMBDA x : x # a) IN
    [s EXCEPT !.appUnst = IF rest = <<>> THEN QDel(@, r.unstakeAt) ELSE QSet(@, r.unstakeAt, rest)]
\* SetStakedApplication (jailed applications are not kept in the staking set)
SetStakedApp(s, a, r)     == IF r.jailed THEN s ELSE [s EXCEPT !.appIx = @ \cup {<<a, AppPower(r.tokens)>>}]
\* deleteApplicationFromStakingSet: the key is derived from the record passed in
DelFromStakingSet(s, a, r) == [s EXCEPT !.appIx = @ \ {<<a, AppPower(r.tokens)>>}]
\* SetApplication: main store, then the index its status calls for
SetApp(s, a, r) ==
    LET s1 == [s EXCEPT !.app = Put(@, a, r)]
        s2 == IF r.status = UNSTAKING THEN SetUnstakingApp(s1, a, r) ELSE s1
    IN IF r.status = STAKED /\ ~r.jailed THEN SetStakedApp(s2, a, r) ELSE s2
DelApp(s, a) == [s EXCEPT !.app = Del(@, a)]

\* getStakedApplicationsCount: number of ENTRIES of the staking-set index
StakedCount(s) == Cardinality(s.appIx)

\* types.NewApplication
NewAppRec(chains) == [status |-> STAKED, jailed |-> FALSE, tokens |-> 0, chains |-> chains,
                      maxRelays |-> 0, unstakeAt |-> 0, pubkeyOK |-> TRUE]

\* ---- MsgStake (handler.go handleStake) --------------------------------------
\* ValidateApplicationTransfer(signer, msg): note that it does NOT look at the message's
\* chains / value; a non-transfer-shaped message can only reach the handler signed by
\* tx.app itself, and then either the signer is not an application or the target exists.
TransferValid(s, c, tx, h) ==
    /\ AfterCodecUpgrade(c, h) /\ Active(c, "AppTransfer", h)
    /\ tx.signer \in DOMAIN s.app /\ s.app[tx.signer].status = STAKED
    /\ tx.app \notin DOMAIN s.app

\* TransferApplication: the new record inherits every field; no coins move
TransferApp(s, old, new) ==
    LET cur == s.app[old]
        s1  == SetApp(s, new, [cur EXCEPT !.status = STAKED])
        s2  == DelFromStakingSet(s1, old, cur)
    IN DelApp(s2, old)

\* ValidateEditStake
EditError(s, cur, a, amount) ==
    LET diff == amount - cur.tokens IN
    IF diff < 0 THEN "minedit"
    ELSE IF diff # 0 /\ BalOf(s, a) < diff THEN "coins"
    ELSE "ok"

\* ValidateApplicationStaking, in source order
StakeError(s, c, tx, h) ==
    LET a == tx.app
        found == a \in DOMAIN s.app
    IN IF Len(tx.chains) > MaxAppChains(c) THEN "toomanychains"
       ELSE IF found /\ AfterCodecUpgrade(c, h) /\ s.app[a].status = STAKED
              THEN EditError(s, s.app[a], a, tx.amount)
       ELSE IF found /\ s.app[a].status # UNSTAKED THEN "status"
       ELSE IF tx.amount < MinStake(c) THEN "minstake"
       ELSE IF BalOf(s, a) < tx.amount THEN "coins"
       ELSE IF AfterCodecUpgrade(c, h) /\ StakedCount(s) >= MaxApps(c) THEN "maxapps"
       ELSE "ok"

\* EditStakeApplication
EditStake(s, c, a, chains, amount, orc) ==
    LET cur  == s.app[a]
        diff == amount - cur.tokens
        s1   == IF diff > 0 THEN Move(s, a, APPPOOL, diff) ELSE s
        r1   == IF diff > 0 THEN [cur EXCEPT !.tokens = amount, !.maxRelays = Relays(c, amount, orc)] ELSE cur
        r2   == [r1 EXCEPT !.chains = chains]
        s2   == DelFromStakingSet(s1, a, cur)
        s3   == DelApp(s2, a)
        s4   == SetApp(s3, a, r2)
    IN SetStakedApp(s4, a, r2)

\* StakeApplication
StakeApp(s, c, tx, h, orc) ==
    LET a == tx.app IN
    IF AfterCodecUpgrade(c, h) /\ a \in DOMAIN s.app /\ s.app[a].status = STAKED
      THEN EditStake(s, c, a, tx.chains, tx.amount, orc)
      ELSE LET s1 == Move(s, a, APPPOOL, tx.amount)
               r  == [NewAppRec(tx.chains) EXCEPT !.tokens = tx.amount, !.maxRelays = Relays(c, tx.amount, orc)]
           IN SetApp(s1, a, r)

\* request class, for attribution of a divergence to a property
StakeClass(s, c, tx, h) ==
    IF TransferValid(s, c, tx, h) THEN "transfer"
    ELSE IF tx.app \in DOMAIN s.app /\ s.app[tx.app].status = STAKED THEN "edit"     \* (refused before the codec upgrade)
    ELSE IF tx.signer # tx.app THEN "transfer"      \* a transfer request that is refused
    ELSE "new"

\* why an authenticated stake request is refused ("ok" = accepted), for attribution: the admission limits
\* (chains, minimum, funds, MaxApplications) belong to C28 on the fresh-stake AND on the edit path
StakeWhy(s, c, tx, h) == IF TransferValid(s, c, tx, h) THEN "ok" ELSE StakeError(s, c, tx, h)

HandleStake(s, c, tx, h, orc) ==
    IF TransferValid(s, c, tx, h)
      THEN [ok |-> TRUE, st |-> TransferApp(s, tx.signer, tx.app)]
      ELSE IF StakeError(s, c, tx, h) # "ok" THEN [ok |-> FALSE, st |-> s]
           ELSE [ok |-> TRUE, st |-> StakeApp(s, c, tx, h, orc)]

\* ---- MsgBeginUnstake (handleMsgBeginUnstake) ----------------------------------
UnstakeOK(s, tx) ==
    /\ tx.app \in DOMAIN s.app
    /\ s.app[tx.app].status = STAKED
    /\ ~s.app[tx.app].jailed
\* BeginUnstakingApplication
BeginUnstake(s, c, a, t) ==
    LET cur == s.app[a]
        s1  == DelFromStakingSet(s, a, cur)
        r   == [cur EXCEPT !.status = UNSTAKING,
                           !.unstakeAt = IF cur.unstakeAt = 0 THEN t + AppUnstaking(c) ELSE cur.unstakeAt]
    IN SetApp(s1, a, r)
HandleUnstake(s, c, tx, t) ==
    IF UnstakeOK(s, tx) THEN [ok |-> TRUE, st |-> BeginUnstake(s, c, tx.app, t)] ELSE [ok |-> FALSE, st |-> s]

\* ---- MsgUnjail (handleMsgUnjail) ----------------------------------------------
\* ValidateUnjailMessage never assigns its address result, so UnjailApplication is
\* called with a nil address, finds nothing and returns: a "successful" unjail changes
\* nothing.  (Jailed applications cannot arise: nothing calls JailApplication and the
\* genesis validation refuses staked+jailed records.)
UnjailOK(s, c, tx) ==
    /\ tx.app \in DOMAIN s.app
    /\ s.app[tx.app].tokens >= MinStake(c)
    /\ s.app[tx.app].jailed
HandleUnjail(s, c, tx) == [ok |-> UnjailOK(s, c, tx), st |-> s]

\* ---- DeliverTx for the kinds of this module (+ send, for donations to the pool) ----
AppsHandle(s, c, tx, h, t, orc) ==
    CASE tx.kind = "app_stake"   -> HandleStake(s, c, tx, h, orc)
      [] tx.kind = "app_unstake" -> HandleUnstake(s, c, tx, t)
      [] tx.kind = "app_unjail"  -> HandleUnjail(s, c, tx)
      [] tx.kind = "send"        -> [ok |-> SendOK(s, tx), st |-> SendResult(s, tx)]

AppsDeliver(s, c, tx, h, t, orc) ==
    IF AppsAnteClass(s, c, tx, h) # "ok" THEN s
    ELSE AppsHandle(ChargeFee(s, tx), c, tx, h, t, orc).st
AppsDeliverOK(s, c, tx, h, t) ==
    /\ AppsAnteClass(s, c, tx, h) = "ok"
    /\ AppsHandle(ChargeFee(s, tx), c, tx, h, t, 0).ok
AppsWhy(s, c, tx, h) ==
    IF AppsAnteClass(s, c, tx, h) # "ok" \/ tx.kind # "app_stake" THEN ""
    ELSE StakeWhy(ChargeFee(s, tx), c, tx, h)
AppsClass(s, c, tx, h) ==
    IF AppsAnteClass(s, c, tx, h) # "ok" THEN "rejected"
    ELSE IF tx.kind = "app_stake" THEN StakeClass(ChargeFee(s, tx), c, tx, h)
    ELSE tx.kind

\* ---- EndBlock (keeper/abci.go EndBlocker -> unstakeAllMatureApplications) -------
\* every queue slot with time <= block time, ascending; inside a slot the stored order
RECURSIVE FinishSlot(_, _, _, _)
FinishSlot(s, c, names, h) ==
    IF names = <<>> THEN s
    ELSE LET a == Head(names) IN
         IF a \notin DOMAIN s.app THEN FinishSlot(s, c, Tail(names), h)
         ELSE LET r == s.app[a] IN
              IF r.status # UNSTAKING \/ r.jailed THEN FinishSlot(s, c, Tail(names), h)   \* ValidateApplicationFinishUnstaking
              ELSE \* FinishUnstakingApplication
                   LET s1 == DelUnstakingApp(s, a, r)
                       \* coinsFromStakedToUnstaked: an error is logged and unstaking continues
                       s2 == IF BalOf(s1, APPPOOL) >= r.tokens THEN Move(s1, APPPOOL, a, r.tokens) ELSE s1
                       s3 == SetApp(s2, a, [r EXCEPT !.status = UNSTAKED, !.tokens = 0, !.maxRelays = 0, !.unstakeAt = 0])
                       s4 == IF AfterCodecUpgrade(c, h) THEN DelApp(s3, a) ELSE s3
                   IN FinishSlot(s4, c, Tail(names), h)

RECURSIVE FinishSlots(_, _, _, _)
FinishSlots(s, c, slots, h) ==
    IF slots = <<>> THEN s
    ELSE LET e  == Head(slots)
             s1 == FinishSlot(s, c, e[2], h)
         IN FinishSlots([s1 EXCEPT !.appUnst = QDel(@, e[1])], c, Tail(slots), h)      \* store.Delete(slot key)

\* ---- BeginBlock ON the codec upgrade height (keeper.UpgradeCodec -> ConvertState) ------------------
\* Every application is re-saved in the new encoding through SetApplication, which APPENDS an unstaking
\* application to its queue slot once more.  The duplicates are harmless: deleteUnstakingApplication
\* drops every occurrence and the maturity walk skips names whose record is gone.  (Re-saved in store
\* order = address order, which the symbolic names do not show: judged per slot as a bag.)
RECURSIVE DistinctSeq(_)
DistinctSeq(q) == IF q = <<>> THEN <<>>
                  ELSE <<Head(q)>> \o DistinctSeq(SelectSeq(Tail(q), LAMBDA x : x # Head(q)))
ConvertQueue(s) ==
    [i \in 1..Len(s.appUnst) |->
        <<s.appUnst[i][1],
          s.appUnst[i][2] \o SelectSeq(DistinctSeq(s.appUnst[i][2]),
                                       LAMBDA a : a \in DOMAIN s.app /\ s.app[a].status = UNSTAKING
                                                  /\ s.app[a].unstakeAt = s.appUnst[i][1])>>]
AppsBeginBlock(s, c, h) == IF h = CodecAt(c) THEN [s EXCEPT !.appUnst = ConvertQueue(s)] ELSE s

AppsEndBlock(s, c, h, t) == FinishSlots(s, c, SelectSeq(s.appUnst, LAMBDA e : e[1] <= t), h)

-----------------------------------------------------------------------------
(***************************************************************************)
(* State predicates                                                        *)
(***************************************************************************)
AppsFocus(x) == [bal |-> x.bal, supply |-> x.supply, nopk |-> x.nopk,
                 app |-> x.app, appIx |-> x.appIx, appUnst |-> x.appUnst]

\* C20 with the ghost `donated` = sum of successful sends addressed to the pool account
\* (known finding: anyone can send coins to a module account address)
Inv_C20(s, donated) == BalOf(s, APPPOOL) = AppStakeSum(s) + donated

\* the lookup indexes agree with the records (C28 counts the index, C24 walks the queue).  A name may
\* occur more than once in its queue slot (state conversion at the codec upgrade height): every
\* occurrence refers to the same, correctly stated record.
AppIxExpected(s) == {<<a, AppPower(s.app[a].tokens)>> :
                        a \in {x \in DOMAIN s.app : s.app[x].status = STAKED /\ ~s.app[x].jailed}}
QueueNames(q) == UNION {SeqToSet(q[i][2]) : i \in 1..Len(q)}
Inv_AppIndex(s) ==
    /\ s.appIx = AppIxExpected(s)
    /\ LET q == s.appUnst IN
       /\ \A i \in 1..Len(q) :
            /\ q[i][2] # <<>>
            /\ i > 1 => q[i - 1][1] < q[i][1]
            /\ \A x \in SeqToSet(q[i][2]) :
                 x \in DOMAIN s.app /\ s.app[x].status = UNSTAKING /\ s.app[x].unstakeAt = q[i][1]
       /\ \A a \in DOMAIN s.app : s.app[a].status = UNSTAKING => a \in QueueNames(q)
    /\ \A a \in DOMAIN s.app : s.app[a].pubkeyOK

\* relay allowance is the function of the stake (when that function is modelled exactly)
Inv_C28_Relays(s, c) ==
    RelaysExact(c) => \A a \in DOMAIN s.app :
        s.app[a].status # UNSTAKED => s.app[a].maxRelays = CalcRelays(c, s.app[a].tokens)

\* every application that holds stake serves between 1 and MaximumChains well-formed chains - however it
\* got them: fresh stake, edit-stake or transfer (valid while the MaximumChains parameter is not lowered)
Inv_C28_Chains(s, c) ==
    \A a \in DOMAIN s.app : s.app[a].status # UNSTAKED =>
        /\ Len(s.app[a].chains) >= 1 /\ Len(s.app[a].chains) <= MaxAppChains(c)
        /\ \A i \in 1..Len(s.app[a].chains) : ChainIdOK(s.app[a].chains[i])

\* after the EndBlock of a block with time t nothing that was due is still waiting
Inv_C24_NoOverdue(s, t) == \A a \in DOMAIN s.app : s.app[a].status = UNSTAKING => s.app[a].unstakeAt > t

-----------------------------------------------------------------------------
(***************************************************************************)
(* Step predicates in the properties' own words.  pre / post = state       *)
(* before / after one DeliverTx (or EndBlock) of an AUTHENTICATED request; *)
(* ok = the message succeeded.  They do not follow the handler's order of  *)
(* checks, so they are an independent statement of what the exact model    *)
(* above must satisfy (design model) and of what the code did (traces).    *)
(***************************************************************************)
OnlyFee(pre, tx, post) == AppsFocus(post) = AppsFocus(ChargeFee(pre, tx))
NStaked(s) == Cardinality({a \in DOMAIN s.app : s.app[a].status = STAKED /\ ~s.app[a].jailed})
Funds(pre, tx, a) == BalOf(pre, a) - (IF tx.signer = a THEN tx.fee ELSE 0)

\* C28: admission of an application that holds no stake: no record, or a legacy record left Unstaked
\* by a maturation before the codec upgrade.  h = height of the block (MaxApplications is enforced by
\* the code only from the codec upgrade height on).
Step_C28_NewAt(pre, c, tx, h, post, ok) ==
    LET a == tx.app IN
    (tx.kind = "app_stake" /\ tx.signer = a /\ (a \notin DOMAIN pre.app \/ pre.app[a].status = UNSTAKED)) =>
      /\ ok <=> /\ tx.amount >= MinStake(c)
                /\ tx.chains # <<>> /\ Len(tx.chains) <= MaxAppChains(c)
                /\ \A i \in 1..Len(tx.chains) : ChainIdOK(tx.chains[i])
                /\ Funds(pre, tx, a) >= tx.amount
                /\ AfterCodecUpgrade(c, h) => NStaked(pre) < MaxApps(c)
      /\ ok => /\ a \in DOMAIN post.app
               /\ post.app[a].status = STAKED /\ ~post.app[a].jailed /\ post.app[a].pubkeyOK
               /\ post.app[a].tokens = tx.amount /\ post.app[a].chains = tx.chains
               /\ post.app[a].unstakeAt = 0
               /\ RelaysExact(c) => post.app[a].maxRelays = CalcRelays(c, tx.amount)
               /\ BalOf(post, APPPOOL) = BalOf(pre, APPPOOL) + tx.amount
               /\ BalOf(post, a) = BalOf(pre, a) - tx.fee - tx.amount
               /\ \A b \in DOMAIN pre.app \ {a} : b \in DOMAIN post.app /\ post.app[b] = pre.app[b]
      /\ ~ok => OnlyFee(pre, tx, post)
\* (for users that only run past the codec upgrade height)
Step_C28_New(pre, c, tx, post, ok) == Step_C28_NewAt(pre, c, tx, CodecAt(c), post, ok)

\* C28 on the EDIT path: the admission limits that still apply to an already staked application
\* (the minimum cannot be undercut there: the stake never goes down, C23)
Step_C28_Edit(pre, c, tx, post, ok) ==
    LET a == tx.app IN
    (tx.kind = "app_stake" /\ tx.signer = a /\ a \in DOMAIN pre.app /\ pre.app[a].status = STAKED /\ ok) =>
      /\ tx.chains # <<>> /\ Len(tx.chains) <= MaxAppChains(c)
      /\ \A i \in 1..Len(tx.chains) : ChainIdOK(tx.chains[i])
      /\ Funds(pre, tx, a) >= tx.amount - pre.app[a].tokens          \* funds cover the bump
      /\ a \in DOMAIN post.app /\ post.app[a].chains = tx.chains

\* C28: transfer to a new key (request = app_stake naming another key, signed by tx.signer)
Step_C28_Transfer(pre, c, tx, post, ok) ==
    LET old == tx.signer
        new == tx.app
    IN (tx.kind = "app_stake" /\ old # new) =>
      /\ ok <=> /\ old \in DOMAIN pre.app /\ pre.app[old].status = STAKED
                /\ new \notin DOMAIN pre.app
      /\ ok => /\ old \notin DOMAIN post.app
               /\ new \in DOMAIN post.app /\ post.app[new] = pre.app[old]      \* same stake, allowance, chains
               /\ DOMAIN post.app = (DOMAIN pre.app \ {old}) \cup {new}
               /\ \A b \in DOMAIN pre.app \ {old} : post.app[b] = pre.app[b]
               /\ <<new, AppPower(pre.app[old].tokens)>> \in post.appIx
               /\ \A e \in post.appIx : e[1] # old
               /\ post.bal = ChargeFee(pre, tx).bal /\ post.supply = pre.supply      \* pool untouched
      /\ ~ok => OnlyFee(pre, tx, post)

\* C23 (application side): edit-stake of a staked application by itself
Step_C23_App(pre, c, tx, post, ok) ==
    LET a == tx.app IN
    (tx.kind = "app_stake" /\ tx.signer = a /\ a \in DOMAIN pre.app /\ pre.app[a].status = STAKED) =>
      /\ tx.amount < pre.app[a].tokens => ~ok
      /\ ok => /\ a \in DOMAIN post.app
               /\ post.app[a].tokens >= pre.app[a].tokens /\ post.app[a].tokens = tx.amount
               /\ post.app[a].jailed = pre.app[a].jailed /\ post.app[a].status = pre.app[a].status
               /\ post.app[a].pubkeyOK /\ post.app[a].unstakeAt = pre.app[a].unstakeAt
               /\ post.app[a].chains = tx.chains
               /\ post.app[a].maxRelays >= pre.app[a].maxRelays
               /\ post.app[a].tokens = pre.app[a].tokens => post.app[a].maxRelays = pre.app[a].maxRelays
               /\ (RelaysExact(c) /\ post.app[a].tokens > pre.app[a].tokens) => post.app[a].maxRelays = CalcRelays(c, tx.amount)
               \* a bump moves exactly the difference into the pool
               /\ BalOf(post, APPPOOL) - BalOf(pre, APPPOOL) = post.app[a].tokens - pre.app[a].tokens
               /\ BalOf(post, a) = BalOf(pre, a) - tx.fee - (post.app[a].tokens - pre.app[a].tokens)
               /\ DOMAIN post.app = DOMAIN pre.app
               /\ \A b \in DOMAIN pre.app \ {a} : post.app[b] = pre.app[b]
      /\ ~ok => OnlyFee(pre, tx, post)

\* C24 (application side), DeliverTx: a staked application stops being staked only through
\* its OWN begin-unstake request (completion time = block time + unstaking time) - or it
\* moves to a new key by its own transfer (C28); nothing is paid out by a transaction.
Step_C24_Deliver(pre, c, tx, t, post, ok) ==
    /\ \A a \in DOMAIN pre.app : pre.app[a].status = STAKED =>
         \/ a \in DOMAIN post.app /\ post.app[a].status = STAKED
         \/ /\ tx.kind = "app_unstake" /\ tx.app = a /\ tx.signer = a /\ ok
            /\ a \in DOMAIN post.app
            /\ post.app[a] = [pre.app[a] EXCEPT !.status = UNSTAKING, !.unstakeAt = t + AppUnstaking(c)]
         \/ /\ tx.kind = "app_stake" /\ tx.signer = a /\ tx.app # a /\ ok
            /\ a \notin DOMAIN post.app /\ tx.app \in DOMAIN post.app
    /\ \A a \in DOMAIN pre.app : pre.app[a].status = UNSTAKING =>
         a \in DOMAIN post.app /\ post.app[a] = pre.app[a]
    /\ (tx.kind = "app_unstake" /\ tx.signer = tx.app) =>
         /\ ok <=> (tx.app \in DOMAIN pre.app /\ pre.app[tx.app].status = STAKED /\ ~pre.app[tx.app].jailed)
         /\ ok => /\ BalOf(post, APPPOOL) = BalOf(pre, APPPOOL)
                  /\ post.bal = ChargeFee(pre, tx).bal
         /\ ~ok => OnlyFee(pre, tx, post)

\* C24, EndBlock at time t: exactly the due applications are paid their stake, once, at
\* their own address, and their records disappear; everything else stays.
\* (Scenarios of this module never unstake NODES, so no other account moves at EndBlock.)
Due(pre, t) == {a \in DOMAIN pre.app : pre.app[a].status = UNSTAKING /\ pre.app[a].unstakeAt <= t}
Step_C24_EndBlockAt(pre, c, h, t, post) ==
    LET due == Due(pre, t)
        paid == SumOver([a \in due |-> pre.app[a].tokens], due)
    IN /\ IF AfterCodecUpgrade(c, h)
            THEN /\ DOMAIN post.app = DOMAIN pre.app \ due
            ELSE \* amino era: the record stays, emptied (status Unstaked, no tokens, no allowance, no time)
                 /\ DOMAIN post.app = DOMAIN pre.app
                 /\ \A a \in due : post.app[a] = [pre.app[a] EXCEPT !.status = UNSTAKED, !.tokens = 0, !.maxRelays = 0, !.unstakeAt = 0]
       /\ \A a \in DOMAIN pre.app \ due : a \in DOMAIN post.app /\ post.app[a] = pre.app[a]
       /\ \A a \in due : BalOf(post, a) = BalOf(pre, a) + pre.app[a].tokens
       /\ BalOf(post, APPPOOL) = BalOf(pre, APPPOOL) - paid
       /\ \A x \in (DOMAIN pre.bal \cup DOMAIN post.bal) \ (due \cup {APPPOOL}) : BalOf(post, x) = BalOf(pre, x)
       /\ post.supply = pre.supply
       /\ Inv_C24_NoOverdue(post, t)
Step_C24_EndBlock(pre, t, post) == Step_C24_EndBlockAt(pre, [codecAt |-> 1], 1, t, post)
=============================================================================
