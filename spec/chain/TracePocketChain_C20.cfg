INIT TraceInit
NEXT TraceNext
INVARIANTS C20_AppPoolExact
POSTCONDITION TraceAccepted
CHECK_DEADLOCK FALSE
