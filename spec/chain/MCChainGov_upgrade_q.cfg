CONSTANTS MaxMsgs = 3  Variants = {1, 2}  Focus = "upgrade"
INIT Init
NEXT NextCover
VIEW view
INVARIANTS C37_Canonical C37_Active ProbeOK SupplyOK
PROPERTIES C37_Design C36_Design Unauth_Design
CHECK_DEADLOCK FALSE
