---------------------------- MODULE MCChainNodes ----------------------------
(***************************************************************************)
(* Design model of the nodes module.  The initial state is the projection  *)
(* of a REAL warmed-up genesis written by `vh-chain-nodes init-state`:     *)
(* nodes a1 (5 POKT) and a2 (3 POKT) staked at genesis, a3 staked by       *)
(* transaction with output address a4 and delegator a5, two chains,        *)
(* MaxValidators 2, 2 blocks per session, jail after the 2nd missed block. *)
(* One TLC step = one whole block: BeginBlock (time advance, votes with    *)
(* absent validators, duplicate-vote evidence), at most one transaction,   *)
(* EndBlock.  Every step appends a history entry with the inputs and the   *)
(* expected state after each ABCI call, so that behaviours can be replayed *)
(* verbatim on the real application (vh-chain-nodes replay-nodes).         *)
(*                                                                         *)
(* Family restricts the per-block choices (simulation reaches deep         *)
(* behaviours faster inside one family):                                   *)
(*   "all" everything; "jail" downtime / evidence / unjail / edits while   *)
(*   jailed; "unstake" begin-unstake, evidence, time jumps, re-stake;      *)
(*   "edit" stake / edit-stake matrix and parameter changes.               *)
(***************************************************************************)
EXTENDS ChainNodes, IOUtils, Json

CONSTANTS MaxBlocks, Family, SimDepth

Init0 == JsonDeserialize(IOEnv.INIT_FILE)    \* [st |-> ..., cfg |-> ..., h |-> height, t |-> time]

VARIABLES s,        \* application state (focus fields of the projection)
          cf,       \* configuration (changes with governance transactions)
          h, t,     \* height and time of the last block
          donated, jailEnd, editedJ,   \* ghosts (see TraceChainNodes)
          hist

vars == <<s, cf, h, t, donated, jailEnd, editedJ, hist>>
view == <<s, cf, h, t, donated, jailEnd, editedJ>>

FocusFields == {"bal", "supply", "nopk", "val", "ixStaked", "ixChain", "ixUnstaking", "ixWaiting",
                "prevPower", "prevTotal", "signing", "prevProposer", "tmSet", "missed"}
Focus(x) == [f \in FocusFields |-> x[f]]
Slim(x)  == [f \in FocusFields \cup {"badCoins"} |-> x[f]]
NoNodes  == [x \in {} |-> 0]

Init == /\ s = Slim(Init0.st) /\ cf = Init0.cfg /\ h = Init0.h /\ t = Init0.t
        /\ donated = 0 /\ jailEnd = NoNodes /\ editedJ = {} /\ hist = <<>>

Nodes == {"a1", "a2", "a3"}
OWNER == "a7"       \* DAO / ACL owner
STRANGER == "a6"       \* funded key unrelated to any node

\* ---- transactions ----------------------------------------------------------------
Sig(base, signer, id) ==
    base @@ [signer |-> signer, sigOK |-> TRUE, chainOK |-> TRUE, hasSig |-> TRUE, hasPK |-> TRUE,
             multisig |-> FALSE, depthOK |-> TRUE, fee |-> 10000, feeValid |-> TRUE, memoLen |-> 0,
             decodes |-> TRUE, basicOK |-> TRUE, id |-> id, dup |-> "no"]

StakeTx(n, out, amt, chains, url, dels, signer, id) ==
    \* MsgStake.ValidateBasic: positive value, at least one chain
    [Sig([kind |-> "node_stake", node |-> n, output |-> out, amount |-> amt, chains |-> chains, url |-> url,
          delegators |-> dels], signer, id) EXCEPT !.basicOK = amt > 0 /\ chains # <<>>]
UnstakeTx(n, ms, signer, id) == Sig([kind |-> "node_unstake", node |-> n, msgSigner |-> ms], signer, id)
UnjailTx(n, ms, signer, id)  == Sig([kind |-> "node_unjail", node |-> n, msgSigner |-> ms], signer, id)
SendTx(from, to, amt, id)    == Sig([kind |-> "send", from |-> from, to |-> to, amount |-> amt], from, id)
ParamTx(from, key, v, id)    == Sig([kind |-> "change_param", from |-> from, key |-> key, value |-> v], from, id)

D5 == [a5 |-> 10]
URL1 == "https://e1.io:1"
URL2 == "https://e2.io:2"
CurOut(n) == IF s.val[n].output = "" THEN n ELSE s.val[n].output
AltOut(n) == IF s.val[n].output = "a4" THEN "a5" ELSE "a4"
AltChains(n) == IF s.val[n].chains = <<"0001">> THEN <<"0001", "0002">> ELSE <<"0001">>
AltDels(n) == IF s.val[n].delegators = D5 THEN NoDelegators ELSE D5
\* a map of the same size under another key / the same keys with another share
D6 == [a6 |-> 10]
SwapDels(n) == IF s.val[n].delegators = D5 THEN D6 ELSE D5
ShareDels(n) == LET d == s.val[n].delegators IN IF DOMAIN d = {} THEN D5 ELSE [k \in DOMAIN d |-> d[k] + 1]

NewStakes(id) ==
    IF HasVal(s, "a3") THEN {}
    ELSE {StakeTx("a3", "a4", 5000000, <<"0001", "0002">>, URL1, D5, "a3", id),
          StakeTx("a3", "a4", 2000000, <<"0002">>, URL1, NoDelegators, "a4", id),
          StakeTx("a3", "a4", 1999999, <<"0002">>, URL1, NoDelegators, "a3", id),
          StakeTx("a3", "a4", 3000000, <<"0001", "0002", "0003">>, URL1, NoDelegators, "a3", id),
          StakeTx("a3", "a4", 3000000, <<"0001">>, URL1, NoDelegators, STRANGER, id),
          StakeTx("a3", "", 3000000, <<"0001">>, URL1, NoDelegators, "a3", id)}

Edits(n, id) ==
    IF ~HasVal(s, n) THEN {}
    ELSE LET v == s.val[n] o == IF v.output = "" THEN n ELSE v.output IN
      {StakeTx(n, o, v.tokens, v.chains, URL2, v.delegators, n, id),                        \* url only
       StakeTx(n, o, v.tokens + 1000000, AltChains(n), v.url, v.delegators, n, id),          \* bump + chains
       StakeTx(n, o, v.tokens - 1, v.chains, v.url, v.delegators, n, id),                    \* lower
       StakeTx(n, AltOut(n), v.tokens + 1000000, v.chains, v.url, v.delegators, n, id),      \* output by operator
       StakeTx(n, AltOut(n), v.tokens + 1000000, v.chains, v.url, v.delegators, CurOut(n), id), \* output by output
       StakeTx(n, o, v.tokens + 1000000, v.chains, v.url, AltDels(n), n, id),                \* delegators by operator
       StakeTx(n, o, v.tokens + 1000000, v.chains, v.url, AltDels(n), CurOut(n), id),        \* delegators by output
       StakeTx(n, o, v.tokens, v.chains, v.url, SwapDels(n), n, id),                         \* other delegator key by operator
       StakeTx(n, o, v.tokens, v.chains, v.url, SwapDels(n), CurOut(n), id),                 \* other delegator key by output
       StakeTx(n, o, v.tokens, v.chains, v.url, ShareDels(n), CurOut(n), id),                \* other share by output
       StakeTx(n, o, v.tokens + 2000000, v.chains, v.url, v.delegators, CurOut(n), id),      \* bump paid by output
       StakeTx(n, o, v.tokens + 1000000, v.chains, v.url, v.delegators, STRANGER, id)}          \* stranger

Unstakes(id) == UNION {IF ~HasVal(s, n) THEN {} ELSE
                        {UnstakeTx(n, n, n, id), UnstakeTx(n, CurOut(n), CurOut(n), id), UnstakeTx(n, STRANGER, STRANGER, id)} : n \in Nodes}
Unjails(id)  == UNION {IF ~HasVal(s, n) THEN {} ELSE
                        {UnjailTx(n, n, n, id), UnjailTx(n, CurOut(n), n, id), UnjailTx(n, STRANGER, STRANGER, id)} : n \in Nodes}
JailedNodes  == {n \in DOMAIN s.val : s.val[n].jailed}
Params(id)   == {ParamTx(OWNER, "pos/MaxValidators", 1, id), ParamTx(OWNER, "pos/MaxValidators", 3, id),
                 ParamTx(OWNER, "pos/StakeMinimum", 3000000, id), ParamTx(STRANGER, "pos/MaxValidators", 3, id)}
Donations(id) == {SendTx(STRANGER, NODEPOOL, 7, id)}

TxChoices(id) ==
    CASE Family = "all"     -> NewStakes(id) \cup UNION {Edits(n, id) : n \in Nodes} \cup Unstakes(id) \cup Unjails(id)
                               \cup Params(id) \cup Donations(id)
      [] Family = "jail"    -> Unjails(id) \cup UNION {Edits(n, id) : n \in JailedNodes}
                               \cup {x \in NewStakes(id) : x.amount = 5000000}
      [] Family = "unstake" -> Unstakes(id) \cup {x \in NewStakes(id) : x.amount \in {2000000, 5000000}} \cup Donations(id)
                               \* stake messages for a node that has begun unstaking (refused: status)
                               \cup UNION {Edits(n, id) : n \in {m \in DOMAIN s.val : s.val[m].status = UNSTAKING}}
      [] Family = "edit"    -> NewStakes(id) \cup UNION {Edits(n, id) : n \in Nodes} \cup Params(id)
                               \cup {UnstakeTx("a3", "a3", "a3", id)}

\* ---- block inputs ------------------------------------------------------------------
RECURSIVE ByRank(_)
ByRank(S) == IF S = {} THEN <<>>
             ELSE LET n == CHOOSE x \in S : \A y \in S : cf.nx.rank[x] <= cf.nx.rank[y] IN <<n>> \o ByRank(S \ {n})
VotesOf(absent) == LET q == ByRank(DOMAIN s.tmSet) IN [i \in 1..Len(q) |-> <<q[i], s.tmSet[q[i]], q[i] \notin absent>>]

Quiet(dt)   == [dt |-> dt, absent |-> {}, evidence |-> <<>>, txs |-> <<>>]
Evidences(h1, t1) ==
    {<<<<n, h1 - 1, t1, p>>>> : n \in Nodes, p \in {1, 4}}                \* fresh
    \cup {<<<<"a1", h1 - 3, t1, 1>>>>, <<<<"a2", h1 - 1, t1 - 31, 1>>>>}    \* too old in blocks / in time
BlockChoices ==
    LET h1 == h + 1 id == h + 1 IN
    {Quiet(1)}
    \cup (IF Family \in {"all", "unstake", "jail"} THEN {Quiet(3)} ELSE {})
    \cup (IF Family \in {"all", "jail"} THEN {[Quiet(1) EXCEPT !.absent = {v}] : v \in DOMAIN s.tmSet} ELSE {})
    \cup (IF Family \in {"all", "jail", "unstake"}
            THEN {[Quiet(1) EXCEPT !.evidence = e] : e \in {x \in Evidences(h1, t + 1) : x[1][3] >= 1}} ELSE {})
    \cup {[Quiet(1) EXCEPT !.txs = <<x>>] : x \in TxChoices(id)}

\* ---- one block ----------------------------------------------------------------------
RECURSIVE DeliverAll(_, _, _, _, _)
\* [s, cf, posts]: posts = <<[ok, st]>> per transaction
DeliverAll(acc, txs, h1, t1, i) ==
    IF i > Len(txs) THEN acc
    ELSE LET tx == txs[i]
             ok == NodesDeliverOK(acc.s, acc.cf, tx, h1, t1, TRUE)
             s1 == NodesDeliver(acc.s, acc.cf, tx, h1, t1, TRUE)
             c1 == NodesDeliverCfg(acc.s, acc.cf, tx, h1, t1)
         IN DeliverAll([s |-> s1, cf |-> c1, posts |-> Append(acc.posts, [ok |-> ok, st |-> Focus(s1)])], txs, h1, t1, i + 1)

RECURSIVE MaxEnds(_, _, _)
MaxEnds(f, sg, todo) ==
    IF todo = {} THEN f
    ELSE LET n == CHOOSE x \in todo : TRUE IN
         MaxEnds(IF sg[n].jailedUntil > At(f, n, 0) THEN Put(f, n, sg[n].jailedUntil) ELSE f, sg, todo \ {n})

\* everything one block computes, evaluated once per choice
BlockResult(o) ==
    LET h1    == h + 1
        t1    == t + o.dt
        votes == VotesOf(o.absent)
        sb    == NodesBeginBlock(s, cf, h1, t1, "a1", votes, o.evidence)
        d     == DeliverAll([s |-> sb, cf |-> cf, posts |-> <<>>], o.txs, h1, t1, 1)
        r     == NodesEndBlock(d.s, d.cf, h1, t1)
        je1   == MaxEnds(jailEnd, sb.signing, DOMAIN sb.signing)
        tx    == IF o.txs = <<>> THEN [kind |-> "none"] ELSE o.txs[1]
        txOK  == o.txs # <<>> /\ d.posts[1].ok
        isEditJ == tx.kind = "node_stake" /\ HasVal(sb, tx.node) /\ sb.val[tx.node].status = STAKED /\ sb.val[tx.node].jailed
        ed1   == IF txOK /\ isEditJ THEN editedJ \cup {tx.node}
                 ELSE IF txOK /\ tx.kind = "node_unjail" THEN editedJ \ {tx.node} ELSE editedJ
    IN [s |-> r.s, cf |-> d.cf, h |-> h1, t |-> t1,
        donated |-> IF txOK /\ tx.kind = "send" /\ tx.to = NODEPOOL THEN donated + tx.amount ELSE donated,
        jailEnd |-> [x \in DOMAIN je1 \cap DOMAIN r.s.val |-> je1[x]],
        editedJ |-> {n \in ed1 : HasVal(r.s, n) /\ r.s.val[n].jailed},
        entry |-> [h |-> h1, t |-> t1, dt |-> o.dt, proposer |-> "a1", absent |-> o.absent,
                   votes |-> votes, evidence |-> o.evidence, txs |-> o.txs,
                   begun |-> Focus(sb), posts |-> d.posts, ended |-> Focus(r.s), ups |-> r.ups,
                   periodEnd |-> je1, editedPre |-> editedJ]]

Block(o) ==
    /\ Len(hist) < MaxBlocks
    /\ \E b \in {BlockResult(o)} :
         /\ s' = b.s /\ cf' = b.cf /\ h' = b.h /\ t' = b.t
         /\ donated' = b.donated /\ jailEnd' = b.jailEnd /\ editedJ' = b.editedJ
         /\ hist' = Append(hist, b.entry)

Next == \E o \in BlockChoices : Block(o)
NextCover == Next /\ PrintT(ToJson(hist'))
Spec == Init /\ [][Next]_vars

\* simulation: print complete behaviours only
EmitSim == Len(hist) = SimDepth => PrintT(ToJson(hist))
SimBound == Len(hist) <= SimDepth

-----------------------------------------------------------------------------
\* Property-level statements over the design model

C19_Design == Inv_C19_Pool(s, donated)
C21_Design == Inv_C21(s)
C22_Design == hist # <<>> => Inv_C22(s, cf)
C25_JailedOut_Design == hist # <<>> => Inv_C25_JailedOut(s)

Last == hist'[Len(hist')]
StAfterTxs(e) == IF e.txs = <<>> THEN e.begun ELSE e.posts[Len(e.posts)].st
\* the focus records lack badCoins; the predicates below do not read it
C22_Updates_Design == [][Updates_C22(s, s', Last.ups)]_vars
C23_Design == [][Last.txs # <<>> /\ Last.txs[1].kind = "node_stake"
                   => Step_C23(Last.begun, Last.posts[1].st, cf, Last.txs[1], Last.h)]_vars
C24_Design == [][/\ Step_C24_Leave(s, Last.begun, cf, Last.h, FALSE) /\ Step_C24_NoEarly(s, Last.begun)
                 /\ Step_C24_Leave(Last.begun, StAfterTxs(Last), cf, Last.h, FALSE) /\ Step_C24_NoEarly(Last.begun, StAfterTxs(Last))
                 /\ Step_C24_Leave(StAfterTxs(Last), Last.ended, cf', Last.h, TRUE)
                 /\ Step_C24_Time(StAfterTxs(Last), Last.ended, cf', Last.t)
                 /\ Step_C24_Payout(StAfterTxs(Last), Last.ended, Last.t)]_vars
C25_Slash_Design == [][Step_C25_Slash(s, Last.begun, cf)]_vars
\* unjail succeeds iff the property allows it - except for nodes edit-staked while jailed
\* (known finding C25-a, reproduced on the real code by the trace scenarios)
C25_Unjail_Design ==
    [][(Last.txs # <<>> /\ Last.txs[1].kind = "node_unjail" /\ Last.txs[1].node \notin Last.editedPre)
        => LET tx == Last.txs[1] IN
           Last.posts[1].ok = (AuthOK(Last.begun, cf, tx, Last.h)
                               /\ PropUnjailAllowed(ChargeFee(Last.begun, tx), cf, tx, Last.t, At(Last.periodEnd, tx.node, 0)))]_vars
=============================================================================
