CONSTANTS DispModes = {FALSE}  MaxTx = 2  MaxH = 8  Level = 3
INIT Init
NEXT Next
VIEW view
INVARIANTS C31_Unpredictable_Strict
CHECK_DEADLOCK FALSE
