INIT TraceInit
NEXT TraceNext
INVARIANTS C22_UpdatesMatchTopStaked
POSTCONDITION TraceAccepted
CHECK_DEADLOCK FALSE
