INIT TraceInit
NEXT TraceNext
INVARIANTS C23_AppEditStakeImmutability
POSTCONDITION TraceAccepted
CHECK_DEADLOCK FALSE
