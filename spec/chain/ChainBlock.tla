----------------------------- MODULE ChainBlock -----------------------------
(***************************************************************************)
(* Block-level steps every multi-block scenario needs: the distribution of *)
(* collected fees at BeginBlock (x/nodes keeper.blockReward,                *)
(* splitFeesCollected, SplitNodeRewards).                                  *)
(***************************************************************************)
EXTENDS ChainBase

\* DAO share of the collected fees: floor(fees * dao / (dao + proposer)).
\* (The code multiplies by an 18-decimal quotient; for the default allocations 10/1
\*  and fees < 2^31 both computations agree - assumption stated in the evidence.)
DaoCut(c, fees) == (fees * c.nodeParams.DAOAllocation) \div (c.nodeParams.DAOAllocation + c.nodeParams.ProposerAllocation)

\* pay `amount` from account `src` to a node's reward recipients: each delegator gets
\* floor(amount * share / 100) (if positive), the output address (or the node itself
\* when it has none) gets the remainder (if positive).
RECURSIVE PayDelegators(_, _, _, _, _)
PayDelegators(s, src, amount, dels, todo) ==
    IF todo = {} THEN s
    ELSE LET d  == CHOOSE x \in todo : TRUE
             a  == (amount * dels[d]) \div 100
             s1 == IF a > 0 THEN Move(s, src, d, a) ELSE s
         IN PayDelegators(s1, src, amount, dels, todo \ {d})

DelegatedTotal(amount, dels) == SumOver([d \in DOMAIN dels |-> (amount * dels[d]) \div 100], DOMAIN dels)

PayNodeReward(s, src, node, amount, useDelegators) ==
    LET v       == s.val[node]
        dels    == IF useDelegators THEN v.delegators ELSE [x \in {} |-> 0]
        primary == IF v.output = "" THEN node ELSE v.output
        s1      == PayDelegators(s, src, amount, dels, DOMAIN dels)
        remains == amount - DelegatedTotal(amount, dels)
    IN IF amount <= 0 THEN s
       ELSE IF remains > 0 THEN Move(s1, src, primary, remains) ELSE s1

\* BeginBlock, fee part: distribute the fee collector's balance, then record the proposer
BlockReward(s, c, h) ==
    LET fees == BalOf(s, FEE) IN
    IF h <= 1 \/ fees = 0 THEN s
    ELSE LET dao == DaoCut(c, fees)
             s1  == Move(s, FEE, DAO, dao)
         IN IF Active(c, "NCUST", h)
              THEN IF s.prevProposer \in DOMAIN s.val
                     THEN PayNodeReward(s1, FEE, s.prevProposer, fees - dao, Active(c, "RewardDelegators", h))
                     ELSE s1        \* proposer unknown: its cut stays in the collector
              ELSE Move(s1, FEE, s.prevProposer, fees - dao)

BeginBlockFees(s, c, h, proposer) == [BlockReward(s, c, h) EXCEPT !.prevProposer = proposer]
=============================================================================
