-------------------------- MODULE TracePocketChain --------------------------
(***************************************************************************)
(* Trace validation of WHOLE-CHAIN executions of PocketCoreApp (recorded   *)
(* by `vh-chain-all trace-all`: long chains that interleave every          *)
(* transaction kind, governance changes of the other modules' parameters,  *)
(* feature upgrades, jailing, unstaking, transfers, real claims and        *)
(* proofs) against the unified step functions of PocketChain.tla.          *)
(*                                                                         *)
(* Events: reset, BeginBlock (t, proposer, votes, evidence), DeliverTx     *)
(* (tx, res), EndBlock (updates; the chain commits right after it, so its  *)
(* state is the committed state of the height), Restart.  The recorder     *)
(* logs a state field only when it changed (`st` holds the changed fields) *)
(* and the configuration only when it changed (`cfg`); `last` remembers    *)
(* for every field the line that logged it last, so only indices are state *)
(* variables.  Every step is judged from the LOGGED pre-state, twice:      *)
(*  (1) exact functional comparison, field by field, with the unified step *)
(*      functions; a diverging field is attributed to the property whose   *)
(*      footprint contains it ("MODEL" when it belongs to none);           *)
(*  (2) the property-level predicates of the fragments / of PocketChain.   *)
(* Bound from the log: exactly what the fragments bind (the relay          *)
(* allowance when the participation rate is on; the session nodes of a     *)
(* claim when the session is a pseudorandom subset; the leaf indices       *)
(* selected by block hashes; evidence-set ids of Merkle roots).            *)
(* Open known findings (IOEnv.KNOWN_FILE: JSON list of all open ids) are   *)
(* printed as <<"KNOWN-FINDING-SEEN", id, line>> and never stored.         *)
(***************************************************************************)
EXTENDS PocketChain, IOUtils, Json

Trace == ndJsonDeserialize(IOEnv.TRACE_FILE)
Known == LET k == JsonDeserialize(IOEnv.KNOWN_FILE) IN {k[i] : i \in 1..Len(k)}

Fields == {"bal", "supply", "nopk", "badCoins", "val", "ixStaked", "ixChain", "ixUnstaking", "ixWaiting",
           "prevPower", "prevTotal", "signing", "missed", "prevProposer", "tmSet", "app", "appIx", "appUnst",
           "claims", "params", "acl", "daoOwner", "upg", "featMem", "probe", "active"}
SetFields == {"appIx", "claims", "active"}       \* logged as sorted lists, sets in the specification

VARIABLES l,      \* next event
          last,   \* [field / "cfg" -> line that logged it last]
          hist,   \* [height -> lines of the fields historical reads use, as committed by that height]
          gh,     \* ghosts (see GhostNext)
          errs    \* sequence of <<line, tag>>

tvars == <<l, last, hist, gh, errs>>
MaxErrs == 600
KeepHeights == 90

Raw(line, f) == Trace[line].st[f]
Val(line, f) == IF f \in SetFields THEN SeqToSet(Raw(line, f)) ELSE Raw(line, f)
StateOf(ls)  == [f \in Fields |-> Val(ls[f], f)]
LastAfter(e, ln) == [f \in Fields \cup {"cfg"} |->
                       IF f = "cfg" THEN (IF "cfg" \in DOMAIN e THEN ln ELSE last.cfg)
                       ELSE IF f \in DOMAIN e.st THEN ln ELSE last[f]]
\* lists that stand for sets must not repeat an element
NoDupLists(e) == \A f \in SetFields \cap DOMAIN e.st : Cardinality(SeqToSet(e.st[f])) = Len(e.st[f])

NoGhost == [donNS |-> 0, donND |-> 0, donAS |-> 0, donAD |-> 0, jailEnd |-> <<>>, editedJ |-> {}, paid |-> {}, relStable |-> TRUE]

TraceInit == /\ l = 1 /\ last = [f \in Fields \cup {"cfg"} |-> 1] /\ hist = <<>> /\ gh = NoGhost /\ errs = <<>>

\* historical reads
HasHist(k) == k \in DOMAIN hist
StAt(k)  == [val |-> Val(hist[k].val, "val"), app |-> Val(hist[k].app, "app"), ixChain |-> Val(hist[k].ixChain, "ixChain")]
CfgAt(k) == Trace[hist[k].cfg].cfg

IfNot(cond, tag) == IF cond THEN {} ELSE {tag}
Diff(want, got) == {f \in Fields : want[f] # got[f]}

DonN == gh.donNS + gh.donND
DonA == gh.donAS + gh.donAD

NodeIdx == {"ixStaked", "ixChain", "ixUnstaking"}
GovC36  == {"acl", "daoOwner", "params"}
GovC37  == {"upg", "featMem", "probe", "active"}

\* attribution of diverging fields that mean the same whatever the step is
CommonTags(d, want, post) ==
    (IF d \cap NodeIdx # {} /\ "val" \notin d THEN {"C21"} ELSE {})
    \cup (IF BalOf(want, NODEPOOL) # BalOf(post, NODEPOOL) \/ NodeStakeSum(want) # NodeStakeSum(post) THEN {"C19"} ELSE {})
    \cup (IF BalOf(want, APPPOOL) # BalOf(post, APPPOOL) \/ AppStakeSum(want) # AppStakeSum(post) THEN {"C20"} ELSE {})
    \cup (IF "appIx" \in d /\ "app" \notin d THEN {"C28"} ELSE {})
    \cup (IF d \cap GovC36 # {} THEN {"C36"} ELSE {})
    \cup (IF d \cap GovC37 # {} THEN {"C37"} ELSE {})
    \cup (IF d \cap {"nopk", "badCoins", "prevProposer"} # {} THEN {"MODEL"} ELSE {})

\* predicates every logged state must satisfy
StateTags(post, h) ==
    IfNot(Inv_C17(post), "C17") \cup IfNot(Inv_C18(post), "C18") \cup IfNot(Inv_Claims(post, h), "C32")
\* C17: the supply changes only through relay rewards being minted (proof) and through burns
\* (slashing at BeginBlock, replay penalty of a proof, DAO burn)
SupplyTags(e, pre, post) ==
    IF post.supply = pre.supply \/ e.ev = "reset" THEN {}
    ELSE IF e.ev = "BeginBlock" /\ post.supply < pre.supply THEN {}
    ELSE IF e.ev = "DeliverTx" /\ e.tx.kind = "proof" THEN {}
    ELSE IF e.ev = "DeliverTx" /\ e.tx.kind = "dao_burn" /\ post.supply < pre.supply THEN {}
    ELSE {"C17"}

-----------------------------------------------------------------------------
\* BeginBlock
BeginTagsW(pre, c, e, post, newC, r, d, cc) ==
       IfNot(N!Step_C25_Slash(pre, post, cc), "C25")
       \cup IfNot(N!Step_C24_Leave(pre, post, cc, e.h, FALSE) /\ N!Step_C24_NoEarly(pre, post), "C24")
       \cup (IF d \cap {"val", "signing", "missed", "ixWaiting", "supply"} # {} THEN {"C25"} ELSE {})
       \cup (IF d \cap {"tmSet", "prevPower", "prevTotal"} # {} THEN {"C22"} ELSE {})
       \cup (IF "claims" \in d \/ post.claims # {x \in pre.claims : x.expires > e.h} THEN {"C32"} ELSE {})
       \cup (IF d \cap {"app", "appIx", "appUnst"} # {} THEN {"C28"} ELSE {})
       \* the distribution of the collected fees (DAO cut, proposer's output address and delegators)
       \cup (IF "bal" \in d /\ BalOf(r.s, NODEPOOL) = BalOf(post, NODEPOOL) /\ BalOf(r.s, APPPOOL) = BalOf(post, APPPOOL) THEN {"C26"} ELSE {})
       \cup (IF newC # r.c THEN {"C37"} ELSE {})
       \cup CommonTags(d, r.s, post)
BeginTags(pre, c, e, post, newC) ==
    UNION {UNION {BeginTagsW(pre, c, e, post, newC, r, d, cc) : d \in {Diff(r.s, post)}, cc \in {CfgOf(c, pre)}} :
             r \in {BeginBlock(pre, c, e.h, e.t, e.proposer, e.votes, e.evidence)}}

-----------------------------------------------------------------------------
\* DeliverTx
AuthClasses == {"unauthorized", "txbasic", "noaccount", "emptypk", "depth", "nopk-panic"}
IsEdit(pre, tx) == tx.kind = "node_stake" /\ N!HasVal(pre, tx.node) /\ N!Staked(pre.val[tx.node])

\* the property that owns the outcome of an authenticated request
KindTag(pre, cc, tx, h) ==
    CASE tx.kind = "send"         -> "C18"
      [] tx.kind = "node_stake"   -> IF IsEdit(pre, tx) THEN "C23" ELSE "MODEL"
      [] tx.kind = "node_unstake" -> "C24"
      [] tx.kind = "node_unjail"  -> "C25"
      [] tx.kind = "app_stake"    -> IF A!AppsClass(pre, cc, tx, h) = "edit" THEN "C23" ELSE "C28"
      [] tx.kind = "app_unstake"  -> "C24"
      [] tx.kind = "app_unjail"   -> "MODEL"
      [] tx.kind \in {"claim", "proof"} -> "C32"
      [] tx.kind = "upgrade"      -> "C37"
      [] OTHER                    -> "C36"

\* the relay allowance the code computed, where ChainApps binds it from the log
Oracle(post, tx) == IF tx.kind = "app_stake" /\ tx.app \in DOMAIN post.app THEN post.app[tx.app].maxRelays ELSE 0

\* claims / proofs may only refer to sessions whose history is in the trace
HistOK(pre, tx, h) ==
    CASE tx.kind = "claim" -> tx.sessionH >= h \/ (HasHist(tx.sessionH) /\ \A k \in tx.sessionH..(h - 1) : HasHist(k))
      [] tx.kind = "proof" -> K!HasClaim(pre, K!ClaimKey(tx)) => HasHist(K!TheClaim(pre, K!ClaimKey(tx)).sessionH)
      [] OTHER -> TRUE

PeriodEnd(n) == At(gh.jailEnd, n, 0)
UnjailAllowed(pre, cc, e) ==
    AuthOK(pre, cc, e.tx, e.h) /\ N!PropUnjailAllowed(ChargeFee(pre, e.tx), cc, e.tx, e.t, PeriodEnd(e.tx.node))
UnjailMismatch(pre, cc, e) == e.tx.kind = "node_unjail" /\ ((e.res.code = 0) # UnjailAllowed(pre, cc, e))
KnownEditBypass(e) == e.tx.kind = "node_unjail" /\ e.tx.node \in gh.editedJ

KnownOr(id, tag) == IF id \in Known THEN id ELSE tag

\* statements of the claims properties on the real outcome (as in TraceChainClaims)
\* C31: a claim was accepted although the block whose hash selects the leaf to prove already existed.
\* Two listed patterns: F-C31 (the last accepted height is one past the selecting block) and
\* F-C31-param-change, found by the whole-chain traces: ValidateClaim decides the END of the claim
\* window with the CURRENT pos/BlocksPerSession and pocketcore/ClaimSubmissionWindow, the selecting
\* block is computed from the parameters of the SESSION's context - after a governance raise of either
\* parameter, sessions whose selecting block is long known accept claims again.
Known_C31_ParamChange(h, S, Bs, Ws, Bc, Wc) == (Bc # Bs \/ Wc # Ws) /\ h > K!LastClaimHeight(S, Bs, Ws)
ClaimsPropTags(pre, cc, e) ==
    LET tx == e.tx h == e.h ok == e.res.code = 0 S == tx.sessionH IN
    (IF tx.kind = "claim" /\ ok /\ S < h /\ HasHist(S)
       THEN LET cs == CfgAt(S)
                B  == cs.nodeParams.SessionBlockFrequency
                W  == cs.pcParams.ClaimSubmissionWindow
            IN IF K!EntropyHeight(S, B, W) \notin K!Known(h) THEN {}
               ELSE IF K!Known_C31_Boundary(h, S, B, W) THEN {KnownOr("F-C31", "C31")}
               ELSE IF Known_C31_ParamChange(h, S, B, W, cc.nodeParams.SessionBlockFrequency, cc.pcParams.ClaimSubmissionWindow)
                      THEN {KnownOr("F-C31-param-change", "C31")}
               ELSE {"C31"}
       ELSE {})
    \cup (IF tx.kind = "proof" /\ ok /\ K!ClaimKey(tx) \in gh.paid /\ HasHist(S)
            THEN LET cs == CfgAt(S)
                     sh == IF K!HasClaim(pre, K!ClaimKey(tx)) THEN K!ClaimSubmitHeight(K!TheClaim(pre, K!ClaimKey(tx)), cs) ELSE 0
                 IN IF K!Known_C32_Reclaim(sh, S, cs.nodeParams.SessionBlockFrequency, cs.pcParams.ClaimSubmissionWindow)
                      THEN {KnownOr("F-C32-reclaim", "C32")} ELSE {"C32"}
            ELSE {})

MsgAuthorized(pre, tx) ==
    CASE tx.kind = "node_stake" ->
           IF tx.node \in DOMAIN pre.val THEN N!MsgSignerOK(pre.val[tx.node].output, tx.node, tx.signer)
           ELSE N!MsgSignerOK(tx.output, tx.node, tx.signer)
      [] tx.kind \in {"node_unstake", "node_unjail"} ->
           tx.node \in DOMAIN pre.val => N!MsgSignerOK(pre.val[tx.node].output, tx.node, tx.signer)
      [] tx.kind = "send" -> tx.signer = tx.from
      [] tx.kind \in {"claim", "proof"} -> tx.signer = tx.node
      [] OTHER -> TRUE      \* application kinds: ChainApps (transfer rules); governance kinds: C36

DeliverTagsD(pre, c, e, post, newC, r, cc, d) ==
    LET tx  == e.tx
        h   == e.h
        ok  == e.res.code = 0
        own == KindTag(pre, cc, tx, h)
        fee1 == ChargeFee(pre, tx)
        replay == tx.kind = "proof" /\ HistOK(pre, tx, h) /\ K!ProofClass(fee1, cc, tx, h, StAt, CfgAt) = "replay"
        \* a proof whose payment differs only in WHO received HOW MUCH (claims, supply, result agree) is
        \* about the split of the reward (C26), not about whether the claim was rewarded (C32)
        splitOnly == tx.kind = "proof" /\ d = {"bal"} /\ ok = r.ok /\ newC = r.c
    IN     (IF d # {} \/ ok # r.ok \/ newC # r.c THEN {IF splitOnly THEN "C26" ELSE own} ELSE {})
            \cup (IF "supply" \in d THEN {"C17"} ELSE {})
            \cup (IF BalOf(post, FEE) # BalOf(r.s, FEE) THEN {"C15"} ELSE {})
            \* C15 "from the signer": some account is off by exactly the declared fee (the fee was taken from,
            \* or left with, another account than the one that signed)
            \cup (IF tx.fee > 0 /\ "bal" \in d
                     /\ \E a \in (DOMAIN post.bal \cup DOMAIN r.s.bal) \ {FEE} :
                           BalOf(post, a) - BalOf(r.s, a) \in {tx.fee, 0 - tx.fee}
                    THEN {"C15"} ELSE {})
            \cup (IF tx.fee < RequiredFee(cc, tx) THEN {IF tx.multisig THEN KnownOr("F-C15-multisig", "C15") ELSE "C15"} ELSE {})
            \cup (IF tx.dup = "reencoded" /\ tx.priorEffect /\ post # pre THEN {KnownOr("F-C16", "C16")} ELSE {})
            \cup (IF d \cap {"tmSet", "prevPower", "prevTotal"} # {} THEN {"C22"} ELSE {})
            \cup CommonTags(d, r.s, post)
            \* ---- the properties' own statements
            \* C14 at the message level: a transaction that took effect was signed by a key the PRE-state names
            \* as a signer of that message (the ante handler only checks the signers the message declares)
            \cup (IF ok /\ ~MsgAuthorized(pre, tx) THEN {"C14"} ELSE {})
            \cup (IF tx.kind = "node_stake" THEN IfNot(N!Step_C23(pre, post, cc, tx, h), "C23") ELSE {})
            \cup IfNot(N!Step_C24_Leave(pre, post, cc, h, FALSE) /\ N!Step_C24_NoEarly(pre, post), "C24")
            \cup (IF UnjailMismatch(pre, cc, e)
                    THEN {IF KnownEditBypass(e) THEN KnownOr("F-C25-edit-resets-jail", "C25") ELSE "C25"} ELSE {})
            \cup (IF replay THEN IfNot(N!Step_C25_Slash(pre, post, cc), "C25") ELSE {})
            \cup (IF tx.kind \in A!AppsKinds
                    THEN IfNot(A!Step_C28_New(pre, cc, tx, post, ok) /\ A!Step_C28_Transfer(pre, cc, tx, post, ok), "C28")
                         \* (ChainApps.Step_C23_App states that a bump never lowers the relay allowance: true
                         \*  only while the relay parameters are what they were when the record was staked)
                         \cup IfNot(~gh.relStable \/ A!Step_C23_App(pre, cc, tx, post, ok), "C23")
                         \cup IfNot(A!Step_C24_Deliver(pre, cc, tx, e.t, post, ok), "C24")
                    ELSE {})
            \cup (IF tx.kind \in G!GovKinds
                    THEN IfNot(G!Step_C36_Param(pre, tx, post) /\ G!Step_C36_Upgrade(pre, tx, post, ok)
                               \* (ChainGov.Step_C36_Dao contradicts itself when the recipient IS the DAO account:
                               \*  that case is left to the exact comparison)
                               /\ ((tx.kind = "dao_transfer" /\ tx.to = DAO) \/ G!Step_C36_Dao(pre, tx, post, ok)), "C36")
                         \cup IfNot(G!Step_C37_Upgrade(pre, tx, post, ok), "C37")
                    ELSE {})
            \cup (IF tx.kind \in K!ClaimsKinds THEN ClaimsPropTags(pre, cc, e) ELSE {})
            \* C32 in its own words: an accepted claim satisfies the property's acceptance conditions
            \cup (IF tx.kind = "claim" /\ ok
                    THEN IfNot(tx.signer = tx.node /\ K!PropClaimAcceptable(fee1, cc, tx, h, StAt, CfgAt), "C32") ELSE {})

DeliverTagsW(pre, c, e, post, newC, r, cc) ==
    IF r.class # "ok"
      THEN IF post # pre \/ newC # c \/ e.res.code = 0
             THEN {IF r.class \in AuthClasses THEN "C14" ELSE IF r.class = "dup" THEN "C16" ELSE "C15"}
                  \cup (IF e.tx.kind \in G!GovKinds /\ r.class \in AuthClasses THEN {"C36"} ELSE {})
             ELSE {}
      ELSE UNION {DeliverTagsD(pre, c, e, post, newC, r, cc, d) : d \in {Diff(r.s, post)}}

DeliverTags(pre, c, e, post, newC) ==
    IF ~HistOK(pre, e.tx, e.h) THEN {"BIND"}
    ELSE UNION {DeliverTagsW(pre, c, e, post, newC, r, cc) :
                  r \in {DeliverTx(pre, c, e.tx, e.h, e.t, Oracle(post, e.tx), StAt, CfgAt)}, cc \in {CfgOf(c, pre)}}

-----------------------------------------------------------------------------
\* EndBlock
PoolTag(inv, strictInv, sendAmt, daoAmt, idSend, idDao, tag) ==
    IF strictInv THEN {}
    ELSE IF ~inv THEN {tag}
    ELSE (IF sendAmt > 0 THEN {KnownOr(idSend, tag)} ELSE {}) \cup (IF daoAmt > 0 THEN {KnownOr(idDao, tag)} ELSE {})

EndTagsW(pre, c, e, post, newC, r, d, cc) ==
       IfNot(Inv_C21(post), "C21")
       \cup IfNot(Inv_C22(post, c) /\ N!Updates_C22(pre, post, e.updates), "C22")
       \cup IfNot(N!Step_C24_Leave(pre, post, cc, e.h, TRUE) /\ N!Step_C24_Time(pre, post, cc, e.t)
                  /\ Step_C24_End(pre, post, e.t) /\ Inv_C24(post, e.t), "C24")
       \cup IfNot(Inv_C25(post), "C25")
       \cup PoolTag(Inv_C19(post, DonN), Inv_C19(post, 0), gh.donNS, gh.donND, "F-C19-pool-donation", "F-C19-pool-dao-transfer", "C19")
       \cup PoolTag(Inv_C20(post, DonA), Inv_C20(post, 0), gh.donAS, gh.donAD, "F-C20-pool-donation", "F-C20-pool-dao-transfer", "C20")
       \cup IfNot(Inv_AppIndex(post) /\ Inv_C28(post, c, gh.relStable), "C28")
       \cup IfNot(Inv_C36(post), "C36") \cup IfNot(Inv_C37(post, e.h), "C37")
       \cup IncoherentParams(post, newC)
       \cup (IF d \cap {"tmSet", "prevPower", "prevTotal"} # {} \/ r.ups # e.updates THEN {"C22"} ELSE {})
       \cup (IF d \cap {"val", "ixWaiting", "bal", "supply", "app", "appUnst"} # {} THEN {"C24"} ELSE {})
       \cup (IF d \cap {"signing", "missed"} # {} THEN {"C25"} ELSE {})
       \cup (IF "claims" \in d THEN {"C32"} ELSE {})
       \cup (IF newC # c THEN {"C36"} ELSE {})
       \cup CommonTags(d, r.s, post)
EndTags(pre, c, e, post, newC) ==
    UNION {UNION {EndTagsW(pre, c, e, post, newC, r, d, cc) : d \in {Diff(r.s, post)}, cc \in {CfgOf(c, pre)}} :
             r \in {EndBlock(pre, c, e.h, e.t)}}

\* process restart: the activation schedule is derived from state; nothing else changes
RestartTags(pre, c, e, post, newC) ==
    IF post \notin RestartOutcomes(pre, e.h) \/ newC # c THEN {"C37"}
    ELSE IfNot(G!Step_C37_Restart(pre, post), "C37")

ResetTags(e, post) ==
    IfNot(Inv_C21(post), "C21") \cup IfNot(Inv_C19(post, 0), "C19") \cup IfNot(Inv_C20(post, 0), "C20")
    \cup IfNot(Inv_AppIndex(post), "C28") \cup IfNot(Inv_C37(post, e.h), "C37")

-----------------------------------------------------------------------------
\* ghosts
RECURSIVE MaxEnds(_, _, _)
MaxEnds(f, sg, todo) ==
    IF todo = {} THEN f
    ELSE LET n == CHOOSE x \in todo : TRUE IN
         MaxEnds(IF sg[n].jailedUntil > At(f, n, 0) THEN Put(f, n, sg[n].jailedUntil) ELSE f, sg, todo \ {n})
Restrict(f, S) == [x \in DOMAIN f \cap S |-> f[x]]
RelayParams == {"application/BaseRelaysPerPOKT", "application/StabilityAdjustment", "application/ParticipationRateOn"}

GhostNext(pre, e, post) ==
    IF e.ev = "reset" THEN NoGhost
    ELSE IF e.ev = "BeginBlock" THEN [gh EXCEPT !.jailEnd = MaxEnds(@, post.signing, DOMAIN post.signing)]
    ELSE IF e.ev = "EndBlock"
      THEN [gh EXCEPT !.jailEnd = Restrict(@, DOMAIN post.val),
                      !.editedJ = {n \in @ : N!HasVal(post, n) /\ post.val[n].jailed}]
    ELSE IF e.ev = "DeliverTx"
      THEN LET tx == e.tx ok == e.res.code = 0
               toPool(kind, pool) == IF ok /\ tx.kind = kind /\ tx.to = pool THEN tx.amount ELSE 0
           IN [gh EXCEPT !.donNS = @ + toPool("send", NODEPOOL), !.donND = @ + toPool("dao_transfer", NODEPOOL),
                         !.donAS = @ + toPool("send", APPPOOL),  !.donAD = @ + toPool("dao_transfer", APPPOOL),
                         !.editedJ = IF ok /\ IsEdit(pre, tx) /\ pre.val[tx.node].jailed THEN @ \cup {tx.node}
                                     ELSE IF ok /\ tx.kind = "node_unjail" THEN @ \ {tx.node} ELSE @,
                         !.paid = IF ok /\ tx.kind = "proof" THEN @ \cup {K!ClaimKey(tx)} ELSE @,
                         !.relStable = @ /\ ~(ok /\ tx.kind = "change_param" /\ tx.valid /\ tx.key \in RelayParams)]
    ELSE gh

-----------------------------------------------------------------------------
RECURSIVE SetToSeq(_)
SetToSeq(S) == IF S = {} THEN <<>> ELSE LET x == CHOOSE y \in S : TRUE IN <<x>> \o SetToSeq(S \ {x})

HistAfter(e, nl) ==
    IF e.ev \in {"reset", "EndBlock"}
      THEN LET base == IF e.ev = "reset" THEN <<>> ELSE hist
               keep == {k \in DOMAIN base : k > e.h - KeepHeights} \cup {e.h}
           IN [k \in keep |-> IF k = e.h THEN [val |-> nl.val, app |-> nl.app, ixChain |-> nl.ixChain, cfg |-> nl.cfg] ELSE base[k]]
      ELSE hist

\* Everything one event needs is bound ONCE with the idiom  \E x \in {expr} : ...  (TLC would
\* re-evaluate a LET definition at every use).
Judge(e, pre, c, post, newC) ==
    (CASE e.ev = "reset"      -> ResetTags(e, post)
       [] e.ev = "BeginBlock" -> BeginTags(pre, c, e, post, newC)
       [] e.ev = "DeliverTx"  -> DeliverTags(pre, c, e, post, newC)
       [] e.ev = "EndBlock"   -> EndTags(pre, c, e, post, newC)
       [] e.ev = "Restart"    -> RestartTags(pre, c, e, post, newC))
    \cup StateTags(post, e.h) \cup SupplyTags(e, pre, post) \cup IfNot(NoDupLists(e), "MODEL")

TraceNext ==
    /\ l <= Len(Trace)
    /\ l' = l + 1
    /\ \E e \in {Trace[l]} :
       \E nl \in {LastAfter(e, l)} :
       \E pre \in {StateOf(IF e.ev = "reset" THEN nl ELSE last)}, post \in {StateOf(nl)} :
       \E c \in {Trace[IF e.ev = "reset" THEN nl.cfg ELSE last.cfg].cfg}, newC \in {Trace[nl.cfg].cfg} :
       \E tags \in {Judge(e, pre, c, post, newC)} :
       \E kept \in {SetToSeq({tg \in tags : tg \notin Known})} :
          /\ (\A tg \in tags : tg \in Known => PrintT(<<"KNOWN-FINDING-SEEN", tg, l>>))
          /\ last' = nl
          /\ hist' = HistAfter(e, nl)
          /\ gh' = GhostNext(pre, e, post)
          /\ errs' = IF Len(errs) >= MaxErrs THEN errs ELSE errs \o [i \in 1..Len(kept) |-> <<l, kept[i]>>]

TraceSpec == TraceInit /\ [][TraceNext]_tvars

Tagged(tg) == \E i \in 1..Len(errs) : errs[i][2] = tg
C14_OnlyAuthorizedSignersChangeState == ~Tagged("C14")
C15_FeeChargedExactlyOnce            == ~Tagged("C15")
C16_AtMostOnce                       == ~Tagged("C16")
C17_SupplyIsSumOfBalances            == ~Tagged("C17")
C18_TransfersExact                   == ~Tagged("C18")
C19_NodePoolExact                    == ~Tagged("C19")
C20_AppPoolExact                     == ~Tagged("C20")
C21_IndexesAgreeWithRecords          == ~Tagged("C21")
C22_UpdatesMatchTopStaked            == ~Tagged("C22")
C23_EditStakeRules                   == ~Tagged("C23")
C24_UnstakeOnceWhenDue               == ~Tagged("C24")
C25_SlashJailRules                   == ~Tagged("C25")
C26_RewardsAndFeesSplit              == ~Tagged("C26")
C28_AdmissionAndTransfer             == ~Tagged("C28")
C31_ProofLeafUnpredictable           == ~Tagged("C31")
C32_ClaimsRewardedOnceWithProof      == ~Tagged("C32") /\ ~Tagged("BIND")
C36_OnlyOwnersChangeParamsOrDaoFunds == ~Tagged("C36")
C37_UpgradesActivateAndAreNeverLost  == ~Tagged("C37")
NoErrs == errs = <<>>
TraceAccepted == TLCGet("stats").diameter = Len(Trace) + 1
=============================================================================
