CONSTANTS MaxBlocks = 2  SimDepth = 99
INIT Init
NEXT NextCover
VIEW view
INVARIANTS C17_Design C18_Design C19_Design C20_Design C21_Design C22_Design C24_Design C25_Design C28_Design C32_Design C36_Design C37_Design Params_Design All_Design
PROPERTIES C14_C15_Design C22_Updates_Design C17_SupplyMoves_Design
CHECK_DEADLOCK FALSE
