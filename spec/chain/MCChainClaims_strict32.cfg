CONSTANTS DispModes = {FALSE}  MaxTx = 4  MaxH = 8  Level = 3
INIT Init
NEXT Next
VIEW view
INVARIANTS C32_AtMostOnce_Strict
CHECK_DEADLOCK FALSE
