CONSTANTS DispModes = {FALSE}  MaxTx = 2  MaxH = 9  Level = 0
INIT Init
NEXT NextCover
VIEW view
INVARIANTS C17_Design C32_AtMostOnce C31_Unpredictable NoUnbound
PROPERTIES C32_ClaimOnlyIfAcceptable C32_PaidOnlyWithValidProof C32_NoEffectUnlessOK C32_ReplayBurns C32_ExpiryWithoutPayment
CHECK_DEADLOCK FALSE
