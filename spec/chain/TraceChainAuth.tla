--------------------------- MODULE TraceChainAuth ---------------------------
(***************************************************************************)
(* Trace validation of PocketCoreApp executions (recorded by chainsim's    *)
(* Recorder: one event per ABCI call with the projected post-state) against*)
(* ChainAuth: authentication, fee charging, replay protection, send.       *)
(* Every step is judged from the LOGGED pre-state (= previous post-state), *)
(* so an unrelated divergence cannot cascade.  Failures are tagged with    *)
(* the property they contradict.                                           *)
(***************************************************************************)
EXTENDS ChainAuth, IOUtils, Json

Trace == ndJsonDeserialize(IOEnv.TRACE_FILE)

\* The pre-state of event l is the post-state logged by event l-1; the configuration is
\* the one logged by the most recent event that carried one.  Only indices are state
\* variables, so that TLC's states stay tiny.
VARIABLES l,        \* next event
          cfgLine,  \* index of the last event with a "cfg" field
          errs      \* sequence of <<line, tag>> (at most MaxErrs)

tvars == <<l, cfgLine, errs>>
MaxErrs == 400

TraceInit == l = 1 /\ cfgLine = 1 /\ errs = <<>>

AuthClasses == {"unauthorized", "txbasic", "noaccount", "emptypk", "depth"}

\* ids of the OPEN known findings (known_findings.json), written by the check
Known == LET k == JsonDeserialize(IOEnv.KNOWN_FILE) IN {k[i] : i \in 1..Len(k)}

\* tags of the properties a DeliverTx event contradicts
DeliverTags(pre, c, e) ==
    LET tx   == e.tx
        h    == e.h
        post == e.st
        cls  == AnteClass(pre, c, tx, h)
    IN IF cls # "ok"
         THEN IF post # pre \/ e.res.code = 0
                THEN {IF cls \in AuthClasses THEN "C14" ELSE IF cls = "dup" THEN "C16" ELSE "C15"}
                ELSE {}
         ELSE IF tx.kind \in AuthKinds
                THEN LET want == AuthDeliver(pre, c, tx, h) IN
                     (IF post = want THEN {}
                      ELSE IF BalOf(post, FEE) # BalOf(pre, FEE) + tx.fee THEN {"C15"}
                      ELSE {"C18"})
                     \cup (IF (e.res.code = 0) # AuthDeliverOK(pre, c, tx, h) THEN {"C18"} ELSE {})
                     \* C15: the declared fee of an authenticated transaction is at least the required fee
                     \* (the ante handler skips that check for multi-signature keys: listed finding F-C15-multisig)
                     \cup (IF tx.fee < RequiredFee(c, tx)
                            THEN {IF "F-C15-multisig" \in Known /\ tx.multisig THEN "F-C15-multisig" ELSE "C15"} ELSE {})
                     \* C16: the same signed content, re-encoded into different bytes, took effect AGAIN
                     \* (replay protection is keyed on the hash of the raw bytes: listed finding F-C16)
                     \cup (IF tx.dup = "reencoded" /\ tx.priorEffect /\ post # pre
                            THEN {IF "F-C16" \in Known THEN "F-C16" ELSE "C16"} ELSE {})
                ELSE \* other message kinds: only the fee floor is judged here
                     IF BalOf(post, FEE) < BalOf(pre, FEE) + tx.fee THEN {"C15"} ELSE {}

\* tags contradicted by the logged state itself
StateTags(e) ==
    (IF Inv_C17_SupplyIsSumOfBalances(e.st) THEN {} ELSE {"C17"})
    \cup (IF Inv_C18_NonNegative(e.st) THEN {} ELSE {"C18"})

RECURSIVE SetToSeq(_)
SetToSeq(S) == IF S = {} THEN <<>> ELSE LET x == CHOOSE y \in S : TRUE IN <<x>> \o SetToSeq(S \ {x})

TraceNext ==
    /\ l <= Len(Trace)
    /\ l' = l + 1
    /\ LET e    == Trace[l]
           cl   == IF "cfg" \in DOMAIN e THEN l ELSE cfgLine
           tags == (IF e.ev = "DeliverTx" THEN DeliverTags(Trace[l - 1].st, Trace[cfgLine].cfg, e) ELSE {})
                   \cup StateTags(e)
           new  == [i \in 1..Cardinality(tags) |-> <<l, SetToSeq(tags)[i]>>]
       IN /\ (\A t \in tags : t \in Known => PrintT(<<"KNOWN-FINDING-SEEN", t, l>>))
          /\ cfgLine' = cl
          /\ errs' = IF Len(errs) >= MaxErrs THEN errs ELSE errs \o SelectSeq(new, LAMBDA x : x[2] \notin Known)

TraceSpec == TraceInit /\ [][TraceNext]_tvars

Tagged(t) == \E i \in 1..Len(errs) : errs[i][2] = t
C14_OnlyAuthorizedSignersChangeState == ~Tagged("C14")
C15_FeeChargedExactlyOnce            == ~Tagged("C15")
C16_AtMostOnce                       == ~Tagged("C16")
C17_SupplyIsSumOfBalances            == ~Tagged("C17")
C18_TransfersExact                   == ~Tagged("C18")
NoErrs == errs = <<>>
TraceAccepted == TLCGet("stats").diameter = Len(Trace) + 1
=============================================================================
