INIT TraceInit
NEXT TraceNext
INVARIANTS C31_ProofLeafUnpredictable
POSTCONDITION TraceAccepted
CHECK_DEADLOCK FALSE
