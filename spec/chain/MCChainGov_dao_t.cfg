CONSTANTS MaxMsgs = 2  Variants = {1, 2}  Focus = "dao"
INIT Init
NEXT NextCover
VIEW view
INVARIANTS ProbeOK SupplyOK
PROPERTIES C36_Design Unauth_Design
CHECK_DEADLOCK FALSE
