CONSTANTS DispModes = {FALSE}  MaxTx = 5  MaxH = 10  Level = 3
INIT Init
NEXT NextCover
VIEW view
INVARIANTS C17_Design C32_AtMostOnce C31_Unpredictable NoUnbound
PROPERTIES C32_ClaimOnlyIfAcceptable C32_PaidOnlyWithValidProof C32_NoEffectUnlessOK C32_ReplayBurns C32_ExpiryWithoutPayment
CHECK_DEADLOCK FALSE
