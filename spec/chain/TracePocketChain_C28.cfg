INIT TraceInit
NEXT TraceNext
INVARIANTS C28_AdmissionAndTransfer
POSTCONDITION TraceAccepted
CHECK_DEADLOCK FALSE
