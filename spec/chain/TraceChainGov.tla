--------------------------- MODULE TraceChainGov ---------------------------
(***************************************************************************)
(* Trace validation of PocketCoreApp executions recorded by                *)
(* `vh-chain-gov trace-gov` against ChainGov.  One event per ABCI call     *)
(* (and per process restart) with the projected post-state; the bulky      *)
(* part of the state (all raw parameter values and the ACL, field "gp")    *)
(* is logged only when it changed, so "nothing else changed" is checkable  *)
(* while events stay small.  Every step is judged from the LOGGED          *)
(* pre-state, twice: against the exact functional model (GovDeliver,       *)
(* GovBeginBlock, RestartOutcomes) and against the step predicates in the  *)
(* properties' own words.  Failures are tagged by property.                *)
(***************************************************************************)
EXTENDS ChainGov, IOUtils, Json

Trace == ndJsonDeserialize(IOEnv.TRACE_FILE)

VARIABLES l,        \* next event
          cfgLine,  \* last event with a "cfg" field
          gpLine,   \* last event with a "gp" field (parameters + ACL)
          dev,      \* ghost: a restart lost the feature map on the known pattern (since the last reset)
          polluted, \* ghost: the process's activation map changed with no upgrade delivered (until the next restart)
          errs

tvars == <<l, cfgLine, gpLine, dev, polluted, errs>>
MaxErrs == 400
TraceInit == l = 1 /\ cfgLine = 1 /\ gpLine = 1 /\ dev = FALSE /\ polluted = FALSE /\ errs = <<>>

Full(st, gp) == [bal |-> st.bal, supply |-> st.supply, nopk |-> st.nopk, daoOwner |-> st.daoOwner, upg |-> st.upg,
                 featMem |-> st.featMem, probe |-> st.probe, rest |-> st.rest, params |-> gp.params, acl |-> gp.acl]

\* Between two recorded steps the driver produces off-chain NOISE (CheckTx and app/simulate of forged or
\* foreign transactions) which is not an event: whatever it leaves behind shows as a difference between
\* the logged pre-state and what the next step starts from.  A change of the process's activation map
\* with no upgrade delivered is tagged "C37S" (a simulated upgrade message wrote the process-global
\* schedule); the governance fields proper are then judged with that map factored out.
MapMoved(pre, post) == post.featMem # pre.featMem \/ post.probe # pre.probe
SameMap(pre, post)  == [post EXCEPT !.featMem = pre.featMem, !.probe = pre.probe]

DeliverTags(pre, c, e, post0) ==
    LET tx   == e.tx
        h    == e.h
        ok   == e.res.code = 0
        own  == IF tx.kind = "upgrade" THEN "C37" ELSE "C36"
        post == IF tx.kind = "upgrade" THEN post0 ELSE SameMap(pre, post0)
    IN IF tx.kind \notin GovKinds THEN {}
       ELSE (IF tx.kind # "upgrade" /\ MapMoved(pre, post0) THEN {"C37S"} ELSE {})
            \cup
            (IF GovAnteClass(pre, c, tx, h) # "ok"
               THEN IF post # pre \/ ok THEN {"C36"} ELSE {}
               ELSE (IF post = GovDeliver(pre, c, tx, h) /\ ok = GovDeliverOK(pre, c, tx, h) THEN {} ELSE {own})
                    \cup (IF Step_C36_Param(pre, tx, post) /\ Step_C36_Dao(pre, tx, post, ok) /\ Step_C36_Upgrade(pre, tx, post, ok)
                          THEN {} ELSE {"C36"})
                    \cup (IF Step_C37_Upgrade(pre, tx, post, ok) THEN {} ELSE {"C37"}))

\* BeginBlock: the only governance effect is the ACL extension on feature activation heights.  Existing
\* parameters keep their values; the modules that own feature-gated parameters may INTRODUCE them on the
\* activation height (x/pocketcore, x/nodes BeginBlock), which is not a change of a parameter.
BeginTags(pre, e, post) ==
    LET want == GovBeginBlock(pre, e.h) IN
    (IF /\ post.acl = want.acl /\ post.daoOwner = pre.daoOwner /\ post.upg = pre.upg
        /\ DOMAIN pre.params \subseteq DOMAIN post.params
        /\ \A k \in DOMAIN pre.params : post.params[k] = pre.params[k]
     THEN {} ELSE {"C36"})
    \cup (IF MapMoved(pre, post) THEN {"C37S"} ELSE {})

RestartTags(pre, post) ==
    IF GovFocus(post) \notin {GovFocus(o) : o \in RestartOutcomes(pre)} THEN {"C37"}
    ELSE IF GovFocus(post) # GovFocus(RestartFromState(pre)) THEN {"C37K"}      \* known finding reproduced
    ELSE IF Step_C37_Restart(pre, post) THEN {} ELSE {"C37"}

CommitTags(post, d) ==
    (IF Inv_C37_Canonical(post) /\ Inv_ProbeMatchesMap(post) THEN {} ELSE {"C37"})
    \cup (IF d \/ Inv_C37_ActiveFromHeight(post) THEN {} ELSE {"C37"})

RECURSIVE SetToSeq(_)
SetToSeq(S) == IF S = {} THEN <<>> ELSE LET x == CHOOSE y \in S : TRUE IN <<x>> \o SetToSeq(S \ {x})

TraceNext ==
    /\ l <= Len(Trace)
    /\ l' = l + 1
    /\ LET e    == Trace[l]
           cl   == IF "cfg" \in DOMAIN e THEN l ELSE cfgLine
           gl   == IF "gp" \in DOMAIN e THEN l ELSE gpLine
           c    == Trace[cl].cfg
           pre  == Full(Trace[l - 1].st, Trace[gpLine].gp)
           post == Full(e.st, Trace[gl].gp)
           tags == CASE e.ev = "DeliverTx"  -> DeliverTags(pre, c, e, post)
                     [] e.ev = "BeginBlock" -> BeginTags(pre, e, post)
                     [] e.ev = "Restart"    -> RestartTags(pre, post)
                     [] e.ev = "Commit"     -> CommitTags(post, dev \/ polluted)
                     [] OTHER               -> {}
           new  == [i \in 1..Cardinality(tags) |-> <<l, SetToSeq(tags)[i]>>]
       IN /\ cfgLine' = cl
          /\ gpLine' = gl
          /\ dev' = IF e.ev = "reset" THEN FALSE ELSE (dev \/ "C37K" \in tags)
          /\ polluted' = IF e.ev \in {"reset", "Restart"} THEN FALSE ELSE (polluted \/ "C37S" \in tags)
          /\ errs' = IF Len(errs) >= MaxErrs THEN errs ELSE errs \o new

TraceSpec == TraceInit /\ [][TraceNext]_tvars

Tagged(tg) == \E i \in 1..Len(errs) : errs[i][2] = tg
C36_OnlyTheOwnerChangesParamsOrMovesDaoFunds == ~Tagged("C36")
C37_UpgradesActivateAndAreNeverLost          == ~Tagged("C37")
C37_Strict_NoFeatureLossOnRestart            == ~Tagged("C37K")
C37_Strict_SimulationLeavesTheScheduleAlone  == ~Tagged("C37S")
NoErrs == \A i \in 1..Len(errs) : errs[i][2] \in {"C37K", "C37S"}
TraceAccepted == TLCGet("stats").diameter = Len(Trace) + 1
=============================================================================
