CONSTANTS MaxBlocks = 3  Family = "unstake"  SimDepth = 99
INIT Init
NEXT NextCover
VIEW view
INVARIANTS C19_Design C21_Design C22_Design C25_JailedOut_Design 
PROPERTIES C22_Updates_Design C23_Design C24_Design C25_Slash_Design C25_Unjail_Design
CHECK_DEADLOCK FALSE
