INIT TraceInit
NEXT TraceNext
INVARIANTS C24_AppUnstakeOnceWhenDue
POSTCONDITION TraceAccepted
CHECK_DEADLOCK FALSE
