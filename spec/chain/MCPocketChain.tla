--------------------------- MODULE MCPocketChain ---------------------------
(***************************************************************************)
(* Design model of the WHOLE application: steps of every module on one     *)
(* chain.  The initial state is the unified projection of a REAL chain     *)
(* (written by `vh-chain-all init-state`): nodes a1 (5 POKT) and a2 (3     *)
(* POKT, unstaking, due at the next block) with a pending claim each for    *)
(* the session 5..6, applications a4 and a5, accounts a6 a7, the owner a8, *)
(* the funded key a11; 2 blocks per session, claim window 2 sessions,      *)
(* MaxValidators 2, AppTransfer not scheduled, stake-weight bins of 3 POKT.*)
(* One TLC step = one whole block: BeginBlock (time advance, an absent     *)
(* validator, duplicate-vote evidence), at most one transaction drawn from *)
(* the MENU the harness built with its own constructors (sends incl. to    *)
(* the pool / the fee collector, node edit / unstake / unjail, application *)
(* stake / edit / transfer / unstake, claims and proofs, governance        *)
(* changes of MaxValidators / StakeMinimum / fee multipliers /             *)
(* MaxApplications / ClaimExpiration, DAO transfer to the pool and to the  *)
(* fee collector, DAO burn, the upgrade that activates AppTransfer),       *)
(* EndBlock.  Every step appends a history entry with the inputs and the   *)
(* fields each ABCI call changed, so that behaviours replay verbatim on    *)
(* the real application (`vh-chain-all replay-all`).                       *)
(***************************************************************************)
EXTENDS PocketChain, IOUtils, Json

CONSTANTS MaxBlocks, SimDepth

Init0 == JsonDeserialize(IOEnv.INIT_FILE)   \* [st, cfg, h, t, hist, menu]
h0 == Init0.h
Menu == Init0.menu

Fields == {"bal", "supply", "nopk", "badCoins", "val", "ixStaked", "ixChain", "ixUnstaking", "ixWaiting",
           "prevPower", "prevTotal", "signing", "missed", "prevProposer", "tmSet", "app", "appIx", "appUnst",
           "claims", "params", "acl", "daoOwner", "upg", "featMem", "probe", "active"}
SetFields == {"appIx", "claims", "active"}

VARIABLES s, cf, h, t,
          snaps,     \* [height -> [st, cfg]]: what the blocks of the model committed (historical reads)
          gh,        \* ghosts: donN / donA coins that reached the pools' addresses, relStable
          hist

vars == <<s, cf, h, t, snaps, gh, hist>>
view == <<s, cf, h, t, snaps, gh>>

Norm(x) == [f \in Fields |-> IF f \in SetFields THEN SeqToSet(x[f]) ELSE x[f]]
Sub(x)  == [val |-> x.val, app |-> x.app, ixChain |-> x.ixChain]

Init == /\ s = Norm(Init0.st) /\ cf = Init0.cfg /\ h = h0 /\ t = Init0.t
        /\ snaps = <<>> /\ gh = [donN |-> 0, donA |-> 0, relStable |-> TRUE] /\ hist = <<>>

StAt(k)  == IF k <= h0 THEN Init0.hist[ToString(k)] ELSE snaps[k].st
CfgAt(k) == IF k <= h0 THEN Init0.cfg ELSE snaps[k].cfg

\* fields an ABCI call changed
Delta(old, new) == [f \in {g \in Fields : old[g] # new[g]} |-> new[f]]

RECURSIVE ByRank(_)
ByRank(S) == IF S = {} THEN <<>>
             ELSE LET n == CHOOSE x \in S : \A y \in S : cf.nx.rank[x] <= cf.nx.rank[y] IN <<n>> \o ByRank(S \ {n})
VotesOf(absent) == LET q == ByRank(DOMAIN s.tmSet) IN [i \in 1..Len(q) |-> <<q[i], s.tmSet[q[i]], q[i] \notin absent>>]

NoTx == [kind |-> "none", name |-> "none"]
Quiet(dt) == [dt |-> dt, absent |-> {}, evidence |-> <<>>, hasTx |-> FALSE, tx |-> NoTx]
BlockChoices ==
    {Quiet(1), Quiet(3), [Quiet(1) EXCEPT !.absent = {"a1"}],
     [Quiet(1) EXCEPT !.evidence = << <<"a1", h, t + 1, 1>> >>]}
    \cup {[Quiet(1) EXCEPT !.hasTx = TRUE, !.tx = [Menu[i] EXCEPT !.id = h + 1]] : i \in 1..Len(Menu)}

\* everything one block computes, evaluated once per choice
BlockResult3(o, h1, t1, votes, b, d, r) ==
    LET tx  == o.tx
        toPool(kind, pool) == IF o.hasTx /\ d.ok /\ tx.kind = kind /\ tx.to = pool THEN tx.amount ELSE 0
    IN [s |-> r.s, cf |-> d.c, h |-> h1, t |-> t1,
        snap |-> [st |-> Sub(r.s), cfg |-> d.c],
        gh |-> [donN |-> gh.donN + toPool("send", NODEPOOL) + toPool("dao_transfer", NODEPOOL),
                donA |-> gh.donA + toPool("send", APPPOOL) + toPool("dao_transfer", APPPOOL),
                relStable |-> gh.relStable],
        entry |-> [h |-> h1, t |-> t1, dt |-> o.dt, absent |-> o.absent, votes |-> votes, evidence |-> o.evidence,
                   hasTx |-> o.hasTx, tx |-> tx, class |-> d.class, ok |-> d.ok,
                   begun |-> Delta(s, b.s), cfgB |-> b.c, post |-> Delta(b.s, d.s), cfgD |-> d.c,
                   ended |-> Delta(d.s, r.s), ups |-> r.ups]]
BlockResult2(o, h1, t1, votes, b) ==
    The({The({BlockResult3(o, h1, t1, votes, b, d, r) : r \in {EndBlock(d.s, d.c, h1, t1)}}) :
           d \in {IF o.hasTx THEN DeliverTx(b.s, b.c, o.tx, h1, t1, 0, StAt, CfgAt)
                             ELSE [class |-> "none", ok |-> FALSE, s |-> b.s, c |-> b.c]}})
BlockResult(o) ==
    LET h1 == h + 1 t1 == t + o.dt IN
    The({The({BlockResult2(o, h1, t1, votes, b) : b \in {BeginBlock(s, cf, h1, t1, "a1", votes, o.evidence)}}) :
           votes \in {VotesOf(o.absent)}})

Block(o) ==
    /\ Len(hist) < MaxBlocks
    /\ \E b \in {BlockResult(o)} :
         /\ s' = b.s /\ cf' = b.cf /\ h' = b.h /\ t' = b.t /\ gh' = b.gh
         /\ snaps' = [k \in DOMAIN snaps \cup {b.h} |-> IF k = b.h THEN b.snap ELSE snaps[k]]
         /\ hist' = Append(hist, b.entry)

Next == \E o \in BlockChoices : Block(o)
NextCover == Next /\ PrintT(ToJson(hist'))
Spec == Init /\ [][Next]_vars

\* simulation: print complete behaviours only
EmitSim == Len(hist) = SimDepth => PrintT(ToJson(hist))
SimBound == Len(hist) <= SimDepth

-----------------------------------------------------------------------------
\* The properties' state predicates on every state of the model (every state is the state
\* after an EndBlock), individually - so that a violation names the property - and together.
C17_Design == Inv_C17(s)
C18_Design == Inv_C18(s)
C19_Design == Inv_C19(s, gh.donN)
C20_Design == Inv_C20(s, gh.donA)
C21_Design == Inv_C21(s)
C22_Design == Inv_C22(s, cf)
C24_Design == Inv_C24(s, t)
C25_Design == Inv_C25(s)
C28_Design == Inv_AppIndex(s) /\ Inv_C28(s, cf, gh.relStable)
C32_Design == Inv_Claims(s, h)
C36_Design == Inv_C36(s)
C37_Design == Inv_C37(s, h)
Params_Design == Inv_ParamsCoherent(s, cf)
All_Design == Inv_All(s, cf, h, t, gh.donN, gh.donA, gh.relStable)

\* step properties across modules
Last == hist'[Len(hist')]
\* C14 / C15: a transaction that is not authenticated changes nothing; an authenticated one moves
\* exactly its fee into the collector besides what its message does there
C14_C15_Design ==
    [][Last.hasTx =>
         IF Last.class # "ok" THEN Last.post = <<>> /\ Last.cfgD = Last.cfgB
         ELSE Last.tx.fee >= RequiredFee(CfgOf(Last.cfgB, s), Last.tx)]_vars
\* C22: the reported updates are exactly the change of the consensus set
C22_Updates_Design == [][N!Updates_C22(s, s', Last.ups)]_vars
\* C17: the supply changes only by minting for a valid proof or by burning (slash, DAO burn, replay)
C17_SupplyMoves_Design ==
    [][s'.supply # s.supply =>
         \/ Last.hasTx /\ Last.tx.kind \in {"proof", "dao_burn"}
         \/ Last.evidence # <<>> \/ Last.absent # {}]_vars
=============================================================================
