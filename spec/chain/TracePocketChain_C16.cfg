INIT TraceInit
NEXT TraceNext
INVARIANTS C16_AtMostOnce
POSTCONDITION TraceAccepted
CHECK_DEADLOCK FALSE
