INIT TraceInit
NEXT TraceNext
INVARIANTS NoErrs
POSTCONDITION TraceAccepted
CHECK_DEADLOCK FALSE
