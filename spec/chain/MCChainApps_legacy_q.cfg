CONSTANTS MaxSteps = 2  Rich = FALSE  Variants = {5}  Focus = "all"  SimDepth = 0
INIT Init
NEXT NextCover
VIEW view
INVARIANTS C20_Design AppIndex_Design C28_Relays C28_Chains C24_NoOverdue SupplyOK
PROPERTIES C28_Design C23_Design C24_Design Unauth_Design
CHECK_DEADLOCK FALSE
