CONSTANTS MaxSteps = 2  Small = TRUE
INIT Init
NEXT NextCover
VIEW view
INVARIANTS C17_Design C18_Design
PROPERTIES C14_Design C15_Design C16_Design C18_OnlyParties
CHECK_DEADLOCK FALSE
