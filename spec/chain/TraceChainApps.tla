--------------------------- MODULE TraceChainApps ---------------------------
(***************************************************************************)
(* Trace validation of PocketCoreApp executions recorded by                *)
(* `vh-chain-apps trace-apps` (one event per ABCI call with the projected  *)
(* post-state) against ChainApps.  Every step is judged from the LOGGED    *)
(* pre-state (= previous event's post-state), so a divergence cannot       *)
(* cascade.  Two independent judgements per step:                          *)
(*   (a) the exact functional model: post-state = AppsDeliver /            *)
(*       AppsEndBlock of the pre-state (all focus fields + digest of the   *)
(*       rest, i.e. "nothing else changed");                               *)
(*   (b) the step predicates in the properties' own words (Step_C28_New,  *)
(*       Step_C28_Transfer, Step_C23_App, Step_C24_Deliver / _EndBlock)    *)
(*       and the state predicates at Commit.                               *)
(* Failures are tagged with the property they contradict.                  *)
(***************************************************************************)
EXTENDS ChainApps, IOUtils, Json

Trace == ndJsonDeserialize(IOEnv.TRACE_FILE)

VARIABLES l,        \* next event
          cfgLine,  \* index of the last event that carried a "cfg" field
          donated,  \* ghost: coins sent to the pool address by successful sends since the last reset
          errs      \* sequence of <<line, tag>> (at most MaxErrs)

tvars == <<l, cfgLine, donated, errs>>
MaxErrs == 400

TraceInit == l = 1 /\ cfgLine = 1 /\ donated = 0 /\ errs = <<>>

\* the staking-set index is logged as a sorted list of [name, power] pairs; it is a set
Canon(st) == [st EXCEPT !.appIx = SeqToSet(@)]
NoDupIx(st) == Cardinality(SeqToSet(st.appIx)) = Len(st.appIx)

\* the relay allowance the code computed, for configurations where it is bound from the log
Oracle(post, tx) == IF tx.kind = "app_stake" /\ tx.app \in DOMAIN post.app THEN post.app[tx.app].maxRelays ELSE 0

PoolDiffers(a, b) == BalOf(a, APPPOOL) # BalOf(b, APPPOOL)
                     \/ AppStakeSum(a) # AppStakeSum(b)

\* tags of the properties that own a request class.  An edit-stake belongs to C23, except where the
\* request runs into an ADMISSION limit (chain count, funds for the bump), which C28 owns on both paths.
ClassTags(cls, why, tx) ==
    CASE cls \in {"new", "transfer"} -> {"C28"}
      [] cls = "edit" -> (IF why = "toomanychains" THEN {"C28"} ELSE IF why = "coins" THEN {"C23", "C28"} ELSE {"C23"})
      [] cls = "app_unstake"         -> {"C24"}
      [] cls = "rejected" /\ tx.kind = "app_stake"   -> {"C28"}
      [] cls = "rejected" /\ tx.kind = "app_unstake" -> {"C24"}
      [] OTHER                       -> {"AUX"}
DeliverTags(pre, c, e) ==
    LET tx   == e.tx
        h    == e.h
        t    == e.t
        post == Canon(e.st)
        ok   == e.res.code = 0
        cls  == AppsClass(pre, c, tx, h)
        own  == ClassTags(cls, AppsWhy(pre, c, tx, h), tx)
    IN IF AppsAnteClass(pre, c, tx, h) # "ok"
         THEN IF post # pre \/ ok THEN own ELSE {}
         ELSE LET want == AppsDeliver(pre, c, tx, h, t, Oracle(post, tx)) IN
              \* (a) exact model
              (IF post = want /\ ok = AppsDeliverOK(pre, c, tx, h, t) THEN {}
               ELSE own \cup (IF PoolDiffers(post, want) THEN {"C20"} ELSE {}))
              \* (b) the properties' own statements
              \cup (IF tx.kind \in AppsKinds
                    THEN (IF Step_C28_NewAt(pre, c, tx, h, post, ok) /\ Step_C28_Transfer(pre, c, tx, post, ok)
                             /\ Step_C28_Edit(pre, c, tx, post, ok) THEN {} ELSE {"C28"})
                         \cup (IF Step_C23_App(pre, c, tx, post, ok) THEN {} ELSE {"C23"})
                         \cup (IF Step_C24_Deliver(pre, c, tx, t, post, ok) THEN {} ELSE {"C24"})
                    ELSE {})

\* BeginBlock leaves the application records and indexes alone, except for the queue duplicates of the
\* state conversion on the codec upgrade height (slots compared as bags)
SlotBag(names) == [x \in SeqToSet(names) |-> Cardinality({i \in 1..Len(names) : names[i] = x})]
SameQueue(q1, q2) == /\ Len(q1) = Len(q2)
                     /\ \A i \in 1..Len(q1) : q1[i][1] = q2[i][1] /\ SlotBag(q1[i][2]) = SlotBag(q2[i][2])
BeginBlockTags(pre, c, e) ==
    LET post == Canon(e.st)
        want == AppsBeginBlock(pre, c, e.h)
    IN IF post.app = want.app /\ post.appIx = want.appIx /\ SameQueue(post.appUnst, want.appUnst) THEN {} ELSE {"C24"}

EndBlockTags(pre, c, e) ==
    LET post == Canon(e.st)
        want == AppsEndBlock(pre, c, e.h, e.t)
    IN (IF AppsFocus(post) = AppsFocus(want) THEN {}
        ELSE {"C24"} \cup (IF PoolDiffers(post, want) THEN {"C20"} ELSE {}))
       \cup (IF Step_C24_EndBlockAt(pre, c, e.h, e.t, post) THEN {} ELSE {"C24"})

\* state predicates at committed heights
CommitTags(c, e, don) ==
    LET st == Canon(e.st) IN
    (IF Inv_C20(st, don) THEN {} ELSE {"C20"})
    \cup (IF Inv_C20(st, 0) THEN {} ELSE {"C20S"})            \* strict form: the known finding shows here
    \cup (IF Inv_AppIndex(st) /\ NoDupIx(e.st) /\ Inv_C28_Relays(st, c) /\ Inv_C28_Chains(st, c) THEN {} ELSE {"C28"})
    \cup (IF Inv_C24_NoOverdue(st, e.t) THEN {} ELSE {"C24"})

Donation(pre, c, e) ==
    IF e.tx.kind = "send" /\ e.tx.to = APPPOOL /\ e.res.code = 0 THEN e.tx.amount ELSE 0

RECURSIVE SetToSeq(_)
SetToSeq(S) == IF S = {} THEN <<>> ELSE LET x == CHOOSE y \in S : TRUE IN <<x>> \o SetToSeq(S \ {x})

TraceNext ==
    /\ l <= Len(Trace)
    /\ l' = l + 1
    /\ LET e    == Trace[l]
           cl   == IF "cfg" \in DOMAIN e THEN l ELSE cfgLine
           c    == Trace[cl].cfg
           pre  == Canon(Trace[l - 1].st)
           don  == IF e.ev = "reset" THEN 0
                   ELSE IF e.ev = "DeliverTx" THEN donated + Donation(pre, c, e) ELSE donated
           tags == CASE e.ev = "DeliverTx" -> DeliverTags(pre, c, e)
                     [] e.ev = "BeginBlock" -> BeginBlockTags(pre, c, e)
                     [] e.ev = "EndBlock"  -> EndBlockTags(pre, c, e)
                     [] e.ev = "Commit"    -> CommitTags(c, e, don)
                     [] OTHER              -> {}
           new  == [i \in 1..Cardinality(tags) |-> <<l, SetToSeq(tags)[i]>>]
       IN /\ cfgLine' = cl
          /\ donated' = don
          /\ errs' = IF Len(errs) >= MaxErrs THEN errs ELSE errs \o new

TraceSpec == TraceInit /\ [][TraceNext]_tvars

Tagged(tg) == \E i \in 1..Len(errs) : errs[i][2] = tg
C20_AppPoolHoldsExactlyTheStakes    == ~Tagged("C20")
C20_Strict_NoDonations              == ~Tagged("C20S")
C28_AdmissionAndTransfer            == ~Tagged("C28")
C23_AppEditStakeImmutability        == ~Tagged("C23")
C24_AppUnstakeOnceWhenDue           == ~Tagged("C24")
NoErrs == \A i \in 1..Len(errs) : errs[i][2] = "C20S"
TraceAccepted == TLCGet("stats").diameter = Len(Trace) + 1
=============================================================================
