INIT TraceInit
NEXT TraceNext
INVARIANTS C19_NodePoolExact
POSTCONDITION TraceAccepted
CHECK_DEADLOCK FALSE
