INIT TraceInit
NEXT TraceNext
INVARIANTS C23_EditStakeRules
POSTCONDITION TraceAccepted
CHECK_DEADLOCK FALSE
