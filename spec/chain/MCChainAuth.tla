---------------------------- MODULE MCChainAuth ----------------------------
(***************************************************************************)
(* Design model for authentication / fees / replay protection / send.      *)
(* The initial state is the projection of a REAL genesis (written by       *)
(* `vh-chain init-state`), so TLC's behaviours can be replayed verbatim.   *)
(* One transaction per block; `seen` models the transaction indexer        *)
(* (identical bytes delivered before and not rejected by the ante handler).*)
(***************************************************************************)
EXTENDS ChainAuth, ChainBlock, IOUtils, Json

CONSTANTS MaxSteps, Small     \* Small = TRUE: reduced choice sets (quick tier)

Init0 == JsonDeserialize(IOEnv.INIT_FILE)    \* [st |-> ..., cfg |-> ..., h |-> height]

VARIABLES s,      \* application state (focus fields of the projection)
          seen,   \* set of transaction ids that were indexed
          n,      \* number of transactions delivered
          hist

vars == <<s, seen, n, hist>>
view == <<s, seen, n>>
c == Init0.cfg

Payers  == IF Small THEN {"a6", "a7"} ELSE {"a5", "a6", "a7"}
Targets == IF Small THEN {"a6", "a9", FEE} ELSE {"a5", "a6", "a9", FEE, NODEPOOL}   \* a9 does not exist at genesis

\* signing dimension of a transaction: who signs and how
SigVariants == {
    [who |-> "from",  sigOK |-> TRUE,  chainOK |-> TRUE,  hasSig |-> TRUE],
    [who |-> "other", sigOK |-> TRUE,  chainOK |-> TRUE,  hasSig |-> TRUE],
    [who |-> "from",  sigOK |-> FALSE, chainOK |-> TRUE,  hasSig |-> TRUE],
    [who |-> "from",  sigOK |-> TRUE,  chainOK |-> FALSE, hasSig |-> TRUE],
    [who |-> "from",  sigOK |-> FALSE, chainOK |-> TRUE,  hasSig |-> FALSE] }

Other(a) == IF a = "a5" THEN "a6" ELSE "a5"

Amounts(b, fee) == {1, b - fee, b - fee + 1, b + 1} \cap (1..2000000000)
Fees == IF Small THEN {9999, 10000} ELSE {9999, 10000, 10001}

MkTx(from, to, amt, fee, v, id) ==
    [kind |-> "send", from |-> from, to |-> to, amount |-> amt,
     signer |-> IF v.who = "from" THEN from ELSE Other(from),
     sigOK |-> v.sigOK, chainOK |-> v.chainOK, hasSig |-> v.hasSig, hasPK |-> TRUE,
     multisig |-> FALSE, depthOK |-> TRUE, fee |-> fee, feeValid |-> TRUE, memoLen |-> 0,
     decodes |-> TRUE, basicOK |-> TRUE, id |-> id, dup |-> "no"]

Focus(x) == [bal |-> x.bal, supply |-> x.supply]

\* only the fields this model reads or writes (smaller states = faster TLC)
Slim(x) == [bal |-> x.bal, supply |-> x.supply, nopk |-> x.nopk, badCoins |-> x.badCoins,
            val |-> x.val, app |-> x.app, prevProposer |-> x.prevProposer]

Init == s = Slim(Init0.st) /\ seen = {} /\ n = 0 /\ hist = <<>>

\* height of the block that executes the (n+1)-th transaction
HeightOf(k) == Init0.h + k

\* one block: BeginBlock (fee distribution), DeliverTx(tx), EndBlock, Commit
Deliver(tx) ==
    LET h    == HeightOf(n + 1)
        sb   == BeginBlockFees(s, c, h, Init0.proposer)
        post == AuthDeliver(sb, c, tx, h)
        cls  == AnteClass(sb, c, tx, h)
    IN /\ n < MaxSteps
       /\ s' = post
       /\ seen' = IF cls = "ok" THEN seen \cup {tx.id} ELSE seen
       /\ n' = n + 1
       /\ hist' = Append(hist, [tx |-> tx, class |-> cls, ok |-> AuthDeliverOK(sb, c, tx, h),
                                begun |-> Focus(sb), st |-> Focus(post)])

Fresh ==
    \E from \in Payers, to \in Targets, fee \in Fees, v \in SigVariants :
      \E amt \in Amounts(BalOf(s, from), fee) :
        Deliver(MkTx(from, to, amt, fee, v, n + 1))

\* the same bytes again, in a later block
Resubmit ==
    \E i \in 1..Len(hist) :
        Deliver([hist[i].tx EXCEPT !.dup = IF hist[i].tx.id \in seen THEN "indexed" ELSE "no"])

Next == Fresh \/ Resubmit
NextCover == Next /\ PrintT(ToJson(hist'))
Spec == Init /\ [][Next]_vars

-----------------------------------------------------------------------------
\* Property-level statements, independent of the shape of the ante loop

LastTx == hist[Len(hist)].tx
\* C14: what "authorized" means in the property's own words
PropAuthorized(tx) == tx.hasSig /\ tx.sigOK /\ tx.chainOK /\ tx.signer = tx.from
Begun == BeginBlockFees(s, c, HeightOf(n + 1), Init0.proposer)   \* state the transaction executes on
C14_Design == [][~PropAuthorized(hist'[Len(hist')].tx) => s' = Begun]_vars
\* C15: an authenticated transaction moves exactly its fee to the collector (send never
\* credits the collector unless it is the recipient), a rejected one moves nothing
C15_Design ==
    [][LET e == hist'[Len(hist')] IN
       IF e.class = "ok"
         THEN /\ e.tx.fee >= RequiredFee(c, e.tx)
              /\ BalOf(s', FEE) = BalOf(Begun, FEE) + e.tx.fee + (IF e.ok /\ e.tx.to = FEE THEN e.tx.amount ELSE 0)
         ELSE s' = Begun]_vars
\* C16: identical bytes take effect at most once
C16_Design ==
    [][LET e == hist'[Len(hist')] IN e.tx.id \in seen => s' = Begun]_vars
C17_Design == Inv_C17_SupplyIsSumOfBalances(s)
C18_Design == Inv_C18_NonNegative(s)
\* C18: a send changes only sender, recipient and the fee collector
C18_OnlyParties ==
    [][LET e == hist'[Len(hist')] IN
       \A a \in DOMAIN Begun.bal : a \notin {e.tx.from, e.tx.to, e.tx.signer, FEE} => s'.bal[a] = Begun.bal[a]]_vars
=============================================================================
