---------------------------- MODULE PocketChain ----------------------------
(***************************************************************************)
(* The WHOLE application: one specification that composes the module       *)
(* fragments (ChainAuth, ChainBlock, ChainNodes, ChainApps, ChainClaims,   *)
(* ChainGov) without copying their bodies, in the order app/app.go runs    *)
(* them:                                                                   *)
(*   SetOrderBeginBlockers(nodes, apps, pocketcore, gov)                   *)
(*   SetOrderEndBlockers  (nodes, apps, pocketcore, gov)                   *)
(*   DeliverTx: baseapp.runTx -> ante (x/auth) -> the handler of the module *)
(*   that owns the message (router)                                        *)
(* Variable-free: MCPocketChain (design model) and TracePocketChain (trace *)
(* validation) use the same step functions.                                *)
(*                                                                         *)
(* UNIFIED STATE  s  (one record; projection: harness/cmd/vh-chain-all)    *)
(*   auth    bal, supply, nopk, badCoins                      (ChainBase)  *)
(*   nodes   val, ixStaked, ixChain, ixUnstaking, ixWaiting, prevPower,    *)
(*           prevTotal, signing, missed, prevProposer, tmSet  (ChainNodes) *)
(*   apps    app, appIx (SET of <<name, power>>), appUnst     (ChainApps)  *)
(*   claims  claims (SET of claim records with `root`)        (ChainClaims)*)
(*   gov     params (raw values), acl, daoOwner, upg, featMem (activation  *)
(*           map of the RUNNING process), probe               (ChainGov)   *)
(*   whole   active = SET of feature keys for which the real               *)
(*           codec.IsAfterNamedFeatureActivationHeight answers TRUE at the *)
(*           height of the block being executed                            *)
(* CONFIGURATION  c  (typed view of the parameters, chainsim's Cfg):       *)
(*   nodeParams, appParams, pcParams, feeMult, feeMultDefault, maxMemo,    *)
(*   supported, nx (rank, crank, minSigned, maxEvidenceAge[Min]).          *)
(*   The governance-owned parts live in the STATE (s.acl, s.daoOwner,      *)
(*   s.featMem); CfgOf(c, s) is the record the fragments read.             *)
(*   c changes (a) when a change_param transaction of the parameter's      *)
(*   owner carries a well-typed value (tx.typed = the sections of c the    *)
(*   value replaces, decoded from the bytes that are sent) and (b) at      *)
(*   BeginBlock of the activation height of RSCAL (x/nodes                 *)
(*   ActivateAdditionalParameters installs the main-net stake-weight bins).*)
(* HISTORY: claims and proofs read the state committed by the session's    *)
(*   first / last block: step functions take StAt(_) (fields val, app,     *)
(*   ixChain) and CfgAt(_) by height.                                      *)
(*                                                                         *)
(* TRANSACTIONS: the ChainAuth record plus the owning fragment's fields;   *)
(*   change_param carries BOTH vocabularies: ChainGov's (key, val, valid,  *)
(*   newAcl, newOwner, newUpg) and `typed` (see above).  ChainNodes also    *)
(*   models change_param, for two node parameters, guarded by c.acl and     *)
(*   without the value's validity or the stored raw value: ChainGov's is    *)
(*   the complete one (every key, ACL in the state, unparsable values       *)
(*   reported as success, the three governance keys) and is used here.      *)
(*                                                                         *)
(* Cross-module corrections of fragment operators (each fragment is exact   *)
(* on chains that exercise only its own module):                            *)
(*   ProofHandle    the replay-attack branch burns through the nodes        *)
(*                  module's BurnForChallenge (re-indexing, forced unstake   *)
(*                  below the minimum) instead of ChainClaims.ReplayBurn     *)
(*   Step_C24_End   ChainNodes.Step_C24_Payout / ChainApps.Step_C24_EndBlock *)
(*                  each assume that nobody else is paid at EndBlock; here   *)
(*                  nodes AND applications mature in the same EndBlock       *)
(*   AnteClassOf    a signature without a public key is a recovered panic    *)
(*                  once AppTransfer is active (ChainAuth models the account- *)
(*                  key branch as always reachable)                           *)
(*   Inv_C28_Relays holds for records staked under the current relay         *)
(*                  parameters (a governance change does not recompute the   *)
(*                  allowance of existing applications)                      *)
(* Whole-application predicates that no fragment can state:                  *)
(*   Inv_ParamsCoherent  the parameters governance stores (s.params) are the *)
(*                  parameters the modules use (typed c, read through each   *)
(*                  module's keeper); an incoherence is attributed to the    *)
(*                  property whose statement reads that parameter            *)
(*   Inv_C37 / active  every scheduled feature answers "active" exactly from *)
(*                  its height on, asked through the predicate the code uses *)
(***************************************************************************)
EXTENDS ChainAuth, ChainBlock

N == INSTANCE ChainNodes
A == INSTANCE ChainApps
G == INSTANCE ChainGov
K == INSTANCE ChainClaims

NodeKinds  == {"node_stake", "node_unstake", "node_unjail"}
AllKinds   == AuthKinds \cup NodeKinds \cup A!AppsKinds \cup K!ClaimsKinds \cup G!GovKinds

\* TLC re-evaluates a LET definition at every use.  Where an intermediate result is expensive and
\* used more than once it is bound ONCE by enumerating a singleton set:  The({F(x) : x \in {expr}}).
The(S) == CHOOSE x \in S : TRUE

\* the configuration record the fragments read
CfgOf(c, s) == [c EXCEPT !.featMem = s.featMem, !.acl = s.acl, !.daoOwner = s.daoOwner]

\* feature keys whose activation predicate answers TRUE at height h
ActiveSet(s, h) == {k \in DOMAIN s.featMem : s.featMem[k] # 0 /\ h >= s.featMem[k]}
WithActive(s, h) == [s EXCEPT !.active = ActiveSet(s, h)]

-----------------------------------------------------------------------------
\* Configuration updates

MergeFn(old, new) == [k \in DOMAIN old \cup DOMAIN new |-> IF k \in DOMAIN new THEN new[k] ELSE old[k]]
Sect(c, p, f)     == IF f \in DOMAIN p THEN MergeFn(c[f], p[f]) ELSE c[f]
Whole(c, p, f)    == IF f \in DOMAIN p THEN p[f] ELSE c[f]
\* p = tx.typed: parameter sections are merged field-wise, the others replaced
ApplyTyped(c, p) ==
    [c EXCEPT !.nodeParams = Sect(c, p, "nodeParams"), !.appParams = Sect(c, p, "appParams"),
              !.pcParams = Sect(c, p, "pcParams"), !.feeMult = Whole(c, p, "feeMult"),
              !.feeMultDefault = Whole(c, p, "feeMultDefault"), !.maxMemo = Whole(c, p, "maxMemo"),
              !.supported = Whole(c, p, "supported")]

\* x/nodes module.go ActivateAdditionalParameters, x/pocketcore module.go activateAdditionalParameters:
\* on the activation height of a feature the parameters it introduces get their defaults.
\* 15*10^9 does not fit TLC's integers: the typed view carries BigBin (every stake of the
\* small economy is far below either value, so the bin is 0 in both).
BigBin == 2000000000
OnActivation(s, f, h) == At(s.featMem, f, 0) # 0 /\ s.featMem[f] = h
RECURSIVE PutAll(_, _)
PutAll(f, kvs) == IF kvs = <<>> THEN f ELSE PutAll(Put(f, Head(kvs)[1], Head(kvs)[2]), Tail(kvs))
RscalDefaults == << <<"pos/ServicerStakeFloorMultiplier", "\"15000000000\"">>,
                    <<"pos/ServicerStakeWeightMultiplier", "\"1.000000000000000000\"">>,
                    <<"pos/ServicerStakeWeightCeiling", "\"15000000000\"">>,
                    <<"pos/ServicerStakeFloorMultiplierExponent", "\"1.000000000000000000\"">> >>
NodesActivate(s, c, h) ==
    LET r  == OnActivation(s, "RSCAL", h)
        s1 == IF r THEN [s EXCEPT !.params = PutAll(@, RscalDefaults)] ELSE s
        s2 == IF OnActivation(s, "PerChainRTTM", h) THEN [s1 EXCEPT !.params = Put(@, "pos/RelaysToTokensMultiplierMap", "{}")] ELSE s1
    IN [s |-> s2,
        c |-> IF r THEN [c EXCEPT !.nodeParams = MergeFn(@, [ServicerStakeFloorMultiplier |-> BigBin, ServicerStakeWeightCeiling |-> BigBin])] ELSE c]
PocketActivate(s, h) ==
    IF OnActivation(s, "BLOCK", h) THEN [s EXCEPT !.params = Put(@, "pocketcore/BlockByteSize", "\"4000000\"")] ELSE s

-----------------------------------------------------------------------------
\* BeginBlock: nodes (parameter activation; fees, proposer, signatures, evidence), apps
\* (nothing), pocketcore (parameter activation, claim expiry), gov (ACL extension).
\* Result: [s, c].
BeginBlock2(a, h, t, proposer, votes, evidence) ==
    LET s1 == N!NodesBeginBlock(a.s, CfgOf(a.c, a.s), h, t, proposer, votes, evidence)
        s2 == K!ExpireClaims(PocketActivate(s1, h), h)
        s3 == G!GovBeginBlock(s2, h)
    IN [s |-> WithActive(s3, h), c |-> a.c]
BeginBlock(s, c, h, t, proposer, votes, evidence) ==
    The({BeginBlock2(a, h, t, proposer, votes, evidence) : a \in {NodesActivate(s, c, h)}})

-----------------------------------------------------------------------------
\* DeliverTx

\* decode / duplicate cache / ValidateBasic / ante: the fragment that owns the kind knows its
\* stateless validation and its extra signers; cc = CfgOf(c, s)
FragmentAnteClass(s, cc, tx, h) ==
    IF tx.kind \in A!AppsKinds THEN A!AppsAnteClass(s, cc, tx, h)
    ELSE IF tx.kind \in G!GovKinds THEN G!GovAnteClass(s, cc, tx, h)
    ELSE AnteClass(s, cc, tx, h)
\* Correction of ChainAuth.AnteClass (found by the whole-chain traces): once AppTransfer is active,
\* ValidateTransaction computes stdTx.Signature.Address() for EVERY transaction before it looks
\* for the key; a signature that carries no public key makes that a nil dereference, which
\* baseapp.runTx recovers: the transaction is rejected (sdk/1) and nothing changes.  The branch
\* "public key taken from the signer's account" is reachable only before that feature.
AnteClassOf(s, cc, tx, h) ==
    LET base == FragmentAnteClass(s, cc, tx, h) IN
    IF base \in {"decode", "dup", "basic", "txbasic", "memo"} THEN base
    ELSE IF ~tx.hasPK /\ Active(cc, "AppTransfer", h) THEN "nopk-panic"
    ELSE base

\* x/pocketcore handleProofMsg.  The replay-attack branch calls the NODES keeper's
\* BurnForChallenge(total * ReplayAttackBurnMultiplier): removeValidatorTokens re-indexes the
\* node, a stake below the minimum is force-unstaked (ChainClaims.ReplayBurn models neither).
ProofHandle(s1, cc, tx, h, StAt(_), CfgAt(_)) ==
    LET cls == K!ProofClass(s1, cc, tx, h, StAt, CfgAt)
        k   == K!ClaimKey(tx)
    IN IF cls = "ok"
         THEN LET cl == K!TheClaim(s1, k) IN
              [ok |-> TRUE, st |-> K!RemoveClaim(K!RewardForRelays(s1, cc, h, cl.total, cl.node), k)]
       ELSE IF cls = "replay"
         THEN LET cl == K!TheClaim(s1, k) IN
              [ok |-> FALSE, st |-> K!RemoveClaim(N!BurnForChallenge(s1, cc, h, tx.node, cl.total * cc.pcParams.ReplayAttackBurnMultiplier), k)]
       ELSE [ok |-> FALSE, st |-> s1]

\* the handler of the module that owns the message, on the state with the fee charged: [ok, st]
\* orc = the relay allowance bound from the log where ChainApps binds it (participation rate on)
MsgHandle(s1, cc, tx, h, t, orc, StAt(_), CfgAt(_)) ==
    CASE tx.kind = "send"       -> [ok |-> SendOK(s1, tx), st |-> SendResult(s1, tx)]
      [] tx.kind \in NodeKinds  -> [ok |-> N!NodesMsgOK(s1, cc, tx, h, t, TRUE), st |-> N!NodesMsgResult(s1, cc, tx, h, t, TRUE)]
      [] tx.kind \in A!AppsKinds -> A!AppsHandle(s1, cc, tx, h, t, orc)
      [] tx.kind = "claim"      -> [ok |-> K!ClaimClass(s1, cc, tx, h, StAt, CfgAt) = "ok", st |-> K!ClaimResult(s1, cc, tx, h, StAt, CfgAt)]
      [] tx.kind = "proof"      -> ProofHandle(s1, cc, tx, h, StAt, CfgAt)
      [] tx.kind \in G!GovKinds -> G!GovHandle(s1, tx)

\* [class, ok, s, c]
DeliverTx3(s, c, tx, h, cls, r) ==
    [class |-> cls, ok |-> r.ok, s |-> WithActive(r.st, h),
     c |-> IF tx.kind = "change_param" /\ r.ok /\ tx.valid THEN ApplyTyped(c, tx.typed) ELSE c]
DeliverTx2(s, c, tx, h, t, orc, StAt(_), CfgAt(_), cc, cls) ==
    IF cls # "ok" THEN [class |-> cls, ok |-> FALSE, s |-> s, c |-> c]
    ELSE The({DeliverTx3(s, c, tx, h, cls, r) : r \in {MsgHandle(ChargeFee(s, tx), cc, tx, h, t, orc, StAt, CfgAt)}})
DeliverTx(s, c, tx, h, t, orc, StAt(_), CfgAt(_)) ==
    The({The({DeliverTx2(s, c, tx, h, t, orc, StAt, CfgAt, cc, cls) : cls \in {AnteClassOf(s, cc, tx, h)}}) : cc \in {CfgOf(c, s)}})

-----------------------------------------------------------------------------
\* EndBlock: nodes (jailed counter, release of waiting validators, validator updates,
\* maturation), apps (maturation); pocketcore and gov do nothing to consensus state.
\* Result: [s, ups].
EndBlock2(cc, r, h, t) == [s |-> A!AppsEndBlock(r.s, cc, h, t), ups |-> r.ups]
EndBlock(s, c, h, t) ==
    The({The({EndBlock2(cc, r, h, t) : r \in {N!NodesEndBlock(s, cc, h, t)}}) : cc \in {CfgOf(c, s)}})

\* process restart (app/app.go NewPocketCoreApp): the activation map is rebuilt from the stored upgrade
RestartOutcomes(s, h) == {WithActive(o, h) : o \in G!RestartOutcomes(s)}

-----------------------------------------------------------------------------
\* State predicates, per property and together.  Ghosts: donN / donA = coins that reached the
\* node / application pool's address by send or DAO-transfer transactions (known findings);
\* relStable = the relay-allowance parameters did not change since the chain started.

Inv_C17(s) == Inv_C17_SupplyIsSumOfBalances(s)
Inv_C18(s) == Inv_C18_NonNegative(s)
Inv_C19(s, donN) == N!Inv_C19_Pool(s, donN)
Inv_C20(s, donA) == A!Inv_C20(s, donA)
Inv_C21(s) == N!Inv_C21(s)
\* after EndBlock
Inv_C22(s, c) == N!Inv_C22(s, CfgOf(c, s))
Inv_C25(s) == N!Inv_C25_JailedOut(s)
Inv_AppIndex(s) == A!Inv_AppIndex(s)
Inv_C28(s, c, relStable) == relStable => A!Inv_C28_Relays(s, c)
\* after the EndBlock of a block with time t nothing that was due is still there
Inv_C24(s, t) == A!Inv_C24_NoOverdue(s, t) /\ N!DueSet(s, t) = {}
\* claims: one record per key, none expired (after the BeginBlock of height h)
Inv_Claims(s, h) ==
    /\ \A x, y \in s.claims : K!ClaimKey(x) = K!ClaimKey(y) => x = y
    /\ \A x \in s.claims : x.expires > h
Inv_C36(s) == s.daoOwner # "" /\ \A k \in DOMAIN s.acl : s.acl[k] # ""
Inv_C37(s, h) == /\ G!Inv_C37_Canonical(s) /\ G!Inv_ProbeMatchesMap(s) /\ G!Inv_C37_ActiveFromHeight(s)
                 /\ s.active = ActiveSet(s, h)

\* The parameters governance stores are the parameters the modules use: the typed configuration (read
\* through each module's keeper) agrees with the raw stored values, for the plain integer parameters.
\* ParamUsers = <<raw key, section, field, property whose statement reads the parameter>>
ParamUsers == << <<"pos/MaxValidators", "nodeParams", "MaxValidators", "C22">>,
                 <<"pos/StakeMinimum", "nodeParams", "StakeMinimum", "C25">>,
                 <<"pos/BlocksPerSession", "nodeParams", "SessionBlockFrequency", "C24">>,
                 <<"pos/MaxJailedBlocks", "nodeParams", "MaxJailedBlocks", "C24">>,
                 <<"pos/MaximumChains", "nodeParams", "MaximumChains", "C36">>,
                 <<"pos/RelaysToTokensMultiplier", "nodeParams", "RelaysToTokensMultiplier", "C36">>,
                 <<"pos/DAOAllocation", "nodeParams", "DAOAllocation", "C36">>,
                 <<"pos/ProposerPercentage", "nodeParams", "ProposerAllocation", "C36">>,
                 <<"pos/ServicerStakeFloorMultiplier", "nodeParams", "ServicerStakeFloorMultiplier", "C36">>,
                 <<"pos/ServicerStakeWeightCeiling", "nodeParams", "ServicerStakeWeightCeiling", "C36">>,
                 <<"application/MaxApplications", "appParams", "MaxApplications", "C28">>,
                 <<"application/ApplicationStakeMinimum", "appParams", "AppStakeMin", "C28">>,
                 <<"application/MaximumChains", "appParams", "MaxChains", "C28">>,
                 <<"application/BaseRelaysPerPOKT", "appParams", "BaseRelaysPerPOKT", "C28">>,
                 <<"pocketcore/ClaimExpiration", "pcParams", "ClaimExpiration", "C32">>,
                 <<"pocketcore/ClaimSubmissionWindow", "pcParams", "ClaimSubmissionWindow", "C32">>,
                 <<"pocketcore/SessionNodeCount", "pcParams", "SessionNodeCount", "C32">>,
                 <<"pocketcore/MinimumNumberOfProofs", "pcParams", "MinimumNumberOfProofs", "C32">>,
                 <<"pocketcore/ReplayAttackBurnMultiplier", "pcParams", "ReplayAttackBurnMultiplier", "C25">> >>
QuotedInt(n) == "\"" \o ToString(n) \o "\""
ParamCoherent(s, c, u) ==
    (u[1] \in DOMAIN s.params /\ c[u[2]][u[3]] # BigBin) => s.params[u[1]] = QuotedInt(c[u[2]][u[3]])
\* properties whose parameters the modules see differently from what governance stored
IncoherentParams(s, c) == {ParamUsers[i][4] : i \in {j \in 1..Len(ParamUsers) : ~ParamCoherent(s, c, ParamUsers[j])}}
Inv_ParamsCoherent(s, c) == IncoherentParams(s, c) = {}

Inv_All(s, c, h, t, donN, donA, relStable) ==
    /\ Inv_C17(s) /\ Inv_C18(s) /\ Inv_C19(s, donN) /\ Inv_C20(s, donA) /\ Inv_C21(s) /\ Inv_C22(s, c)
    /\ Inv_C25(s) /\ Inv_AppIndex(s) /\ Inv_C28(s, c, relStable) /\ Inv_C24(s, t) /\ Inv_Claims(s, h)
    /\ Inv_C36(s) /\ Inv_C37(s, h) /\ Inv_ParamsCoherent(s, c)

-----------------------------------------------------------------------------
\* C24 at EndBlock for the whole application: exactly the due nodes and the due applications
\* are paid their stake, once (nodes: at the output address), and their records disappear;
\* nothing else moves.
Step_C24_End(pre, post, t) ==
    LET nd   == N!DueSet(pre, t)
        ad   == A!Due(pre, t)
        toN(a) == N!DueTo(pre, t, a)
        toA(a) == IF a \in ad THEN pre.app[a].tokens ELSE 0
        paidA  == SumOver([a \in ad |-> pre.app[a].tokens], ad)
    IN /\ \A n \in DOMAIN pre.val : (n \in nd) <=> n \notin DOMAIN post.val
       /\ DOMAIN post.app = DOMAIN pre.app \ ad
       /\ \A a \in DOMAIN post.app : post.app[a] = pre.app[a]
       /\ \A a \in (DOMAIN post.bal \cup DOMAIN pre.bal) \ {NODEPOOL, APPPOOL} :
            BalOf(post, a) = BalOf(pre, a) + toN(a) + toA(a)
       /\ BalOf(post, NODEPOOL) = BalOf(pre, NODEPOOL) - N!DueTotal(pre, t) + toN(NODEPOOL) + toA(NODEPOOL)
       /\ BalOf(post, APPPOOL) = BalOf(pre, APPPOOL) - paidA + toN(APPPOOL) + toA(APPPOOL)
       /\ post.supply = pre.supply
=============================================================================
