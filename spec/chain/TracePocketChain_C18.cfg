INIT TraceInit
NEXT TraceNext
INVARIANTS C18_TransfersExact
POSTCONDITION TraceAccepted
CHECK_DEADLOCK FALSE
