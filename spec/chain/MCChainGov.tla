---------------------------- MODULE MCChainGov ----------------------------
(***************************************************************************)
(* Design model of the governance module.  Initial states are projections  *)
(* of REAL chains written by `vh-chain-gov init-state`:                    *)
(*   variant 1 (N): the stored upgrade has height 2 and schedules every    *)
(*                  feature at height 2 (chainsim's default genesis);      *)
(*   variant 2 (Z): the stored upgrade has height 0 and no features, the   *)
(*                  process has no feature scheduled.                      *)
(* Three request families (constant Focus):                                *)
(*   "params"   every ACL key x sender (owner / owner of another key /     *)
(*              unrelated) x (well-typed / unparsable value)       [C36]   *)
(*   "dao"      DAO transfer / burn x sender x amount {0,1,bal,bal+1},     *)
(*              change of the DAO owner and of the ACL followed by         *)
(*              requests under the new owners                      [C36]   *)
(*   "upgrade"  sequences of upgrade messages (new version / feature-only  *)
(*              / duplicate / re-schedule / unsorted / foreign sender)     *)
(*              with a process restart possible at every point     [C37]   *)
(* A step is a block with one transaction, or a restart between blocks.    *)
(***************************************************************************)
EXTENDS ChainGov, ChainBlock, IOUtils, Json

CONSTANTS MaxMsgs,     \* transactions per behaviour
          Variants,    \* subset of 1..2
          Focus

Inits == JsonDeserialize(IOEnv.INIT_FILE)

VARIABLES v, s, n,
          lastR,   \* the previous step was a restart (no two restarts in a row)
          dev,     \* ghost: a restart took the coded (feature-losing) branch on the known pattern
          hist

vars == <<v, s, n, lastR, dev, hist>>
view == <<v, s, n, lastR, dev>>

I  == Inits[v]
C  == I.cfg
Nm == I.names                     \* [owner, owner2, owner3, unrelated, fresh]
H0 == I.h
IsZero == I.st.upg.height = 0

Slim(i) == [bal |-> i.st.bal, supply |-> i.st.supply, nopk |-> i.st.nopk, daoOwner |-> i.st.daoOwner, upg |-> i.st.upg,
            featMem |-> i.st.featMem, probe |-> i.st.probe, params |-> i.gp.params, acl |-> i.gp.acl,
            val |-> i.blk.val, prevProposer |-> i.blk.prevProposer]

Init == /\ v \in Variants /\ s = Slim(Inits[v]) /\ n = 0 /\ lastR = FALSE /\ dev = FALSE /\ hist = <<>>

\* what is printed / compared per step
PF(x) == IF Focus = "upgrade"
           THEN [bal |-> x.bal, supply |-> x.supply, daoOwner |-> x.daoOwner, upg |-> x.upg, featMem |-> x.featMem, probe |-> x.probe]
           ELSE GovFocus(x)

\* ---- transactions -------------------------------------------------------------------
Base(kind, from, id) ==
    [kind |-> kind, from |-> from, signer |-> from, sigOK |-> TRUE, chainOK |-> TRUE, hasSig |-> TRUE, hasPK |-> TRUE,
     multisig |-> FALSE, depthOK |-> TRUE, fee |-> BaseFee, feeValid |-> TRUE, memoLen |-> 0, decodes |-> TRUE,
     basicOK |-> TRUE, id |-> id, dup |-> "no"]
NoUpg == [height |-> 0, version |-> "", old |-> 0, features |-> <<>>]
MkParam(from, key, valid, id) ==
    LET cd == I.cands[key] IN
    Base("change_param", from, id) @@
    [key |-> key, valid |-> valid, val |-> IF valid THEN cd.val ELSE I.invalid,
     newAcl |-> IF valid THEN cd.newAcl ELSE <<>>, newOwner |-> IF valid THEN cd.newOwner ELSE "",
     newUpg |-> IF valid THEN cd.newUpg ELSE NoUpg]
MkDao(kind, from, to, amount, id) == Base(kind, from, id) @@ [to |-> to, amount |-> amount]
MkUpgrade(from, height, version, feats, id) ==
    Base("upgrade", from, id) @@ [upHeight |-> height, upVersion |-> version, upFeatures |-> feats]
NoTx == Base("none", "", 0)

\* ---- steps ------------------------------------------------------------------------------
HeightOf(k) == H0 + k
Begin(k) == GovBeginBlock(BeginBlockFees(s, CfgOf(C, s), HeightOf(k), I.proposer), HeightOf(k))

TxStep(tx) ==
    LET h  == HeightOf(n + 1)
        sb == Begin(n + 1)
        dl == GovDeliver(sb, C, tx, h)
    IN /\ n < MaxMsgs
       /\ v' = v /\ n' = n + 1 /\ lastR' = FALSE /\ dev' = dev
       /\ s' = dl
       /\ hist' = Append(hist, [v |-> v, op |-> "tx", tx |-> tx, ante |-> GovAnteClass(sb, C, tx, h),
                                ok |-> GovDeliverOK(sb, C, tx, h), branch |-> "", known |-> "",
                                begun |-> PF(sb), st |-> PF(dl), alt |-> PF(dl)])

RestartStep ==
    /\ ~lastR /\ n <= MaxMsgs /\ Focus = "upgrade"
    /\ \E out \in RestartOutcomes(s) :
         LET coded  == RestartAsCoded(s)
             ideal  == RestartFromState(s)
             isDev  == out # ideal
         IN /\ s' = out
            /\ v' = v /\ n' = n /\ lastR' = TRUE
            /\ dev' = (dev \/ isDev)
            /\ hist' = Append(hist, [v |-> v, op |-> "restart", tx |-> NoTx, ante |-> "none", ok |-> TRUE,
                                     branch |-> IF coded = ideal THEN "" ELSE IF isDev THEN "coded" ELSE "conform",
                                     known |-> IF isDev /\ Known_C37_HeightZero(s) THEN "F-C37-height-zero" ELSE "",
                                     begun |-> PF(s), st |-> PF(out),
                                     alt |-> PF(IF isDev THEN ideal ELSE coded)])

Other(a)  == IF a = Nm.owner THEN Nm.owner2 ELSE Nm.owner
Sender(owner, who) == CASE who = "owner" -> owner [] who = "other" -> Other(owner) [] who = "unrelated" -> Nm.unrelated
Id == n + 1

ParamReqs ==
    \E key \in DOMAIN s.acl \cap DOMAIN I.cands, who \in {"owner", "other", "unrelated"}, valid \in BOOLEAN :
        TxStep(MkParam(Sender(s.acl[key], who), key, valid, Id))

DaoAmounts == {0, 1, BalOf(s, DAO), BalOf(s, DAO) + 1}
DaoReqs ==
    \/ \E who \in {"owner", "other", "unrelated"}, amt \in DaoAmounts :
         \/ \E to \in {Nm.unrelated, Nm.fresh} : TxStep(MkDao("dao_transfer", Sender(s.daoOwner, who), to, amt, Id))
         \/ TxStep(MkDao("dao_burn", Sender(s.daoOwner, who), "", amt, Id))
    \/ \E who \in {"owner", "unrelated"} : TxStep(MkParam(Sender(AclOwner(s, "gov/daoOwner"), who), "gov/daoOwner", TRUE, Id))
    \/ TxStep(MkParam(AclOwner(s, "gov/acl"), "gov/acl", TRUE, Id))
    \/ \E from \in {Nm.owner, Nm.unrelated} : TxStep(MkParam(from, "pos/MaxJailedBlocks", TRUE, Id))

\* upgrade messages.  A version upgrade names a PAST height (2, then 3): chainsim's small codec heights
\* stand for "past the hard-coded codec upgrade height (30024)"; a stored old-upgrade height above the
\* current height would put the stand-in process back BEFORE its codec upgrade, which cannot happen on a
\* chain beyond height 30024.  The code accepts any non-zero height.
VerHeight == 2
UpgradeMsgs ==
    { <<VerHeight, "0.2.0", << <<"F1", H0 + 3>> >> >>,
      <<VerHeight + 1, "0.3.0", <<>> >>,
      <<1, "FEATURE", << <<"F1", H0 + 3>> >> >>,
      <<1, "FEATURE", << <<"F2", H0 + 2>> >> >>,
      <<1, "FEATURE", << <<"F1", H0 + 3>>, <<"F1", H0 + 3>> >> >>,          \* duplicate inside one message
      <<1, "FEATURE", << <<"F1", H0 + 5>> >> >>,                          \* re-schedule
      <<1, "FEATURE", << <<"F2", H0 + 4>>, <<"F1", H0 + 3>> >> >>,          \* two features, not in canonical order
      <<1, "0.2.0", << <<"F2", H0 + 2>> >> >> }                          \* height 1 = feature-only whatever the version
UpgradeReqs ==
    \/ \E m \in UpgradeMsgs : TxStep(MkUpgrade(AclOwner(s, "gov/upgrade"), m[1], m[2], m[3], Id))
    \/ TxStep(MkUpgrade(Nm.unrelated, 1, "FEATURE", << <<"F2", H0 + 2>> >>, Id))
    \/ RestartStep

Next == CASE Focus = "params"  -> ParamReqs
          [] Focus = "dao"     -> DaoReqs
          [] Focus = "upgrade" -> UpgradeReqs

NextCover == Next /\ PrintT(ToJson(hist'))
Spec == Init /\ [][Next]_vars

-----------------------------------------------------------------------------
E == hist'[Len(hist')]
Authd(e) == e.op = "tx" /\ e.ante = "ok"
\* the step predicates need the full records, recomputed here from the pre-state
PreOf  == Begin(n + 1)

C36_Design ==
    [][LET e == E IN Authd(e) =>
         /\ Step_C36_Param(PreOf, e.tx, s')
         /\ Step_C36_Dao(PreOf, e.tx, s', e.ok)
         /\ Step_C36_Upgrade(PreOf, e.tx, s', e.ok)]_vars
Unauth_Design == [][LET e == E IN (e.op = "tx" /\ e.ante # "ok") => GovFocus(s') = GovFocus(PreOf)]_vars

C37_Canonical == Inv_C37_Canonical(s)
C37_Active    == (Focus = "upgrade" /\ ~dev) => Inv_C37_ActiveFromHeight(s)
ProbeOK       == Inv_ProbeMatchesMap(s)
C37_Design ==
    [][LET e == E IN
         /\ Authd(e) => Step_C37_Upgrade(PreOf, e.tx, s', e.ok)
         /\ e.op = "restart" => (Step_C37_Restart(s, s') \/ e.known # "")]_vars
SupplyOK == Inv_C17_SupplyIsSumOfBalances(s)
=============================================================================
