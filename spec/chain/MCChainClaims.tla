--------------------------- MODULE MCChainClaims ---------------------------
(***************************************************************************)
(* Design model for relay claims and proofs.  The initial state is the     *)
(* projection of a REAL chain (written by `vh-chain-claims init-state`),   *)
(* so every behaviour TLC generates can be replayed verbatim on an         *)
(* identically built chain.  The model is always inside a block:           *)
(*   Deliver(tx)  one claim / proof transaction in the current block       *)
(*   NextBlock    EndBlock + Commit of block h, BeginBlock of block h + 1  *)
(* (several transactions per block, so that claim - proof - claim - proof  *)
(* inside ONE block is explored).  A transaction that fails is generated   *)
(* and replayed from every reachable state but not continued (`dead`).     *)
(* `disp` is the off-chain dimension: whether the node has served          *)
(* dispatches (sessions cached) - see the variable's comment.              *)
(***************************************************************************)
EXTENDS ChainClaims, IOUtils, Json

CONSTANTS DispModes,  \* subset of BOOLEAN: does the node serve off-chain dispatches (see `disp`)
          MaxTx,      \* transactions per behaviour
          MaxH,       \* last block height
          Level       \* size of the choice sets: 0 quick, 1 thorough, 2 "deep": only the
                      \* state-changing shapes, for long sequences (overwrite, expiry, re-claim),
                      \* 3 = deep for one node and one session

Init0 == JsonDeserialize(IOEnv.INIT_FILE)   \* [st, cfg, h, proposer]
c  == Init0.cfg
B  == c.nodeParams.SessionBlockFrequency
W  == c.pcParams.ClaimSubmissionWindow
h0 == Init0.h                                \* last committed height of the real chain (a session end)

VARIABLES s,       \* live application state of the executing block (slim)
          h,       \* height of the executing block
          snaps,   \* committed history: <<[from, st]>>, st = the fields historical reads use
          paid,    \* ghost: claim keys for which a reward was paid
          repaid,  \* ghost: 0 none, 1 a key was paid again for a claim re-submitted at the known
                   \* boundary height, 2 a key was paid again in any other way
          disp,    \* the node serves a dispatch for every (application, chain) after every commit, so
                   \* the session of every height is in its node-local session cache when a claim or
                   \* proof arrives.  Off-chain activity: NO operator of ChainClaims reads it - the
                   \* verdicts must be the same either way; the replay runs the real node both ways
          ntx, dead, hist

vars == <<s, h, snaps, paid, repaid, disp, ntx, dead, hist>>
view == <<s, h, snaps, paid, repaid, disp, ntx, dead>>

Slim(x) == [bal |-> x.bal, supply |-> x.supply, nopk |-> x.nopk, badCoins |-> x.badCoins, val |-> x.val, app |-> x.app,
            ixChain |-> x.ixChain, prevProposer |-> x.prevProposer, claims |-> SeqToSet(x.claims)]
\* what historical reads look at
Sub(x) == [val |-> x.val, app |-> x.app, ixChain |-> x.ixChain]
\* what the replay compares after every step
Focus(x) == [bal |-> x.bal, supply |-> x.supply, claims |-> x.claims,
             tokens |-> [n \in DOMAIN x.val |-> x.val[n].tokens]]

StAt(k) == LET i == CHOOSE j \in 1..Len(snaps) : snaps[j].from <= k /\ (j = Len(snaps) \/ snaps[j + 1].from > k) IN snaps[i].st
CfgAt(k) == c

Init ==
    /\ s = ClaimsBeginBlock(Slim(Init0.st), c, h0 + 1, Init0.proposer)
    /\ h = h0 + 1
    /\ snaps = <<[from |-> 0, st |-> Sub(Init0.st)]>>
    /\ disp \in DispModes
    /\ paid = {} /\ repaid = 0 /\ ntx = 0 /\ dead = FALSE /\ hist = <<>>

-----------------------------------------------------------------------------
\* choice sets

S1 == h0 - B + 1                 \* the session that has just ended
Sessions == IF Level = 3 THEN {S1} ELSE IF Level # 1 THEN {S1, S1 + B} ELSE {S1, S1 + B, S1 + 2 * B}

Sig(signer, id) ==
    [signer |-> signer, sigOK |-> TRUE, chainOK |-> TRUE, hasSig |-> TRUE, hasPK |-> TRUE, multisig |-> FALSE,
     depthOK |-> TRUE, fee |-> 10000, feeValid |-> TRUE, memoLen |-> 0, decodes |-> TRUE, basicOK |-> TRUE, dup |-> "no", id |-> id]

\* evidence sets the harness can build: id -> number of leaves; set 3 = every relay twice
EvLeaves(ev) == IF ev \in {2, 3} THEN 6 ELSE 5

MaxOK == MaxPossibleRelays(Init0.st.app["a4"], c.pcParams.SessionNodeCount)

DeepClaimShapes ==
    {[node |-> "a1", app |-> "a4", chain |-> "0001", total |-> 5, root |-> 1, signer |-> "a1"],
     [node |-> "a1", app |-> "a4", chain |-> "0001", total |-> 6, root |-> 2, signer |-> "a1"],
     [node |-> "a2", app |-> "a4", chain |-> "0001", total |-> 6, root |-> 3, signer |-> "a2"]}
DeepProofShapes ==
    {[node |-> "a1", leafIdx |-> 0, tIndex |-> 0, levels |-> 3, leafKind |-> "member",  signer |-> "a1"],
     [node |-> "a2", leafIdx |-> 0, tIndex |-> 0, levels |-> 3, leafKind |-> "member",  signer |-> "a2"]}

AllClaimShapes ==
    {[node |-> "a1", app |-> "a4", chain |-> "0001", total |-> 5, root |-> 1, signer |-> "a1"],        \* valid
     [node |-> "a1", app |-> "a4", chain |-> "0001", total |-> 6, root |-> 2, signer |-> "a1"],        \* other evidence (overwrite)
     [node |-> "a1", app |-> "a4", chain |-> "0001", total |-> 6, root |-> 3, signer |-> "a1"],        \* replayed relays
     [node |-> "a1", app |-> "a4", chain |-> "0001", total |-> MaxOK + 1, root |-> 1, signer |-> "a1"],\* above the application's relays
     [node |-> "a3", app |-> "a4", chain |-> "0001", total |-> 5, root |-> 1, signer |-> "a3"],        \* node not in the session
     [node |-> "a1", app |-> "a6", chain |-> "0001", total |-> 5, root |-> 1, signer |-> "a1"],        \* not an application
     [node |-> "a1", app |-> "a4", chain |-> "0003", total |-> 5, root |-> 1, signer |-> "a1"],        \* unsupported chain
     [node |-> "a1", app |-> "a4", chain |-> "0001", total |-> 5, root |-> 1, signer |-> "a2"]}        \* wrong signer
    \cup (IF Level # 1 THEN {} ELSE
    {[node |-> "a2", app |-> "a4", chain |-> "0001", total |-> 5, root |-> 1, signer |-> "a2"],        \* the other session node
     [node |-> "a1", app |-> "a5", chain |-> "0001", total |-> 5, root |-> 1, signer |-> "a1"],        \* application of another chain
     [node |-> "a1", app |-> "a4", chain |-> "0001", total |-> MaxOK, root |-> 1, signer |-> "a1"]})   \* exactly the maximum
ClaimShapes == IF Level = 2 THEN DeepClaimShapes
               ELSE IF Level = 3 THEN {sh \in DeepClaimShapes : sh.node = "a1"} ELSE AllClaimShapes

MkClaim(sh, S, id) ==
    [kind |-> "claim", node |-> sh.node, app |-> sh.app, chain |-> sh.chain, sessionH |-> S, total |-> sh.total,
     evidence |-> 1, root |-> sh.root] @@ Sig(sh.signer, id)

\* proof shapes: construction of the branch relative to the REQUIRED leaf (offset 0 = the
\* leaf the entropy block selects; the harness adds the real index)
AllProofShapes ==
    {[node |-> "a1", leafIdx |-> 0, tIndex |-> 0, levels |-> 3, leafKind |-> "member",  signer |-> "a1"],   \* valid
     [node |-> "a1", leafIdx |-> 1, tIndex |-> 1, levels |-> 3, leafKind |-> "member",  signer |-> "a1"],   \* wrong index
     [node |-> "a1", leafIdx |-> 1, tIndex |-> 0, levels |-> 3, leafKind |-> "member",  signer |-> "a1"],   \* branch of another leaf
     [node |-> "a1", leafIdx |-> 0, tIndex |-> 0, levels |-> 3, leafKind |-> "foreign", signer |-> "a1"],   \* wrong leaf
     [node |-> "a1", leafIdx |-> 0, tIndex |-> 0, levels |-> 3, leafKind |-> "member",  signer |-> "a2"]}   \* wrong signer
    \cup (IF Level # 1 THEN {} ELSE
    {[node |-> "a1", leafIdx |-> 0, tIndex |-> 0, levels |-> 4, leafKind |-> "member",  signer |-> "a1"],   \* one level too many
     [node |-> "a2", leafIdx |-> 0, tIndex |-> 0, levels |-> 3, leafKind |-> "member",  signer |-> "a2"]})  \* node without a claim

ProofShapes == IF Level = 2 THEN DeepProofShapes
               ELSE IF Level = 3 THEN {sh \in DeepProofShapes : sh.node = "a1"} ELSE AllProofShapes
ProofEvs == IF Level = 3 THEN {1} ELSE IF Level # 1 THEN {1, 3} ELSE {1, 2, 3}

\* bOK: the target leaf has a proper range (MsgProof.ValidateBasic).  In evidence set 3 the
\* copies (odd leaves) have zero-width ranges, so bOK depends on the parity of the required
\* index, which only the real block hash decides: both cases are generated and the harness
\* replays the one that applies.
MkProof(sh, S, ev, bOK, id) ==
    [[kind |-> "proof", node |-> sh.node, app |-> "a4", chain |-> "0001", sessionH |-> S, evidence |-> 1,
     ev |-> ev, leafIdx |-> sh.leafIdx, tIndex |-> sh.tIndex, levels |-> sh.levels, leafKind |-> sh.leafKind, dupEv |-> (ev = 3),
     idxAt |-> [x \in {ToString(EntropyHeight(S, B, W))} |-> 0]] @@ Sig(sh.signer, id) EXCEPT !.basicOK = bOK]

-----------------------------------------------------------------------------
\* actions

Deliver(tx) ==
    LET cls  == AnteClass(s, c, tx, h)
        mcls == IF cls = "ok" THEN MsgClass(ChargeFee(s, tx), c, tx, h, StAt, CfgAt) ELSE "-"
        ok   == cls = "ok" /\ mcls = "ok"
        post == ClaimsDeliver(s, c, tx, h, StAt, CfgAt)
        k    == ClaimKey(tx)
        pay  == tx.kind = "proof" /\ ok
    IN /\ ntx < MaxTx /\ ~dead
       /\ s' = post
       /\ paid' = IF pay THEN paid \cup {k} ELSE paid
       /\ repaid' = IF pay /\ k \in paid
                      THEN (IF Known_C32_Reclaim(ClaimSubmitHeight(TheClaim(s, k), c), tx.sessionH, B, W) /\ repaid < 2 THEN 1 ELSE 2)
                      ELSE repaid
       /\ ntx' = ntx + 1
       /\ dead' = ~(ok \/ mcls = "replay")
       /\ hist' = Append(hist, [ev |-> "tx", h |-> h, disp |-> disp, tx |-> tx, class |-> cls, mclass |-> mcls, ok |-> ok,
                                repay |-> (pay /\ k \in paid), st |-> Focus(post)])
       /\ UNCHANGED <<h, snaps, disp>>

Fresh ==
    \/ \E sh \in ClaimShapes, S \in Sessions : Deliver(MkClaim(sh, S, ntx + 1))
    \/ \E sh \in ProofShapes, S \in Sessions, ev \in ProofEvs :
         \E bOK \in (IF ev = 3 /\ sh.leafKind = "member" /\ sh.leafIdx = 0 /\ sh.signer = sh.node THEN BOOLEAN ELSE {TRUE}) :
            Deliver(MkProof(sh, S, ev, bOK, ntx + 1))

NextBlock ==
    LET sb == ClaimsBeginBlock(s, c, h + 1, Init0.proposer) IN
    /\ h < MaxH /\ ~dead
    /\ s' = sb
    /\ h' = h + 1
    /\ snaps' = IF Sub(s) # snaps[Len(snaps)].st THEN Append(snaps, [from |-> h, st |-> Sub(s)]) ELSE snaps
    /\ hist' = Append(hist, [ev |-> "block", h |-> h + 1, disp |-> disp, st |-> Focus(sb)])
    /\ UNCHANGED <<paid, repaid, disp, ntx, dead>>

Next == Fresh \/ NextBlock
NextCover == Next /\ PrintT(ToJson(hist'))
Spec == Init /\ [][Next]_vars

-----------------------------------------------------------------------------
\* Property-level statements (independent of the order of checks in the handlers)

LastE == hist'[Len(hist')]
IsTx(e) == e.ev = "tx"
PropSigned(tx) == tx.hasSig /\ tx.sigOK /\ tx.chainOK /\ tx.signer = tx.node

\* C32: a claim is recorded only if the property's acceptance conditions hold
C32_ClaimOnlyIfAcceptable ==
    [][IsTx(LastE) /\ LastE.tx.kind = "claim" /\ s'.claims # s.claims
         => PropSigned(LastE.tx) /\ PropClaimAcceptable(s, c, LastE.tx, h, StAt, CfgAt)]_vars

\* C32: coins are minted by a transaction only for a proof that matches a stored claim, at
\* the required index, with a valid branch of the committed tree and the leaf of that
\* branch, signed by the servicer; the claim is removed by the same step
PropProofValid(st, tx) ==
    LET k == ClaimKey(tx) IN
    /\ tx.kind = "proof" /\ PropSigned(tx)
    /\ HasClaim(st, k)
    /\ h >= ProofHeight(tx.sessionH, B, W)
    /\ tx.tIndex = RequiredIndex(tx, EntropyHeight(tx.sessionH, B, W))
    /\ tx.leafIdx = tx.tIndex /\ tx.leafKind = "member" /\ ~tx.dupEv /\ tx.ev = TheClaim(st, k).root
    /\ tx.levels = CeilLog2(TheClaim(st, k).total)
C32_PaidOnlyWithValidProof ==
    [][IsTx(LastE) /\ s'.supply > s.supply
         => PropProofValid(s, LastE.tx) /\ ~HasClaim(s', ClaimKey(LastE.tx))]_vars
\* C32: a failed or unauthenticated transaction creates or destroys no coins and touches no claim,
\* except the replay-attack branch (burn + deletion)
C32_NoEffectUnlessOK ==
    [][IsTx(LastE) /\ ~LastE.ok /\ LastE.mclass # "replay" => s'.supply = s.supply /\ s'.claims = s.claims]_vars
C32_ReplayBurns ==
    [][IsTx(LastE) /\ LastE.mclass = "replay"
         => s'.supply <= s.supply /\ ~HasClaim(s', ClaimKey(LastE.tx)) /\ BurnInScope(s, c, h, LastE.tx.node, TheClaim(s, ClaimKey(LastE.tx)).total)]_vars
\* C32: expiry removes claims without paying anything
C32_ExpiryWithoutPayment ==
    [][LastE.ev = "block" => s'.supply = s.supply /\ s'.claims = {r \in s.claims : r.expires > h'}]_vars
\* C32: at most one payment per claim key - strict, and with the known boundary pattern excluded
C32_AtMostOnce_Strict == repaid = 0
C32_AtMostOnce        == repaid < 2

\* C31 on the claims this model accepts
AcceptedClaimsOK(strict) ==
    \A i \in 1..Len(hist) :
        LET e == hist[i] IN
        (e.ev = "tx" /\ e.tx.kind = "claim" /\ e.ok)
          => \/ EntropyHeight(e.tx.sessionH, B, W) \notin Known(e.h)
             \/ (~strict /\ Known_C31_Boundary(e.h, e.tx.sessionH, B, W))
C31_Unpredictable_Strict == AcceptedClaimsOK(TRUE)
C31_Unpredictable        == AcceptedClaimsOK(FALSE)

C17_Design == Inv_C17_SupplyIsSumOfBalances(s)
NoUnbound == \A i \in 1..Len(hist) : hist[i].ev = "tx" => hist[i].mclass # "unbound"
=============================================================================
