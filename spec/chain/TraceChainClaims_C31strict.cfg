INIT TraceInit
NEXT TraceNext
INVARIANTS C31_ProofLeafUnpredictable_Strict
POSTCONDITION TraceAccepted
CHECK_DEADLOCK FALSE
