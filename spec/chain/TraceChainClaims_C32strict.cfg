INIT TraceInit
NEXT TraceNext
INVARIANTS C32_ClaimsRewardedOnceWithProof_Strict
POSTCONDITION TraceAccepted
CHECK_DEADLOCK FALSE
