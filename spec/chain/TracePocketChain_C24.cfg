INIT TraceInit
NEXT TraceNext
INVARIANTS C24_UnstakeOnceWhenDue
POSTCONDITION TraceAccepted
CHECK_DEADLOCK FALSE
