CONSTANTS MaxMsgs = 1  Variants = {1, 2}  Focus = "params"
INIT Init
NEXT NextCover
VIEW view
INVARIANTS ProbeOK SupplyOK
PROPERTIES C36_Design Unauth_Design
CHECK_DEADLOCK FALSE
