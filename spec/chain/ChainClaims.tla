---------------------------- MODULE ChainClaims ----------------------------
(***************************************************************************)
(* Relay claims and proofs (x/pocketcore): handleClaimMsg / ValidateClaim / *)
(* SetClaim, handleProofMsg / ValidateProof / ExecuteProof / the replay-    *)
(* attack branch, DeleteExpiredClaims at BeginBlock, and the relay reward   *)
(* (x/nodes RewardForRelaysPerChain, BurnForChallenge).  Variable-free.     *)
(*                                                                         *)
(* State (ChainBase vocabulary) plus                                       *)
(*   s.claims   SET of [node, app, chain, sessionH, total, evidence,        *)
(*              expires, root]; the store key of a claim is                *)
(*              (node, app, chain, sessionH, evidence): one record per key *)
(*              root = id of the evidence set whose Merkle root was        *)
(*              committed (the projection maps real root hashes to ids)    *)
(*   s.ixChain  raw image of the validators-by-chain index <<chain, node>> *)
(*                                                                         *)
(* Transactions (after a successful ante, see ChainAuth):                  *)
(*   claim: node, app, chain, sessionH, total, evidence, root              *)
(*          [sessNodes: the session's nodes, only needed when the session  *)
(*           is a proper pseudorandom subset of the eligible nodes]        *)
(*   proof: node (= servicer key of the revealed leaf = declared signer),  *)
(*          app, chain, sessionH (the leaf's session header), evidence,    *)
(*          and the CONSTRUCTION of the Merkle proof:                      *)
(*            ev       evidence set the branch was generated from          *)
(*            leafIdx  leaf the branch was generated for                   *)
(*            tIndex   the TargetIndex field declared in the message       *)
(*            levels   number of sibling hash ranges sent                   *)
(*            leafKind "member": the revealed leaf is leaf leafIdx of ev;  *)
(*                     "foreign": a validly signed relay of the same       *)
(*                     session that is not in the tree                     *)
(*            dupEv    every relay of ev appears twice (replay attack): a  *)
(*                     copy has a zero-width range, so a branch for it is  *)
(*                     rejected by ValidateBasic (basicOK = FALSE), and a  *)
(*                     branch for an original has a zero-width sibling     *)
(*            idxAt    [ToString(k) |-> leaf index selected by the hash of *)
(*                     block k] for the block heights around the entropy   *)
(*                     block, computed off-chain from the block store      *)
(*                                                                         *)
(* Historical reads: the code evaluates most conditions on the state as of *)
(* the session's first block (`PrevCtx(S)` = the state COMMITTED by block  *)
(* S) and the session's last block.  Operators therefore take StAt(_) and  *)
(* CfgAt(_): committed state / configuration by height (heights < h).      *)
(***************************************************************************)
EXTENDS ChainAuth, ChainBlock

-----------------------------------------------------------------------------
\* Session and window arithmetic, exactly as the code computes it

\* keeper.GetLatestSessionBlockHeight: first block of the session containing height h
SessionStart(h, B) == ((h - 1) \div B) * B + 1
\* ValidateClaim: sessionEndHeight := SessionBlockHeight + BlocksPerSession - 1
SessionEnd(S, B) == S + B - 1
\* ValidateClaim rejects while  h <= sessionEndHeight
FirstClaimHeight(S, B) == SessionEnd(S, B) + 1
\* ClaimIsMature:  h > ClaimSubmissionWindow * BlocksPerSession + SessionBlockHeight
ClaimIsMature(h, S, B, W) == h > W * B + S
LastClaimHeight(S, B, W) == W * B + S
ClaimWindowOpen(h, S, B, W) == h > SessionEnd(S, B) /\ ~ClaimIsMature(h, S, B, W)
\* getPseudorandomIndex: proofHeight := SessionBlockHeight + Window * BlocksPerSession;
\* the selecting hash is GetPrevBlockHash(proofHeight) = the hash of block proofHeight - 1
\* (header.LastBlockId of block proofHeight).  It can be read from height proofHeight on.
ProofHeight(S, B, W)   == S + W * B
EntropyHeight(S, B, W) == ProofHeight(S, B, W) - 1
\* block hashes that exist when a transaction for block h can be authored
Known(h) == 1..(h - 1)

\* C31 (timing part): at every height at which the claim is still accepted the selecting
\* block hash does not exist yet
Inv_C31_Unpredictable(S, B, W) ==
    \A ch \in FirstClaimHeight(S, B)..LastClaimHeight(S, B, W) : EntropyHeight(S, B, W) \notin Known(ch)
\* The same statement with the known boundary case taken out (known_findings F-C31):
\* the LAST accepted height, whose previous block is the entropy block.
Known_C31_Boundary(ch, S, B, W) == ch = LastClaimHeight(S, B, W) /\ EntropyHeight(S, B, W) = ch - 1
Inv_C31_UnpredictableExceptBoundary(S, B, W) ==
    \A ch \in FirstClaimHeight(S, B)..LastClaimHeight(S, B, W) :
        EntropyHeight(S, B, W) \in Known(ch) => Known_C31_Boundary(ch, S, B, W)

-----------------------------------------------------------------------------
\* Small arithmetic

RECURSIVE CeilLog2(_)
CeilLog2(n) == IF n <= 1 THEN 0 ELSE 1 + CeilLog2((n + 1) \div 2)     \* int(math.Ceil(math.Log2(n)))
MinOf(a, b) == IF a < b THEN a ELSE b

\* types.MaxPossibleRelays: maxRelays / #chains / sessionNodeCount, rounded to an integer
\* (the code divides 18-decimal numbers twice and rounds; equal to rounding the exact
\* quotient except at exact .5 ties of the intermediate value - stated as assumption)
MaxPossibleRelays(app, count) ==
    LET d == Len(app.chains) * count IN (2 * app.maxRelays + d) \div (2 * d)

-----------------------------------------------------------------------------
\* Claims

ClaimKey(r) == [node |-> r.node, app |-> r.app, chain |-> r.chain, sessionH |-> r.sessionH, evidence |-> r.evidence]
ClaimsAt(s, k) == {r \in s.claims : ClaimKey(r) = k}
HasClaim(s, k) == ClaimsAt(s, k) # {}
TheClaim(s, k) == CHOOSE r \in s.claims : ClaimKey(r) = k

\* nodes of the session (types.NewSessionNodes): candidates = validators-by-chain index of
\* the session's first block; each pseudorandomly drawn candidate is cross-checked on the
\* state of the session's LAST block: it must exist, not be jailed, serve the chain, and
\* (after MAXCH, gated on the last block's height) not exceed the maximum number of chains.
Candidates(ss, chain) == {e[2] : e \in {x \in SeqToSet(ss.ixChain) : x[1] = chain}}
EligibleAtEnd(se, c, cs, endH, chain, n) ==
    /\ n \in DOMAIN se.val
    /\ ~se.val[n].jailed
    /\ chain \in SeqToSet(se.val[n].chains)
    /\ (Active(c, "MAXCH", endH) => Len(se.val[n].chains) <= cs.nodeParams.MaximumChains)
Eligible(ss, se, c, cs, endH, chain) == {n \in Candidates(ss, chain) : EligibleAtEnd(se, c, cs, endH, chain, n)}

\* Status of the session computation: "none" = InsufficientNodes, "ok" = the set below is the
\* session, "unbound" = more eligible nodes than seats and no usable binding.  When there
\* are more eligible nodes than seats the choice is pseudorandom (property C33, not
\* modelled here): the set is bound from the transaction record and only constrained.
SessionBound(tx, el, count) ==
    "sessNodes" \in DOMAIN tx /\ SeqToSet(tx.sessNodes) \subseteq el /\ Cardinality(SeqToSet(tx.sessNodes)) = count
SessionStatus(ss, se, c, cs, endH, tx) ==
    LET count == cs.pcParams.SessionNodeCount
        cand  == Candidates(ss, tx.chain)
        el    == Eligible(ss, se, c, cs, endH, tx.chain)
    IN IF Cardinality(cand) < count \/ Cardinality(el) < count THEN "none"
       ELSE IF Cardinality(el) = count \/ SessionBound(tx, el, count) THEN "ok" ELSE "unbound"
SessionNodes(ss, se, c, cs, endH, tx) ==
    LET el == Eligible(ss, se, c, cs, endH, tx.chain) IN
    IF Cardinality(el) = cs.pcParams.SessionNodeCount THEN el ELSE SeqToSet(tx.sessNodes)

\* keeper.ValidateClaim, in source order.  h = height of the executing block, s / c = live
\* state and configuration, StAt / CfgAt = committed ones.
ClaimClass(s, c, tx, h, StAt(_), CfgAt(_)) ==
    LET S == tx.sessionH IN
    IF S > h THEN "internal"                                   \* PrevCtx(S): no such version
    ELSE
    LET ss   == IF S = h THEN s ELSE StAt(S)                   \* session context
        cs   == IF S = h THEN c ELSE CfgAt(S)
        B    == cs.nodeParams.SessionBlockFrequency
        endH == SessionEnd(S, B)
    IN
    IF h <= endH THEN "height"                                 \* the session has not ended
    ELSE IF tx.total < cs.pcParams.MinimumNumberOfProofs THEN "fewproofs"
    ELSE IF tx.chain \notin SeqToSet(cs.supported) THEN "chain"
    ELSE IF tx.node \notin DOMAIN ss.val THEN "nonode"
    ELSE IF tx.app \notin DOMAIN ss.app THEN "noapp"
    ELSE
    LET app   == ss.app[tx.app]
        count == cs.pcParams.SessionNodeCount
    IN
    IF Active(c, "MREL", h) /\ MaxPossibleRelays(app, count) < tx.total THEN "overservice"
    ELSE IF Active(c, "MAXCH", h) /\ Len(app.chains) > cs.appParams.MaxChains THEN "appchains"
    ELSE
    LET se  == StAt(endH)                                      \* endH < h
        sst == SessionStatus(ss, se, c, cs, endH, tx)
    IN
    IF sst = "none" THEN "nonodes"
    ELSE IF sst = "unbound" THEN "unbound"
    ELSE IF tx.chain \notin SeqToSet(app.chains) THEN "appchain"          \* Session.Validate
    ELSE IF tx.node \notin SessionNodes(ss, se, c, cs, endH, tx) THEN "notinsession"
    \* maturity is evaluated with the CURRENT parameters
    ELSE IF ClaimIsMature(h, S, c.nodeParams.SessionBlockFrequency, c.pcParams.ClaimSubmissionWindow) THEN "mature"
    ELSE "ok"

\* keeper.SetClaim: the record replaces any claim stored under the same key; the expiration
\* height is computed from the session's parameters
ClaimRecord(tx, h, cs) ==
    [node |-> tx.node, app |-> tx.app, chain |-> tx.chain, sessionH |-> tx.sessionH, total |-> tx.total,
     evidence |-> tx.evidence, root |-> tx.root,
     expires |-> h + cs.pcParams.ClaimExpiration * cs.nodeParams.SessionBlockFrequency]

ClaimResult(s, c, tx, h, StAt(_), CfgAt(_)) ==
    IF ClaimClass(s, c, tx, h, StAt, CfgAt) # "ok" THEN s
    ELSE LET cs == CfgAt(tx.sessionH)
             k  == ClaimKey(tx)
         IN [s EXCEPT !.claims = (@ \ ClaimsAt(s, k)) \cup {ClaimRecord(tx, h, cs)}]

\* pocketcore BeginBlock: DeleteExpiredClaims
ExpireClaims(s, h) == [s EXCEPT !.claims = {r \in @ : r.expires > h}]

-----------------------------------------------------------------------------
\* Relay reward (x/nodes RewardForRelaysPerChain).  NCUST is active in every explored
\* configuration; the per-chain multiplier map is empty.

NonCustodial1RollbackHeight  == 69583
NonCustodial2AllowanceHeight == 74622

\* PIP-22 bin of a stake; the weight is bin^exponent/multiplier with the default exponent
\* and multiplier 1 - exact for bins 0 and 1, which is all the small economy reaches
RewardBin(c, stake) ==
    LET F == c.nodeParams.ServicerStakeFloorMultiplier
        C == c.nodeParams.ServicerStakeWeightCeiling
    IN MinOf(stake - (stake % F), C - (C % F)) \div F
\* BurnForChallenge uses  min(stake - stake mod F, ceiling - STAKE mod F)
SlashBin(c, stake) ==
    LET F == c.nodeParams.ServicerStakeFloorMultiplier
        C == c.nodeParams.ServicerStakeWeightCeiling
    IN MinOf(stake - (stake % F), C - (stake % F)) \div F

RelayCoins(c, h, relays, stake) ==
    IF Active(c, "RSCAL", h) THEN c.nodeParams.RelaysToTokensMultiplier * relays * RewardBin(c, stake)
    ELSE c.nodeParams.RelaysToTokensMultiplier * relays
\* splitRewards: DAO + proposer share, truncated, goes to the fee collector
FeeShare(c, coins) == (coins * (c.nodeParams.DAOAllocation + c.nodeParams.ProposerAllocation)) \div 100
\* GetRewardCost: the fees of one claim and one proof
RewardCost(c) == RequiredFee(c, [kind |-> "claim"]) + RequiredFee(c, [kind |-> "proof"])

RECURSIVE MintDelegators(_, _, _, _)
MintDelegators(s, amount, dels, todo) ==
    IF todo = {} THEN s
    ELSE LET d == CHOOSE x \in todo : TRUE
             a == (amount * dels[d]) \div 100
         IN MintDelegators(IF a > 0 THEN Mint(s, d, a) ELSE s, amount, dels, todo \ {d})

\* SplitNodeRewards with minting as the payment
MintSplit(s, amount, primary, dels) ==
    LET s1      == MintDelegators(s, amount, dels, DOMAIN dels)
        remains == amount - DelegatedTotal(amount, dels)
    IN IF remains > 0 THEN Mint(s1, primary, remains) ELSE s1

RewardForRelays(s, c, h, relays, node) ==
    LET nc    == Active(c, "NCUST", h)
        first == nc /\ Active(c, "RSCAL", h) /\ h <= NonCustodial1RollbackHeight   \* replay of the first non-custodial roll-out
    IN IF node \notin DOMAIN s.val THEN s                          \* no validator: nothing is minted
       ELSE
       LET v       == s.val[node]
           address == IF nc /\ (first \/ h >= NonCustodial2AllowanceHeight)
                        THEN (IF v.output = "" THEN node ELSE v.output) ELSE node
       IN IF first /\ address \notin DOMAIN s.val THEN s           \* the output address is not a validator
          ELSE
          LET coins  == RelayCoins(c, h, relays, v.tokens)
              fee    == FeeShare(c, coins)
              toNode == coins - fee
              cost   == IF Active(c, "RewardDelegators", h) THEN MinOf(toNode, RewardCost(c)) ELSE 0
              s1     == IF cost > 0 THEN Mint(s, node, cost) ELSE s       \* claim+proof fees back to the operator
              rest   == toNode - cost
              s2     == IF rest > 0 THEN MintSplit(s1, rest, address, v.delegators) ELSE s1
          IN IF fee > 0 THEN Mint(s2, FEE, fee) ELSE s2

\* HandleReplayAttack: BurnForChallenge(total * ReplayAttackBurnMultiplier) -> simpleSlash.
\* (A burn that takes the stake below the minimum force-unstakes the node; the explored
\*  economies keep burns small - BurnInScope.)
BurnAmount(s, c, h, node, total) ==
    LET ch == total * c.pcParams.ReplayAttackBurnMultiplier IN
    IF node \notin DOMAIN s.val THEN 0
    ELSE LET v     == s.val[node]
             coins == IF Active(c, "RSCAL", h) THEN c.nodeParams.RelaysToTokensMultiplier * ch * SlashBin(c, v.tokens)
                      ELSE c.nodeParams.RelaysToTokensMultiplier * ch
         IN IF coins <= 0 \/ v.status = UNSTAKED THEN 0 ELSE MinOf(coins, v.tokens)
BurnInScope(s, c, h, node, total) ==
    node \in DOMAIN s.val => s.val[node].tokens - BurnAmount(s, c, h, node, total) >= c.nodeParams.StakeMinimum
ReplayBurn(s, c, h, node, total) ==
    LET b == BurnAmount(s, c, h, node, total) IN
    IF b = 0 THEN s
    ELSE Burn([s EXCEPT !.val[node].tokens = @ - b], NODEPOOL, b)

-----------------------------------------------------------------------------
\* Proofs

\* MerkleProof.Validate on a branch CONSTRUCTED as the record says, against the claim's root
\* (the Merkle-sum-index tree itself is specified and checked under C29/C30):
\*   foreign leaf        -> target hash # hash(leaf): invalid, not a replay
\*   duplicated relays   -> the first sibling has a zero-width range: replay attack
\*   tIndex # leafIdx    -> at the lowest differing bit the range adjacency test fails: invalid
\*   other tree          -> final root comparison fails: treated as a replay attack
MerkleClass(tx, cl) ==
    IF tx.leafKind = "foreign" THEN "invalid"
    ELSE IF tx.dupEv THEN "replay"
    ELSE IF tx.tIndex # tx.leafIdx THEN "invalid"
    ELSE IF tx.ev = cl.root THEN "valid" ELSE "replay"

RequiredIndex(tx, entropyH) == tx.idxAt[ToString(entropyH)]

\* keeper.ValidateProof, in source order
ProofClass(s, c, tx, h, StAt(_), CfgAt(_)) ==
    LET k == ClaimKey(tx) IN
    IF ~HasClaim(s, k) THEN "noclaim"
    ELSE
    LET cl == TheClaim(s, k) IN
    IF tx.levels # CeilLog2(cl.total) THEN "levels"
    \* the root's sum must be the upper bound of the target or of a sibling: fails for a branch
    \* of another tree (sums are 64-bit hash prefixes; distinct trees have distinct sums)
    ELSE IF tx.ev # cl.root THEN "merkle"
    ELSE
    LET S      == cl.sessionH                                  \* S < h: the claim was accepted after the session
        cs     == CfgAt(S)
        B      == cs.nodeParams.SessionBlockFrequency
        W      == cs.pcParams.ClaimSubmissionWindow
        proofH == ProofHeight(S, B, W)
    IN
    IF proofH > h THEN "internal"                              \* GetPrevBlockHash: block not found
    ELSE IF tx.tIndex # RequiredIndex(tx, EntropyHeight(S, B, W)) THEN "index"
    ELSE
    LET mc == MerkleClass(tx, cl) IN
    IF mc = "replay" /\ Active(c, "REPBR", h) THEN "replay"
    ELSE IF mc # "valid" THEN "merkle"
    ELSE IF cl.app \notin DOMAIN StAt(S).app THEN "noapp"
    \* RelayProof.Validate: session height (equal by construction of the key) and chain
    ELSE IF tx.chain \notin SeqToSet(StAt(S).app[cl.app].chains) THEN "leafchain"
    ELSE "ok"

RemoveClaim(s, k) == [s EXCEPT !.claims = @ \ ClaimsAt(s, k)]

\* handleProofMsg: pay and delete; replay attack: burn and delete; anything else: no change
ProofResult(s, c, tx, h, StAt(_), CfgAt(_)) ==
    LET cls == ProofClass(s, c, tx, h, StAt, CfgAt)
        k   == ClaimKey(tx)
    IN IF cls = "ok"
         THEN LET cl == TheClaim(s, k) IN RemoveClaim(RewardForRelays(s, c, h, cl.total, cl.node), k)
       ELSE IF cls = "replay"
         THEN LET cl == TheClaim(s, k) IN RemoveClaim(ReplayBurn(s, c, h, tx.node, cl.total), k)
       ELSE s

-----------------------------------------------------------------------------
\* DeliverTx for this module's message kinds

ClaimsKinds == {"claim", "proof"}
MsgClass(s, c, tx, h, StAt(_), CfgAt(_)) ==
    IF tx.kind = "claim" THEN ClaimClass(s, c, tx, h, StAt, CfgAt) ELSE ProofClass(s, c, tx, h, StAt, CfgAt)
ClaimsDeliver(s, c, tx, h, StAt(_), CfgAt(_)) ==
    IF ~AuthOK(s, c, tx, h) THEN s
    ELSE LET s1 == ChargeFee(s, tx) IN
         IF tx.kind = "claim" THEN ClaimResult(s1, c, tx, h, StAt, CfgAt) ELSE ProofResult(s1, c, tx, h, StAt, CfgAt)
ClaimsDeliverOK(s, c, tx, h, StAt(_), CfgAt(_)) ==
    AuthOK(s, c, tx, h) /\ MsgClass(ChargeFee(s, tx), c, tx, h, StAt, CfgAt) = "ok"

\* BeginBlock as far as this module's fields go: fee distribution, then claim expiry
ClaimsBeginBlock(s, c, h, proposer) == ExpireClaims(BeginBlockFees(s, c, h, proposer), h)

-----------------------------------------------------------------------------
\* C32, in the property's own words (used by the design model and the trace module)

\* conditions under which the property allows a claim to be accepted
PropClaimAcceptable(s, c, tx, h, StAt(_), CfgAt(_)) ==
    LET S == tx.sessionH IN
    /\ S < h
    /\ LET ss == StAt(S)
           cs == CfgAt(S)
           B  == cs.nodeParams.SessionBlockFrequency
       IN /\ h > SessionEnd(S, B)                                                  \* session ended
          /\ ~ClaimIsMature(h, S, c.nodeParams.SessionBlockFrequency, c.pcParams.ClaimSubmissionWindow)
          /\ tx.node \in Eligible(ss, StAt(SessionEnd(S, B)), c, cs, SessionEnd(S, B), tx.chain)   \* a node eligible for that session ...
          /\ tx.app \in DOMAIN ss.app /\ tx.chain \in SeqToSet(ss.app[tx.app].chains)   \* ... for a staked application
          /\ tx.chain \in SeqToSet(cs.supported)
          /\ tx.total <= MaxPossibleRelays(ss.app[tx.app], cs.pcParams.SessionNodeCount)

\* known finding F-C32: height S + W*B is the last height at which a claim is accepted AND
\* the first at which its proof is: a claim paid at that height can be submitted again in the
\* same block and is then paid again (in that block or later).  The pattern is keyed on the
\* height at which the re-paid claim was SUBMITTED (recoverable from its expiration height).
ClaimSubmitHeight(cl, cs) == cl.expires - cs.pcParams.ClaimExpiration * cs.nodeParams.SessionBlockFrequency
Known_C32_Reclaim(submitH, S, B, W) == submitH = LastClaimHeight(S, B, W) /\ submitH = ProofHeight(S, B, W)
=============================================================================
