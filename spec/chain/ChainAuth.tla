----------------------------- MODULE ChainAuth -----------------------------
(***************************************************************************)
(* Transaction authentication, fee charging and the send message, as in    *)
(* baseapp.runTx + x/auth/ante.go + x/nodes handleMsgSend.                 *)
(*                                                                         *)
(* A transaction is a record (logged by the harness / chosen by TLC):      *)
(*   kind      "send", "node_stake", ...                                   *)
(*   signer    name of the key that produced the signature ("" = none)     *)
(*   sigOK     the signature bytes verify over the sign bytes of this tx   *)
(*   chainOK   ... computed for THIS chain's id                            *)
(*   hasPK     the public key travels inside the signature                 *)
(*   hasSig    the signature bytes are non-empty                           *)
(*   multisig  the signing key is a multi-signature key; depthOK = within  *)
(*             the signature-count limit                                   *)
(*   fee       declared fee in uPOKT; feeValid = the coin set is valid     *)
(*   memoLen   memo length (limit: c.maxMemo)                              *)
(*   dup       "no" | "inblock" (same bytes earlier in this block) |       *)
(*             "indexed" (same bytes delivered in an earlier block and     *)
(*             indexed, i.e. not rejected by the ante handler)             *)
(*   decodes   the bytes decode at the last committed height               *)
(*   basicOK   the message passes its stateless ValidateBasic              *)
(*   plus the message's own fields.                                        *)
(***************************************************************************)
EXTENDS ChainBase

BaseFee == 10000     \* every message type's base fee (x/*/types/fee.go)

\* message-declared signers (Msg.GetSigners), in order
DeclaredSigners(tx) ==
    CASE tx.kind = "send"          -> <<tx.from>>
      [] tx.kind = "node_stake"    -> <<tx.node, tx.output>>
      [] tx.kind = "node_unstake"  -> <<tx.msgSigner, tx.node>>
      [] tx.kind = "node_unjail"   -> <<tx.msgSigner, tx.node>>
      [] tx.kind = "app_stake"     -> <<tx.app>>
      [] tx.kind = "app_unstake"   -> <<tx.app>>
      [] tx.kind = "app_unjail"    -> <<tx.app>>
      [] tx.kind = "claim"         -> <<tx.node>>
      [] tx.kind = "proof"         -> <<tx.node>>
      [] tx.kind \in {"change_param", "dao_transfer", "dao_burn", "upgrade"} -> <<tx.from>>
      [] OTHER -> <<>>

\* the node's CURRENT output address may sign a stake message (after NCUST and OEDIT)
OutputSigner(s, c, tx, h) ==
    IF tx.kind = "node_stake" /\ Active(c, "NCUST", h) /\ Active(c, "OEDIT", h)
       /\ tx.node \in DOMAIN s.val /\ s.val[tx.node].output # ""
    THEN {s.val[tx.node].output} ELSE {}

\* an existing application may sign a transfer of itself to a new key (after AppTransfer; the
\* handler, not the ante, requires it to be staked):
\* app-stake message naming ANOTHER key, with no chains and zero value
IsAppTransfer(s, c, tx, h) ==
    /\ tx.kind = "app_stake" /\ Active(c, "AppTransfer", h)
    /\ tx.signer # "" /\ tx.signer # tx.app
    /\ tx.signer \in DOMAIN s.app     \* ANY existing application record (x/apps IsMsgAppTransfer does not look at its status)
    /\ tx.chains = <<>> /\ tx.amount = 0
TransferSigner(s, c, tx, h) == IF IsAppTransfer(s, c, tx, h) THEN {tx.signer} ELSE {}

\* valid signers in the order the ante handler tries them
ValidSignerSeq(s, c, tx, h) ==
    DeclaredSigners(tx)
      \o (IF OutputSigner(s, c, tx, h) = {} THEN <<>> ELSE <<s.val[tx.node].output>>)
      \o (IF IsAppTransfer(s, c, tx, h) THEN <<tx.signer>> ELSE <<>>)

RequiredFee(c, tx) == BaseFee * At(c.feeMult, tx.kind, c.feeMultDefault)

HasPubKey(s, a) == a \notin DOMAIN s.nopk

\* x/auth ValidateTransaction's loop over the valid signers.  The public key comes from
\* the signature (hasPK) or from the signer's account.  A multi-signature key skips
\* the minimum-fee check (as the code does; see known finding F-C15-multisig).
RECURSIVE AuthLoop(_, _, _, _)
AuthLoop(s, c, tx, q) ==
    IF q = <<>> THEN "unauthorized"
    ELSE LET sg == Head(q) IN
         IF tx.hasPK
           THEN IF sg # tx.signer THEN AuthLoop(s, c, tx, Tail(q))
                ELSE IF ~tx.multisig /\ tx.fee < RequiredFee(c, tx) THEN "fee"
                ELSE IF tx.multisig /\ ~tx.depthOK THEN "depth"
                ELSE IF tx.sigOK /\ tx.chainOK THEN "ok"
                ELSE AuthLoop(s, c, tx, Tail(q))
           ELSE IF ~Exists(s, sg) THEN "noaccount"
                ELSE IF ~HasPubKey(s, sg) THEN "emptypk"
                ELSE IF tx.fee < RequiredFee(c, tx) THEN "fee"
                ELSE IF sg = tx.signer /\ tx.sigOK /\ tx.chainOK THEN "ok"
                ELSE AuthLoop(s, c, tx, Tail(q))

\* Outcome class of the whole pre-message pipeline (decode, in-block duplicate cache,
\* ValidateBasic, ante).  "ok" = authenticated and fee charged; anything else =
\* rejected with NO state change.  h = height of the block being executed.
AnteClass(s, c, tx, h) ==
    IF ~tx.decodes THEN "decode"
    ELSE IF tx.dup = "inblock" /\ Active(c, "REDUP", h - 1) THEN "dup"
    ELSE IF ~tx.basicOK THEN "basic"
    ELSE IF ~tx.feeValid \/ ~tx.hasSig THEN "txbasic"      \* StdTx.ValidateBasic
    ELSE IF tx.memoLen > c.maxMemo THEN "memo"
    ELSE IF tx.dup = "indexed" THEN "dup"
    ELSE LET r == AuthLoop(s, c, tx, ValidSignerSeq(s, c, tx, h)) IN
         IF r # "ok" THEN r
         ELSE IF ~Exists(s, tx.signer) THEN "noaccount"
         ELSE IF BalOf(s, tx.signer) < tx.fee THEN "balance"
         ELSE "ok"

AuthOK(s, c, tx, h) == AnteClass(s, c, tx, h) = "ok"

\* fee: payer = the verifying key's address (after NCUST)
ChargeFee(s, tx) == Move(s, tx.signer, FEE, tx.fee)

\* ---- send (x/nodes handleMsgSend -> auth keeper SendCoins: subtract, then add)
SendOK(s, tx)     == BalOf(s, tx.from) >= tx.amount
SendResult(s, tx) == IF SendOK(s, tx) THEN Move(s, tx.from, tx.to, tx.amount) ELSE s

\* DeliverTx for the message kinds this module knows
AuthKinds == {"send"}
AuthDeliver(s, c, tx, h) ==
    IF ~AuthOK(s, c, tx, h) THEN s
    ELSE LET s1 == ChargeFee(s, tx) IN
         CASE tx.kind = "send" -> SendResult(s1, tx)
AuthDeliverOK(s, c, tx, h) ==
    /\ AuthOK(s, c, tx, h)
    /\ CASE tx.kind = "send" -> SendOK(ChargeFee(s, tx), tx)
=============================================================================
