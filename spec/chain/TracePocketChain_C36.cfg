INIT TraceInit
NEXT TraceNext
INVARIANTS C36_OnlyOwnersChangeParamsOrDaoFunds
POSTCONDITION TraceAccepted
CHECK_DEADLOCK FALSE
