INIT TraceInit
NEXT TraceNext
INVARIANTS C17_SupplyIsSumOfBalances
POSTCONDITION TraceAccepted
CHECK_DEADLOCK FALSE
