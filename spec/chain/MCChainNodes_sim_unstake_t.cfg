CONSTANTS MaxBlocks = 99  Family = "unstake"  SimDepth = 20
INIT Init
NEXT Next
VIEW view
INVARIANTS C19_Design C21_Design C22_Design C25_JailedOut_Design EmitSim
PROPERTIES C22_Updates_Design C23_Design C24_Design C25_Slash_Design C25_Unjail_Design
CHECK_DEADLOCK FALSE
CONSTRAINT SimBound
