-------------------------- MODULE TraceChainClaims --------------------------
(***************************************************************************)
(* Trace validation of PocketCoreApp executions (recorded by               *)
(* vh-chain-claims: one event per ABCI call with the projected post-state) *)
(* against ChainClaims.  Every step is judged from the LOGGED pre-state    *)
(* (= the previous event's post-state); historical reads (state as of the  *)
(* session's first / last block) go to the logged state of the Commit      *)
(* event of that height.  Failures are tagged with the property they        *)
(* contradict; "C31K" / "C32K" mark the known-finding patterns, which are   *)
(* excluded from C31 / C32, printed as <<"KNOWN-PATTERN", line, tag>> and   *)
(* reported by the *_Strict invariants.  "dispatch" events (the node served *)
(* an off-chain dispatch: session cached) carry no obligation of their own: *)
(* no operator of ChainClaims reads the cache, so every later claim / proof *)
(* is judged exactly as on a node that never dispatched.                    *)
(***************************************************************************)
EXTENDS ChainClaims, IOUtils, Json

Trace == ndJsonDeserialize(IOEnv.TRACE_FILE)

VARIABLES l,           \* next event
          cfgLine,     \* index of the last event that carried a "cfg" field
          commitLine,  \* height -> index of the Commit event of that height (current chain)
          commitCfg,   \* height -> cfgLine at that Commit
          paid,        \* ghost: claim keys that were rewarded on the current chain
          errs         \* sequence of <<line, tag>> (at most MaxErrs)

tvars == <<l, cfgLine, commitLine, commitCfg, paid, errs>>
MaxErrs == 400

TraceInit == l = 1 /\ cfgLine = 1 /\ commitLine = <<>> /\ commitCfg = <<>> /\ paid = {} /\ errs = <<>>

\* the logged state in the specification's shape (claims as a set)
Norm(st) == [st EXCEPT !.claims = SeqToSet(@)]
WellFormed(st) == Cardinality(SeqToSet(st.claims)) = Len(st.claims)      \* no duplicate claim records
                  /\ \A i, j \in 1..Len(st.claims) : i # j => ClaimKey(st.claims[i]) # ClaimKey(st.claims[j])

\* fields this module judges after a claim / proof transaction
Footprint(st) == [bal |-> st.bal, supply |-> st.supply, nopk |-> st.nopk, claims |-> st.claims,
                  val |-> st.val, app |-> st.app, ixChain |-> st.ixChain]

StAtLine(k)  == Norm(Trace[commitLine[k]].st)
CfgAtLine(k) == Trace[commitCfg[k]].cfg

\* tags contradicted by a claim / proof DeliverTx event
DeliverTags(pre, c, e) ==
    LET tx   == e.tx
        h    == e.h
        post == Norm(e.st)
        ok   == e.res.code = 0
        cls  == AnteClass(pre, c, tx, h)
    IN
    IF cls # "ok"
      THEN IF Footprint(post) # Footprint(pre) \/ post.rest # pre.rest \/ ok THEN {"C32"} ELSE {}
    ELSE
    LET charged == ChargeFee(pre, tx)
        mcls    == MsgClass(charged, c, tx, h, StAtLine, CfgAtLine)
        want    == ClaimsDeliver(pre, c, tx, h, StAtLine, CfgAtLine)
        same    == /\ Footprint(post) = Footprint(want)
                   /\ (mcls # "replay" => post.rest = pre.rest)
                   /\ ok = (mcls = "ok")
        \* attribution: the END of the claim window and the index decisions belong to C31 as well
        timing  == (tx.kind = "claim" /\ mcls = "mature")
                   \/ (tx.kind = "proof" /\ (mcls \in {"index", "internal"} \/ (mcls = "ok" /\ ~ok)))
        \* ---- statements of the properties themselves, on the real outcome
        S  == tx.sessionH
        c31claim ==
            IF tx.kind = "claim" /\ ok /\ S < h
              THEN LET cs == CfgAtLine(S)
                       B  == cs.nodeParams.SessionBlockFrequency
                       W  == cs.pcParams.ClaimSubmissionWindow
                   IN IF EntropyHeight(S, B, W) \notin Known(h) THEN {}
                      ELSE IF Known_C31_Boundary(h, S, B, W) THEN {"C31K"} ELSE {"C31"}
              ELSE {}
        c31proof ==
            IF tx.kind = "proof" /\ ok /\ HasClaim(pre, ClaimKey(tx))
              THEN LET cl == TheClaim(pre, ClaimKey(tx))
                       cs == CfgAtLine(cl.sessionH)
                       eh == EntropyHeight(cl.sessionH, cs.nodeParams.SessionBlockFrequency, cs.pcParams.ClaimSubmissionWindow)
                   IN IF tx.tIndex = RequiredIndex(tx, eh) /\ tx.tIndex >= 0 /\ tx.tIndex < cl.total THEN {} ELSE {"C31"}
              ELSE {}
        once ==
            IF tx.kind = "proof" /\ ok /\ ClaimKey(tx) \in paid
              THEN LET cs == CfgAtLine(S)
                       sh == IF HasClaim(pre, ClaimKey(tx)) THEN ClaimSubmitHeight(TheClaim(pre, ClaimKey(tx)), cs) ELSE 0
                   IN IF Known_C32_Reclaim(sh, S, cs.nodeParams.SessionBlockFrequency, cs.pcParams.ClaimSubmissionWindow) THEN {"C32K"} ELSE {"C32"}
              ELSE {}
    IN (IF same THEN {} ELSE IF timing THEN {"C31", "C32"} ELSE {"C32"}) \cup c31claim \cup c31proof \cup once
       \cup (IF mcls = "unbound" THEN {"BIND"} ELSE {})

\* BeginBlock: expired claims are removed and nothing is minted or burned
BeginTags(pre, e) ==
    LET post == Norm(e.st) IN
    IF post.claims = {r \in pre.claims : r.expires > e.h} /\ post.supply = pre.supply THEN {} ELSE {"C32"}

\* off-chain evaluations of the leaf-selection function (vh-chain-claims index-fn):
\* idx in range, and the same value whenever the same (hash, header, total) is evaluated again
IndexTags(e) == IF e.idx >= 0 /\ e.idx < e.total /\ e.idx = e.again /\ e.idx = e.first THEN {} ELSE {"C31"}

RECURSIVE SetToSeq(_)
SetToSeq(S) == IF S = {} THEN <<>> ELSE LET x == CHOOSE y \in S : TRUE IN <<x>> \o SetToSeq(S \ {x})

TraceNext ==
    /\ l <= Len(Trace)
    /\ l' = l + 1
    /\ LET e    == Trace[l]
           cl   == IF "cfg" \in DOMAIN e THEN l ELSE cfgLine
           mine == e.ev = "DeliverTx" /\ e.tx.kind \in ClaimsKinds
           tags == (IF mine THEN DeliverTags(Norm(Trace[l - 1].st), Trace[cfgLine].cfg, e) ELSE {})
                   \cup (IF e.ev = "BeginBlock" THEN BeginTags(Norm(Trace[l - 1].st), e) ELSE {})
                   \cup (IF e.ev = "index" THEN IndexTags(e) ELSE {})
                   \cup (IF "st" \in DOMAIN e /\ ~WellFormed(e.st) THEN {"C32"} ELSE {})
           new  == [i \in 1..Cardinality(tags) |-> <<l, SetToSeq(tags)[i]>>]
       IN /\ \A t \in tags \cap {"C31K", "C32K"} : PrintT(<<"KNOWN-PATTERN", l, t>>)
          /\ cfgLine' = cl
          /\ commitLine' = IF e.ev = "reset" THEN <<>> ELSE IF e.ev = "Commit" THEN Put(commitLine, e.h, l) ELSE commitLine
          /\ commitCfg'  = IF e.ev = "reset" THEN <<>> ELSE IF e.ev = "Commit" THEN Put(commitCfg, e.h, cl) ELSE commitCfg
          /\ paid' = IF e.ev = "reset" THEN {}
                     ELSE IF mine /\ e.tx.kind = "proof" /\ e.res.code = 0 THEN paid \cup {ClaimKey(e.tx)} ELSE paid
          /\ errs' = IF Len(errs) >= MaxErrs THEN errs ELSE errs \o new

TraceSpec == TraceInit /\ [][TraceNext]_tvars

Tagged(t) == \E i \in 1..Len(errs) : errs[i][2] = t
C31_ProofLeafUnpredictable        == ~Tagged("C31") /\ ~Tagged("BIND")
C31_ProofLeafUnpredictable_Strict == ~Tagged("C31") /\ ~Tagged("C31K")
C32_ClaimsRewardedOnceWithProof        == ~Tagged("C32") /\ ~Tagged("BIND")
C32_ClaimsRewardedOnceWithProof_Strict == ~Tagged("C32") /\ ~Tagged("C32K")
NoErrs == errs = <<>>
TraceAccepted == TLCGet("stats").diameter = Len(Trace) + 1
=============================================================================
