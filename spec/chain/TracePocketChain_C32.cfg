INIT TraceInit
NEXT TraceNext
INVARIANTS C32_ClaimsRewardedOnceWithProof
POSTCONDITION TraceAccepted
CHECK_DEADLOCK FALSE
