CONSTANTS MaxB = 6  MaxW = 4
INIT Init
NEXT NextCover
INVARIANTS C31_ExceptBoundary C31_Windows WindowShape
CHECK_DEADLOCK FALSE
