INIT TraceInit
NEXT TraceNext
INVARIANTS C37_UpgradesActivateAndAreNeverLost
POSTCONDITION TraceAccepted
CHECK_DEADLOCK FALSE
