CONSTANTS MaxB = 6  MaxW = 4
INIT Init
NEXT Next
INVARIANTS C31_Strict
CHECK_DEADLOCK FALSE
