INIT TraceInit
NEXT TraceNext
INVARIANTS C21_IndexesAgreeWithRecords
POSTCONDITION TraceAccepted
CHECK_DEADLOCK FALSE
