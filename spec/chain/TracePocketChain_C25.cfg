INIT TraceInit
NEXT TraceNext
INVARIANTS C25_SlashJailRules
POSTCONDITION TraceAccepted
CHECK_DEADLOCK FALSE
