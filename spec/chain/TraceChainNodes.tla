-------------------------- MODULE TraceChainNodes --------------------------
(***************************************************************************)
(* Trace validation of PocketCoreApp executions recorded by vh-chain-nodes *)
(* (one event per ABCI call - reset, BeginBlock, DeliverTx, EndBlock - or  *)
(* keeper-level challenge burn, each with the projected post-state)        *)
(* against ChainNodes.                                                     *)
(*                                                                         *)
(* Every step is judged from the LOGGED pre-state (= previous post-state), *)
(* twice: (1) by the property-level predicates of ChainNodes (Inv_C19,     *)
(* Inv_C21, Inv_C22, Step_C23, Step_C24_x, Step_C25_x), which do not       *)
(* depend on how the code is organised, and (2) by comparing the logged    *)
(* post-state with the exact functional model; a divergence is attributed  *)
(* to the property whose footprint contains the diverging field, or to     *)
(* "MODEL" when it belongs to no property of this module (development      *)
(* gate: the _all configuration must accept the unchanged tree).  An index *)
(* image that differs from the model is attributed to C21 only when the    *)
(* records agree with the model: otherwise the index may well agree with   *)
(* the diverging records, which is all that C21 states, and the            *)
(* property-level Inv_C21 decides at the next EndBlock.                    *)
(*                                                                         *)
(* Ghosts (small state variables): donated = coins sent to the pool        *)
(* address by successful send transactions (known finding of C19);         *)
(* jailEnd[n] = latest end of a jail period recorded for n at a BeginBlock;*)
(* editedJ = nodes edit-staked while jailed (known finding of C25: the     *)
(* edit drops the signing info and with it the jail period).               *)
(***************************************************************************)
EXTENDS ChainNodes, IOUtils, Json

Trace == ndJsonDeserialize(IOEnv.TRACE_FILE)

VARIABLES l,        \* next event
          cfgLine,  \* index of the last event with a "cfg" field
          err,     \* sequence of <<line, tag>> (at most MaxPerTag entries per tag)
          donated, jailEnd, editedJ

tvars == <<l, cfgLine, err, donated, jailEnd, editedJ>>
\* the list is capped PER TAG, so that a flood of tags of one property (or of "MODEL")
\* can never keep the tag of another property out of the list; known findings are never
\* stored here, they are printed (KnownLines)
MaxPerTag == 8
NoNodes == [x \in {} |-> 0]

TraceInit == l = 1 /\ cfgLine = 1 /\ err = <<>> /\ donated = 0 /\ jailEnd = NoNodes /\ editedJ = {}

Fields == {"bal", "supply", "nopk", "badCoins", "val", "ixStaked", "ixChain", "ixUnstaking", "ixWaiting",
           "prevPower", "prevTotal", "signing", "prevProposer", "tmSet", "missed", "rest"}
Diff(want, got) == {f \in Fields : want[f] # got[f]}

IfTag(cond, tag) == IF cond THEN {} ELSE {tag}      \* tag when the predicate is FALSE

\* ---- BeginBlock ---------------------------------------------------------------
BeginTags(pre, c, e) ==
    LET post == e.st
        want == NodesBeginBlock(pre, c, e.h, e.t, e.proposer, e.votes, e.evidence)
        d    == Diff(want, post)
        poolDiffers == BalOf(want, NODEPOOL) # BalOf(post, NODEPOOL)
    IN IfTag(Step_C25_Slash(pre, post, c), "C25")
       \cup IfTag(Step_C24_Leave(pre, post, c, e.h, FALSE) /\ Step_C24_NoEarly(pre, post), "C24")
       \cup (IF d \cap {"val", "signing", "missed", "ixWaiting", "supply"} # {} \/ poolDiffers THEN {"C25"} ELSE {})
       \cup (IF d \cap {"ixStaked", "ixChain", "ixUnstaking"} # {} /\ "val" \notin d THEN {"C21"} ELSE {})
       \cup (IF d \cap {"tmSet", "prevPower", "prevTotal"} # {} THEN {"C22"} ELSE {})
       \cup (IF d \cap {"prevProposer", "nopk", "badCoins", "rest"} # {} \/ ("bal" \in d /\ ~poolDiffers) THEN {"MODEL"} ELSE {})

\* ---- challenge burn (keeper.BurnForChallenge on the block's working state) ----
ChallengeTags(pre, c, e) ==
    LET post == e.st
        want == BurnForChallenge(pre, c, e.h, e.node, e.challenges)
        d    == Diff(want, post)
    IN IfTag(Step_C25_Slash(pre, post, c), "C25")
       \cup (IF d \cap {"val", "signing", "missed", "ixWaiting", "supply", "bal"} # {} THEN {"C25"} ELSE {})
       \cup (IF d \cap {"ixStaked", "ixChain", "ixUnstaking"} # {} /\ "val" \notin d THEN {"C21"} ELSE {})
       \cup (IF d \ {"val", "signing", "missed", "ixWaiting", "supply", "bal", "ixStaked", "ixChain", "ixUnstaking"} # {} THEN {"MODEL"} ELSE {})

\* ---- DeliverTx -----------------------------------------------------------------
IsEdit(pre, tx) == tx.kind = "node_stake" /\ HasVal(pre, tx.node) /\ Staked(pre.val[tx.node])
KindTag(pre, tx) ==
    CASE IsEdit(pre, tx)          -> "C23"
      [] tx.kind = "node_unstake" -> "C24"
      [] tx.kind = "node_unjail"  -> "C25"
      [] OTHER                    -> "MODEL"

PeriodEnd(n) == At(jailEnd, n, 0)
\* what the property says about an unjail message (authenticated by the ante handler)
UnjailAllowed(pre, c, e) ==
    AuthOK(pre, c, e.tx, e.h) /\ PropUnjailAllowed(ChargeFee(pre, e.tx), c, e.tx, e.t, PeriodEnd(e.tx.node))
\* known finding C25-a: the node was edit-staked while jailed (signing info dropped)
KnownEditBypass(e)  == e.tx.kind = "node_unjail" /\ e.tx.node \in editedJ
\* known finding C25-b: the code also compares JailedUntil with the WALL clock
KnownWallClock(e)   == e.tx.kind = "node_unjail" /\ ~e.wall /\ e.res.code # 0
UnjailMismatch(pre, c, e) == e.tx.kind = "node_unjail" /\ ((e.res.code = 0) # UnjailAllowed(pre, c, e))

DeliverTags(pre, c, e) ==
    LET tx   == e.tx
        post == e.st
        \* the wall-clock comparison is bound from the run: it can only have refused (never
        \* helped) an unjail, so an accepted message shows that it did not fire
        wall == e.wall \/ e.res.code = 0
        want == NodesDeliver(pre, c, tx, e.h, e.t, wall)
        okW  == NodesDeliverOK(pre, c, tx, e.h, e.t, wall)
        d    == Diff(want, post)
        newCfg == IF "cfg" \in DOMAIN e THEN e.cfg ELSE c
    IN (IF tx.kind = "node_stake" THEN IfTag(Step_C23(pre, post, c, tx, e.h), "C23") ELSE {})
       \cup IfTag(Step_C24_Leave(pre, post, c, e.h, FALSE) /\ Step_C24_NoEarly(pre, post), "C24")
       \cup (IF UnjailMismatch(pre, c, e) /\ ~KnownEditBypass(e) /\ ~KnownWallClock(e) THEN {"C25"} ELSE {})
       \cup (IF d # {} \/ (e.res.code = 0) # okW THEN {KindTag(pre, tx)} ELSE {})
       \cup (IF d \cap {"ixStaked", "ixChain", "ixUnstaking"} # {} /\ "val" \notin d THEN {"C21"} ELSE {})
       \cup (IF newCfg # NodesDeliverCfg(pre, c, tx, e.h, e.t) THEN {"MODEL"} ELSE {})

\* ---- EndBlock ------------------------------------------------------------------
EndTags(pre, c, e) ==
    LET post == e.st
        r    == NodesEndBlock(pre, c, e.h, e.t)
        d    == Diff(r.s, post)
    IN IfTag(Inv_C21(post), "C21")
       \cup IfTag(Inv_C22(post, c) /\ Updates_C22(pre, post, e.updates), "C22")
       \cup IfTag(Step_C24_Leave(pre, post, c, e.h, TRUE) /\ Step_C24_Time(pre, post, c, e.t)
                  /\ Step_C24_Payout(pre, post, e.t), "C24")
       \cup IfTag(Inv_C25_JailedOut(post), "C25")
       \cup IfTag(Inv_C19_Pool(post, donated), "C19")
       \cup (IF d \cap {"tmSet", "prevPower", "prevTotal"} # {} \/ r.ups # e.updates THEN {"C22"} ELSE {})
       \cup (IF d \cap {"val", "ixWaiting", "bal", "supply"} # {} THEN {"C24"} ELSE {})
       \cup (IF d \cap {"ixStaked", "ixChain", "ixUnstaking"} # {} /\ "val" \notin d THEN {"C21"} ELSE {})
       \cup (IF d \cap {"signing", "missed"} # {} THEN {"C25"} ELSE {})
       \cup (IF d \cap {"prevProposer", "nopk", "badCoins", "rest"} # {} THEN {"MODEL"} ELSE {})

ResetTags(e) ==
    IfTag(Inv_C21(e.st), "C21") \cup IfTag(Inv_C19_Pool(e.st, 0), "C19")

\* ---- ghosts ----------------------------------------------------------------------
RECURSIVE MaxEnds(_, _, _)
MaxEnds(f, sg, todo) ==
    IF todo = {} THEN f
    ELSE LET n == CHOOSE x \in todo : TRUE IN
         MaxEnds(IF sg[n].jailedUntil > At(f, n, 0) THEN Put(f, n, sg[n].jailedUntil) ELSE f, sg, todo \ {n})
Restrict(f, S) == [x \in DOMAIN f \cap S |-> f[x]]

DonatedNext(e) ==
    IF e.ev = "reset" THEN 0
    ELSE IF e.ev = "DeliverTx" /\ e.tx.kind = "send" /\ e.tx.to = NODEPOOL /\ e.res.code = 0 THEN donated + e.tx.amount
    ELSE donated
JailEndNext(e) ==
    IF e.ev = "reset" THEN NoNodes
    ELSE IF e.ev = "BeginBlock" THEN MaxEnds(jailEnd, e.st.signing, DOMAIN e.st.signing)
    ELSE IF e.ev = "EndBlock" THEN Restrict(jailEnd, DOMAIN e.st.val)
    ELSE jailEnd
EditedNext(pre, e) ==
    IF e.ev = "reset" THEN {}
    ELSE IF e.ev = "DeliverTx" /\ IsEdit(pre, e.tx) /\ pre.val[e.tx.node].jailed /\ e.res.code = 0 THEN editedJ \cup {e.tx.node}
    ELSE IF e.ev = "DeliverTx" /\ e.tx.kind = "node_unjail" /\ e.res.code = 0 THEN editedJ \ {e.tx.node}
    ELSE IF e.ev = "EndBlock" THEN {n \in editedJ : HasVal(e.st, n) /\ e.st.val[n].jailed}
    ELSE editedJ

\* ---- known findings reproduced by this trace (printed, never a verdict) ----------
KnownLines(pre, c, e) ==
    /\ (IF e.ev = "EndBlock" /\ donated > 0 /\ ~Inv_C19_Pool(e.st, 0) /\ Inv_C19_Pool(e.st, donated)
          THEN PrintT("KNOWN C19-donated") ELSE TRUE)
    /\ (IF e.ev = "DeliverTx" /\ UnjailMismatch(pre, c, e) /\ KnownEditBypass(e)
          THEN PrintT("KNOWN C25-editbypass") ELSE TRUE)
    /\ (IF e.ev = "DeliverTx" /\ UnjailMismatch(pre, c, e) /\ ~KnownEditBypass(e) /\ KnownWallClock(e)
          THEN PrintT("KNOWN C25-wallclock") ELSE TRUE)

RECURSIVE SetToSeq(_)
SetToSeq(S) == IF S = {} THEN <<>> ELSE LET x == CHOOSE y \in S : TRUE IN <<x>> \o SetToSeq(S \ {x})

TraceNext ==
    /\ l <= Len(Trace)
    /\ l' = l + 1
    /\ LET e    == Trace[l]
           pre  == IF l > 1 THEN Trace[l - 1].st ELSE e.st
           c    == Trace[cfgLine].cfg
           tags == CASE e.ev = "reset"      -> ResetTags(e)
                     [] e.ev = "BeginBlock" -> BeginTags(pre, c, e)
                     [] e.ev = "DeliverTx"  -> DeliverTags(pre, c, e)
                     [] e.ev = "Challenge"  -> ChallengeTags(pre, c, e)
                     [] e.ev = "EndBlock"   -> EndTags(pre, c, e)
           room == {tg \in tags : Cardinality({i \in 1..Len(err) : err[i][2] = tg}) < MaxPerTag}
           new  == [i \in 1..Cardinality(room) |-> <<l, SetToSeq(room)[i]>>]
       IN /\ cfgLine' = IF "cfg" \in DOMAIN e THEN l ELSE cfgLine
          /\ err' = err \o new
          /\ donated' = DonatedNext(e)
          /\ jailEnd' = JailEndNext(e)
          /\ editedJ' = EditedNext(pre, e)
          /\ (e.ev = "reset" \/ KnownLines(pre, c, e))

Tagged(tg) == \E i \in 1..Len(err) : err[i][2] = tg
C19_NodePoolExact            == ~Tagged("C19")
C21_IndexesAgreeWithRecords  == ~Tagged("C21")
C22_UpdatesMatchTopStaked    == ~Tagged("C22")
C23_EditStakeRules           == ~Tagged("C23")
C24_UnstakeOnceWhenDue       == ~Tagged("C24")
C25_SlashJailRules           == ~Tagged("C25")
NoErrs == err = <<>>
TraceAccepted == TLCGet("stats").diameter = Len(Trace) + 1
=============================================================================
