INIT TraceInit
NEXT TraceNext
INVARIANTS C37_Strict_SimulationLeavesTheScheduleAlone
POSTCONDITION TraceAccepted
CHECK_DEADLOCK FALSE
