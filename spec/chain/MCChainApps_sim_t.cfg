CONSTANTS MaxSteps = 99  Rich = FALSE  Variants = {1, 2, 3, 4}  Focus = "all"  SimDepth = 16
INIT Init
NEXT Next
CONSTRAINT SimBound
INVARIANTS C20_Design AppIndex_Design C28_Relays C28_Chains C24_NoOverdue SupplyOK EmitSim
PROPERTIES C28_Design C23_Design C24_Design Unauth_Design
CHECK_DEADLOCK FALSE
