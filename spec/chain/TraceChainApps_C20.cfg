INIT TraceInit
NEXT TraceNext
INVARIANTS C20_AppPoolHoldsExactlyTheStakes
POSTCONDITION TraceAccepted
CHECK_DEADLOCK FALSE
