----------------------------- MODULE ChainGov -----------------------------
(***************************************************************************)
(* Governance module (x/gov): parameter changes guarded by the access      *)
(* control list, DAO transfers / burns guarded by the DAO owner, upgrade    *)
(* messages (stored upgrade + the process-global activation map of          *)
(* codec/codec.go), the governance part of BeginBlock and process restart   *)
(* (app/app.go NewPocketCoreApp).  Written handler by handler, write by     *)
(* write (x/gov/handler.go, keeper/subspace.go, acl.go, dao.go).            *)
(*                                                                         *)
(* State fields owned by this module (projection: cmd/vh-chain-gov):       *)
(*   s.params    [ "subspace/key" -> raw stored value ]  every parameter   *)
(*               except the three below; values are opaque strings (long   *)
(*               ones are replaced by a digest)                            *)
(*   s.acl       [ "subspace/key" -> owner name ]          (gov/acl)       *)
(*   s.daoOwner  account name                               (gov/daoOwner) *)
(*   s.upg       [height, version, old, features]   the STORED upgrade     *)
(*               (gov/upgrade); features = sequence of <<key, height>> in  *)
(*               stored order                                              *)
(*   s.featMem   [feature key -> height]  codec.UpgradeFeatureMap of the   *)
(*               RUNNING PROCESS - not consensus state: it is rebuilt from  *)
(*               s.upg when the process restarts                           *)
(*   s.probe     [key -> heights of the probe grid at which the real       *)
(*               codec.IsAfterNamedFeatureActivationHeight answers true]   *)
(* plus s.bal / s.supply / s.nopk of ChainBase; DAO = the DAO module       *)
(* account.                                                                *)
(*                                                                         *)
(* Transactions (see ChainAuth): `from` is the declared signer.            *)
(*   change_param  key, val (raw value as it will be stored), valid (the   *)
(*                 bytes parse as the parameter's type), and - for the     *)
(*                 three governance keys - what the value means: newAcl,   *)
(*                 newOwner, newUpg                                        *)
(*   dao_transfer  to, amount        dao_burn  amount                      *)
(*   upgrade       upHeight, upVersion, upFeatures (<<key, height>> pairs  *)
(*                 in message order)                                       *)
(***************************************************************************)
EXTENDS ChainAuth

GovKinds == {"change_param", "dao_transfer", "dao_burn", "upgrade"}

EmptyFn == [x \in {} |-> 0]

\* the ante handler and the handlers consult the RUNNING process's activation map
CfgOf(c, s) == [c EXCEPT !.featMem = s.featMem]

\* ---- stateless validation (types/msg.go) ------------------------------------------
GovBasicOK(tx) ==
    CASE tx.kind = "change_param" -> TRUE                    \* key and value are never empty here
      [] tx.kind \in {"dao_transfer", "dao_burn"} -> tx.amount # 0
      [] tx.kind = "upgrade" -> tx.upHeight # 0 /\ tx.upVersion # ""
      [] OTHER -> tx.basicOK

GovAnteClass(s, c, tx, h) == AnteClass(s, CfgOf(c, s), [tx EXCEPT !.basicOK = GovBasicOK(tx)], h)

\* ---- access control (keeper/acl.go VerifyACL) --------------------------------------
\* a key without an ACL entry has the nil owner, which equals no sender
AclOwner(s, key) == At(s.acl, key, "")
AclOK(s, key, from) == from # "" /\ AclOwner(s, key) = from

\* ---- MsgChangeParam (keeper/subspace.go ModifyParam) --------------------------------
\* The result of Subspace.Update is DISCARDED by the code: an unparsable value signed by
\* the owner is reported as success and changes nothing.
ChangeParam(s, tx) ==
    IF ~AclOK(s, tx.key, tx.from) THEN [ok |-> FALSE, st |-> s]
    ELSE IF ~tx.valid THEN [ok |-> TRUE, st |-> s]
    ELSE [ok |-> TRUE, st |->
            CASE tx.key = "gov/acl"      -> [s EXCEPT !.acl = tx.newAcl]
              [] tx.key = "gov/daoOwner" -> [s EXCEPT !.daoOwner = tx.newOwner]
              \* named deviation ChangeParamUpgradeBypassesCodec: the stored upgrade is replaced
              \* verbatim and the process's activation map is NOT touched
              [] tx.key = "gov/upgrade"  -> [s EXCEPT !.upg = tx.newUpg]
              [] OTHER                   -> [s EXCEPT !.params = Put(@, tx.key, tx.val)]]

\* ---- MsgDAOTransfer (keeper/dao.go) -----------------------------------------------------
DaoTransfer(s, tx) ==
    IF s.daoOwner # tx.from THEN [ok |-> FALSE, st |-> s]
    ELSE IF tx.amount < 0 \/ BalOf(s, DAO) < tx.amount THEN [ok |-> FALSE, st |-> s]
    ELSE [ok |-> TRUE, st |-> Move(s, DAO, tx.to, tx.amount)]
DaoBurn(s, tx) ==
    IF s.daoOwner # tx.from THEN [ok |-> FALSE, st |-> s]
    ELSE IF tx.amount < 0 \/ BalOf(s, DAO) < tx.amount THEN [ok |-> FALSE, st |-> s]
    ELSE [ok |-> TRUE, st |-> Burn(s, DAO, tx.amount)]

\* ---- MsgUpgrade (keeper/subspace.go HandleUpgrade -> handleUpgradeAfterUpdate) -----------
\* Canonical order of the stored feature list: sort.Strings over "KEY:height" strings.  For
\* duplicate-free keys of which none is a prefix of another this is the byte order of the
\* keys; the keys used by any scenario are listed here in that order.
FeatKeyOrder == <<"AppTransfer", "BLOCK", "CRVAL", "F1", "F2", "MAXCH", "MREL", "NCUST", "OEDIT",
                  "PerChainRTTM", "REDUP", "REPBR", "RSCAL", "RewardDelegators", "VEDIT", "ZZ9">>
FeatKeys(fs) == {fs[i][1] : i \in 1..Len(fs)}
\* codec.SliceToMap: a later entry of the same key replaces an earlier one
FeatMapOf(fs) == [k \in FeatKeys(fs) |->
                    fs[CHOOSE i \in 1..Len(fs) : fs[i][1] = k /\ \A j \in (i + 1)..Len(fs) : fs[j][1] # k][2]]
RECURSIVE MapToSorted(_, _)
MapToSorted(m, order) ==
    IF order = <<>> THEN <<>>
    ELSE (IF Head(order) \in DOMAIN m THEN << <<Head(order), m[Head(order)]>> >> ELSE <<>>) \o MapToSorted(m, Tail(order))
\* codec.CleanUpgradeFeatureSlice
CleanFeatures(fs) == MapToSorted(FeatMapOf(fs), FeatKeyOrder)
KnownKeys(fs) == FeatKeys(fs) \subseteq {FeatKeyOrder[i] : i \in 1..Len(FeatKeyOrder)}
\* codec.SliceToExistingMap
MergeInto(fs, m) == LET fm == FeatMapOf(fs) IN
                    [k \in DOMAIN m \cup DOMAIN fm |-> IF k \in DOMAIN fm THEN fm[k] ELSE m[k]]

\* the probe field mirrors the process's map: ascending heights of the grid at which a key is active
ProbeGrid == 1..14
ProbeSeq(m, k) == LET a == At(m, k, 0) IN
                  IF a = 0 \/ a > 14 THEN <<>>
                  ELSE LET lo == IF a < 1 THEN 1 ELSE a IN [i \in 1..(14 - lo + 1) |-> lo + i - 1]
WithMap(s, m) == [s EXCEPT !.featMem = m, !.probe = [k \in DOMAIN @ |-> ProbeSeq(m, k)]]

FeatureOnly(tx) == tx.upHeight = 1 \/ tx.upVersion = "FEATURE"

Upgrade(s, tx) ==
    IF ~AclOK(s, "gov/upgrade", tx.from) THEN [ok |-> FALSE, st |-> s]
    ELSE LET old    == s.upg
             merged == CleanFeatures(old.features \o tx.upFeatures)
             new    == IF ~FeatureOnly(tx)
                         THEN [height |-> tx.upHeight, version |-> tx.upVersion, old |-> old.height, features |-> merged]
                         ELSE [old EXCEPT !.features = merged]       \* height, version, old height are kept
         IN [ok |-> TRUE,
             st |-> WithMap([s EXCEPT !.upg = new], MergeInto(new.features, s.featMem))]

\* ---- DeliverTx ------------------------------------------------------------------------------
GovHandle(s, tx) ==
    CASE tx.kind = "change_param" -> ChangeParam(s, tx)
      [] tx.kind = "dao_transfer" -> DaoTransfer(s, tx)
      [] tx.kind = "dao_burn"     -> DaoBurn(s, tx)
      [] tx.kind = "upgrade"      -> Upgrade(s, tx)

GovDeliver(s, c, tx, h) ==
    IF GovAnteClass(s, c, tx, h) # "ok" THEN s ELSE GovHandle(ChargeFee(s, tx), tx).st
GovDeliverOK(s, c, tx, h) ==
    GovAnteClass(s, c, tx, h) = "ok" /\ GovHandle(ChargeFee(s, tx), tx).ok

\* ---- BeginBlock, governance part (x/gov/module.go activateAdditionalParametersACL) ------------
\* on the activation height of three features the DAO owner becomes the owner of the
\* parameters those features introduce (the version gate is kept satisfied by the scenarios)
AclExtensions == << <<"BLOCK", <<"pocketcore/BlockByteSize">> >>,
                    <<"RSCAL", <<"pos/ServicerStakeFloorMultiplier", "pos/ServicerStakeWeightMultiplier",
                                "pos/ServicerStakeWeightCeiling", "pos/ServicerStakeFloorMultiplierExponent">> >>,
                    <<"PerChainRTTM", <<"pos/RelaysToTokensMultiplierMap">> >> >>
RECURSIVE SetOwners(_, _, _)
SetOwners(acl, keys, owner) == IF keys = <<>> THEN acl ELSE SetOwners(Put(acl, Head(keys), owner), Tail(keys), owner)
RECURSIVE ExtendAcl(_, _, _)
ExtendAcl(s, exts, h) ==
    IF exts = <<>> THEN s
    ELSE LET e  == Head(exts)
             s1 == IF At(s.featMem, e[1], 0) # 0 /\ At(s.featMem, e[1], 0) = h
                     THEN [s EXCEPT !.acl = SetOwners(@, e[2], s.daoOwner)] ELSE s
         IN ExtendAcl(s1, Tail(exts), h)
GovBeginBlock(s, h) == ExtendAcl(s, AclExtensions, h)

\* ---- process restart (app/app.go NewPocketCoreApp) ---------------------------------------------
\* The activation map of a new process starts empty and is restored from the stored upgrade
\* ONLY IF its height is non-zero.
RestartAsCoded(s)   == WithMap(s, IF s.upg.height # 0 THEN MergeInto(s.upg.features, EmptyFn) ELSE EmptyFn)
\* what the property asks for: the schedule derived from state
RestartFromState(s) == WithMap(s, MergeInto(s.upg.features, EmptyFn))
\* Known finding F-C37: features stored while the stored upgrade height is 0 are lost on restart
Known_C37_HeightZero(s) == s.upg.height = 0 /\ s.upg.features # <<>>
\* outcomes the model admits: the coded one; on the known pattern also the conforming one, so
\* that a tree with the fix applied is accepted by the same specification
RestartOutcomes(s) == IF Known_C37_HeightZero(s) THEN {RestartAsCoded(s), RestartFromState(s)} ELSE {RestartAsCoded(s)}

\* ---- the probe: what codec.IsAfterNamedFeatureActivationHeight answers -------------------------
ProbeOf(s, k) == {h \in ProbeGrid : At(s.featMem, k, 0) # 0 /\ h >= At(s.featMem, k, 0)}
Inv_ProbeMatchesMap(s) == \A k \in DOMAIN s.probe : SeqToSet(s.probe[k]) = ProbeOf(s, k)

-----------------------------------------------------------------------------
GovFocus(x) == [bal |-> x.bal, supply |-> x.supply, nopk |-> x.nopk, daoOwner |-> x.daoOwner, upg |-> x.upg,
                featMem |-> x.featMem, probe |-> x.probe, params |-> x.params, acl |-> x.acl]
GovOnlyFee(pre, tx, post) == GovFocus(post) = GovFocus(ChargeFee(pre, tx))

(***************************************************************************)
(* C36 in its own words (pre / post around one DeliverTx of an             *)
(* authenticated transaction; ok = message success)                        *)
(***************************************************************************)
Step_C36_Param(pre, tx, post) ==
    tx.kind = "change_param" =>
      IF AclOwner(pre, tx.key) = tx.from /\ tx.valid
        THEN \* exactly that parameter takes the new value; nothing else but the fee
             LET fee == ChargeFee(pre, tx) IN
             CASE tx.key = "gov/acl"      -> GovFocus(post) = GovFocus([fee EXCEPT !.acl = tx.newAcl])
               [] tx.key = "gov/daoOwner" -> GovFocus(post) = GovFocus([fee EXCEPT !.daoOwner = tx.newOwner])
               [] tx.key = "gov/upgrade"  -> GovFocus(post) = GovFocus([fee EXCEPT !.upg = tx.newUpg])
               [] OTHER -> /\ post.params[tx.key] = tx.val
                           /\ \A k \in DOMAIN pre.params \ {tx.key} : post.params[k] = pre.params[k]
                           /\ DOMAIN post.params = DOMAIN pre.params
                           /\ GovFocus([post EXCEPT !.params = pre.params]) = GovFocus(fee)
        ELSE GovOnlyFee(pre, tx, post)

Step_C36_Dao(pre, tx, post, ok) ==
    tx.kind \in {"dao_transfer", "dao_burn"} =>
      /\ ok <=> (tx.from = pre.daoOwner /\ tx.amount > 0 /\ tx.amount <= BalOf(pre, DAO))
      /\ ok => LET fee == ChargeFee(pre, tx) IN
               IF tx.kind = "dao_transfer"
                 THEN /\ BalOf(post, DAO) = BalOf(fee, DAO) - tx.amount
                      /\ BalOf(post, tx.to) = BalOf(fee, tx.to) + tx.amount
                      /\ post.supply = pre.supply
                      /\ \A a \in DOMAIN fee.bal \ {DAO, tx.to} : BalOf(post, a) = BalOf(fee, a)
                 ELSE /\ BalOf(post, DAO) = BalOf(fee, DAO) - tx.amount
                      /\ post.supply = pre.supply - tx.amount
                      /\ \A a \in DOMAIN fee.bal \ {DAO} : BalOf(post, a) = BalOf(fee, a)
      /\ ok => /\ post.params = pre.params /\ post.acl = pre.acl /\ post.daoOwner = pre.daoOwner /\ post.upg = pre.upg
      /\ ~ok => GovOnlyFee(pre, tx, post)

Step_C36_Upgrade(pre, tx, post, ok) ==
    tx.kind = "upgrade" =>
      /\ ok <=> AclOwner(pre, "gov/upgrade") = tx.from
      /\ ~ok => GovOnlyFee(pre, tx, post)
      /\ ok => /\ post.bal = ChargeFee(pre, tx).bal /\ post.supply = pre.supply
               /\ post.params = pre.params /\ post.acl = pre.acl /\ post.daoOwner = pre.daoOwner

(***************************************************************************)
(* C37 in its own words                                                    *)
(***************************************************************************)
StoredHeight(s, k) == FeatMapOf(s.upg.features)[k]
Rank(k) == CHOOSE i \in 1..Len(FeatKeyOrder) : FeatKeyOrder[i] = k
\* the stored list has a canonical order and no duplicates
Inv_C37_Canonical(s) ==
    LET fs == s.upg.features IN
    /\ KnownKeys(fs)
    /\ \A i \in 1..(Len(fs) - 1) : Rank(fs[i][1]) < Rank(fs[i + 1][1])
\* every stored feature is active in the running process exactly from its stored height
Inv_C37_ActiveFromHeight(s) ==
    /\ \A k \in FeatKeys(s.upg.features) : At(s.featMem, k, 0) = StoredHeight(s, k)
    /\ \A k \in DOMAIN s.probe \cap FeatKeys(s.upg.features) :
         SeqToSet(s.probe[k]) = {h \in ProbeGrid : StoredHeight(s, k) # 0 /\ h >= StoredHeight(s, k)}
\* one successful upgrade message: named features get their heights, scheduled ones stay
Step_C37_Upgrade(pre, tx, post, ok) ==
    (tx.kind = "upgrade" /\ ok) =>
      LET named == FeatMapOf(tx.upFeatures) IN
      /\ FeatKeys(post.upg.features) = FeatKeys(pre.upg.features) \cup DOMAIN named
      /\ \A k \in DOMAIN named : StoredHeight(post, k) = named[k] /\ At(post.featMem, k, 0) = named[k]
      /\ \A k \in FeatKeys(pre.upg.features) \ DOMAIN named : StoredHeight(post, k) = StoredHeight(pre, k)
      \* in the process's map every stored feature is (re)set to its stored height, anything else stays
      /\ \A k \in DOMAIN pre.featMem \ DOMAIN named :
           /\ k \in DOMAIN post.featMem
           /\ post.featMem[k] = IF k \in FeatKeys(pre.upg.features) THEN StoredHeight(pre, k) ELSE pre.featMem[k]
      /\ Inv_C37_Canonical(post)
      /\ IF FeatureOnly(tx)
           THEN post.upg.height = pre.upg.height /\ post.upg.version = pre.upg.version /\ post.upg.old = pre.upg.old
           ELSE post.upg.height = tx.upHeight /\ post.upg.version = tx.upVersion /\ post.upg.old = pre.upg.height
\* a restarted node derives the same schedule from state
Step_C37_Restart(pre, post) ==
    /\ post.featMem = RestartFromState(pre).featMem
    /\ (\A k \in FeatKeys(pre.upg.features) : At(pre.featMem, k, 0) = StoredHeight(pre, k)) =>
         \A k \in FeatKeys(pre.upg.features) : At(post.featMem, k, 0) = At(pre.featMem, k, 0)
    /\ GovFocus([post EXCEPT !.featMem = pre.featMem, !.probe = pre.probe]) = GovFocus(pre)
=============================================================================
