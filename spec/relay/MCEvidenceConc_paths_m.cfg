CONSTANT Scenarios <- ScPathsMore
INIT Init
NEXT NextPaths

INVARIANTS C34_NoDuplicate C34_WithinMax C34_AnsweredRecorded
CHECK_DEADLOCK FALSE
