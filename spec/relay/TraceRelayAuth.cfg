INIT TraceInit
NEXT TraceNext
INVARIANTS C35_RelaysServedOnlyWithValidAuthorization
POSTCONDITION TraceAccepted
CHECK_DEADLOCK FALSE
