----------------------------- MODULE RelayAuth -----------------------------
(***************************************************************************)
(* C35 design model: sequences of relays (a well-formed relay with up to   *)
(* one, two or three altered fields) handled one                           *)
(* after the other by keeper.HandleRelay, over the evidence they leave     *)
(* behind (entropy reuse, the relay limit).  TLC enumerates every          *)
(* transition; each is replayed on the real HandleRelay with really signed *)
(* tokens and proofs (harness/cmd/vh-relay replay-auth).                   *)
(***************************************************************************)
EXTENDS RelayAuthOps, TLC, Json

CONSTANTS MaxSteps,      \* relays per behaviour
          Alterations    \* a well-formed relay with up to this many altered fields (1, 2 or 3)

VARIABLES ev,            \* evidence per session header
          tol,           \* client session sync allowance of the node (constant in a behaviour)
          n,
          hist

vars == <<ev, tol, n, hist>>
view == <<ev, tol, n>>

Relays == CASE Alterations = 1 -> Singles [] Alterations = 2 -> Pairs [] Alterations = 3 -> Triples

Init == ev = InitEvidence /\ tol \in {0, 1} /\ n = 0 /\ hist = <<>>

\* d = the client first sends a dispatch request for the relay's application and chain to this node (an
\* unauthenticated call that makes the node compute - and keep in its session cache - the session of the
\* LATEST session height, whether or not the node belongs to it).  It must change nothing about the relay.
Handle(r, d) ==
    LET o == Outcome(r, ev, tol) IN
    /\ n < MaxSteps
    /\ ev' = After(r, ev, tol)
    /\ n' = n + 1
    /\ hist' = Append(hist, [relay |-> r, tol |-> tol, disp |-> d, out |-> o, served |-> o = "ok",
                             authorized |-> Authorized(r, tol), known |-> Known_C35_UnstakingApp(r, tol),
                             ev |-> EvView(ev', r), total |-> Total(ev')])
    /\ UNCHANGED tol

Next == \E r \in Relays : \E d \in (IF r.sbh = LatestSession THEN BOOLEAN ELSE {FALSE}) : Handle(r, d)
NextCover == Next /\ PrintT(ToJson(hist'))
Spec == Init /\ [][Next]_vars

-----------------------------------------------------------------------------
Last == hist[Len(hist)]
\* served only if authorized -- as stated (TLC finds the unstaking application) ...
C35_ServedOnlyIfAuthorized_AsStated == hist # <<>> => (Last.served => Last.authorized)
\* ... and outside the known finding: must hold
C35_ServedOnlyIfAuthorized == hist # <<>> => (Last.served => Last.authorized \/ Last.known)
\* a rejected relay records nothing; a served one records exactly its proof
C35_RecordedIffServed ==
    [][LET e == hist'[Len(hist')] IN Total(ev') = Total(ev) + (IF e.served THEN 1 ELSE 0)]_vars
\* the converse (every authorized relay is served unless the evidence is sealed / it is a repeat): not
\* part of the property, checked as a sanity condition of the model
AuthorizedIsServedUnlessEvidenceSaysNo ==
    hist # <<>> => (Last.authorized => Last.out \in {"ok", "sealed", "dup"})
=============================================================================
