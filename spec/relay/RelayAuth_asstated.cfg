CONSTANTS MaxSteps = 1 Alterations = 1
INIT Init
NEXT Next
VIEW view
INVARIANTS C35_ServedOnlyIfAuthorized_AsStated
CHECK_DEADLOCK FALSE
