CONSTANTS MaxSteps = 5 Alterations = 1
INIT Init
NEXT NextCover
VIEW view
INVARIANTS C35_ServedOnlyIfAuthorized AuthorizedIsServedUnlessEvidenceSaysNo
PROPERTIES C35_RecordedIffServed
CHECK_DEADLOCK FALSE
