CONSTANT Scenarios <- ScCoverMore
INIT Init
NEXT NextCover
VIEW view
INVARIANTS C34_NoDuplicate C34_WithinMax C34_AnsweredRecorded
CHECK_DEADLOCK FALSE
