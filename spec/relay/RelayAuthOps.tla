---------------------------- MODULE RelayAuthOps ----------------------------
(***************************************************************************)
(* C35: which relays keeper.HandleRelay serves.  Variable-free: the design *)
(* model (RelayAuth) and the trace specification (TraceRelayAuth) both run *)
(* these operators.                                                        *)
(*                                                                         *)
(* A relay is described by the way it differs from a well-formed one.      *)
(* The world (harness/cmd/vh-relay/env.go): the node is handled at height  *)
(* CtxH = 10, 4 blocks per session (sessions start at 1, 5, 9), session    *)
(* node count 1, default client block sync allowance 10; client session    *)
(* sync allowance tol in {0, 1}.                                           *)
(*   chains  c1  hosted, THIS node is the only node staked for it          *)
(*           c2  hosted, only another node is staked for it                *)
(*           c3  hosted, this node staked, no application staked for it    *)
(*           c4  not hosted by this node                                   *)
(*   apps    a1  staked for {c1, c2}, 2 relays per chain and node          *)
(*           a2  staked for {c1}, began unstaking at height 3 (its record  *)
(*               exists with status unstaking at every session height used)*)
(*           none  a key that never staked an application                  *)
(***************************************************************************)
EXTENDS Integers, Sequences, FiniteSets

CtxH == 10
B    == 4
LatestSession == 9
BlockAllowance == 10

Hosted == {"c1", "c2", "c3"}
AppStatus(a) == CASE a = "a1" -> "staked" [] a = "a2" -> "unstaking" [] OTHER -> "none"
AppChains(a) == CASE a = "a1" -> {"c1", "c2"} [] a = "a2" -> {"c1"} [] OTHER -> {}
MaxRelays(a) == 2
NodeInSession(chain) == chain = "c1"     \* session node count 1: the only node staked for the chain

\* domain of every field; the first value of Base is the well-formed one
FieldDom ==
    [payload   |-> {"ok", "empty"},
     metaH     |-> {CtxH, CtxH + BlockAllowance, CtxH + BlockAllowance + 1, CtxH - BlockAllowance, CtxH - BlockAllowance - 1},
     reqHash   |-> {"ok", "tampered"},           \* payload replaced after the request hash was computed
     chain     |-> {"c1", "c2", "c3", "c4"},
     sbh       |-> {9, 5, 1, 13, 0, 6},          \* latest session, previous, two back, next, zero, not a session start
     app       |-> {"a1", "a2", "none"},         \* whose public key the token carries (and who signs it)
     tokVer    |-> {"ok", "missing", "unsupported"},
     tokSig    |-> {"ok", "corrupt", "otherkey"}, \* application signature: valid / one bit flipped / made by the client key
     tokClient |-> {"signer", "other"},          \* the token names the key that signs the proof / another key
     proofSig  |-> {"ok", "corrupt", "empty"},
     servicer  |-> {"self", "othernode", "nonnode", "malformed"},
     entropy   |-> {1, 2, -5}]

Base == [payload |-> "ok", metaH |-> CtxH, reqHash |-> "ok", chain |-> "c1", sbh |-> LatestSession, app |-> "a1",
         tokVer |-> "ok", tokSig |-> "ok", tokClient |-> "signer", proofSig |-> "ok", servicer |-> "self", entropy |-> 1]

Fields == DOMAIN FieldDom
Alter(S) == UNION {{[b EXCEPT ![f] = v] : v \in FieldDom[f]} : b \in S, f \in Fields}
Singles == Alter({Base})          \* the well-formed relay and every relay with one altered field
Pairs   == Alter(Singles)         \* ... with up to two altered fields
Triples == Alter(Pairs)           \* ... with up to three altered fields

\* evidence is kept per session header
HeaderOf(r) == <<r.app, r.chain, r.sbh>>
Headers == {<<a, c, h>> : a \in FieldDom.app, c \in FieldDom.chain, h \in FieldDom.sbh}
NoEvidence == [ids |-> <<>>, sealed |-> FALSE]
InitEvidence == [h \in Headers |-> NoEvidence]

\* what the proof hash covers besides the header (RelayProof.Bytes: entropy, request hash
\* = hash of payload AND meta, servicer key, token hash = version + both keys; NOT the signatures)
Identity(r) == <<r.entropy, r.metaH, r.servicer, r.tokVer, r.tokClient>>
SeqRange(s) == {s[i] : i \in 1..Len(s)}

HeightWithinTolerance(r, tol) == r.sbh > 0 /\ r.sbh >= LatestSession - tol * B /\ r.sbh <= LatestSession

\* GetEvidence seals an evidence that has reached the limit the moment anybody looks at it
SealedWhenRead(e, r) == e.sealed \/ Len(e.ids) >= MaxRelays(r.app)

(***************************************************************************)
(* keeper.HandleRelay + Relay.Validate + RelayProof.ValidateLocal /        *)
(* ValidateBasic + AAT.Validate + Session.Validate, in the code's order.   *)
(* Note the order: the evidence checks (sealed, duplicate, over service)   *)
(* come BEFORE any signature is verified, and the application is looked up *)
(* by address without reading its status (UnstakingAppServed).             *)
(***************************************************************************)
Outcome(r, ev, tol) ==
    LET e == ev[HeaderOf(r)] IN
    IF ~HeightWithinTolerance(r, tol) THEN "height"                 \* IsProofSessionHeightWithinTolerance
    ELSE IF r.payload = "empty" THEN "payload"                      \* Payload.Validate
    ELSE IF r.metaH > CtxH + BlockAllowance \/ r.metaH < CtxH - BlockAllowance THEN "sync"   \* Meta.Validate
    ELSE IF r.reqHash # "ok" THEN "reqhash"
    ELSE IF r.chain \notin Hosted THEN "nothosted"
    ELSE IF AppStatus(r.app) = "none" THEN "noapp"                  \* GetAppFromPublicKey at the session height
    ELSE IF SealedWhenRead(e, r) THEN "sealed"
    ELSE IF Identity(r) \in SeqRange(e.ids) THEN "dup"
    ELSE IF Len(e.ids) >= MaxRelays(r.app) THEN "over"              \* unreachable: sealed first
    \* RelayProof.ValidateLocal -> ValidateBasic
    ELSE IF r.servicer = "malformed" THEN "pkdecode"
    ELSE IF r.entropy < 0 THEN "entropy"
    ELSE IF r.tokVer # "ok" \/ r.tokSig # "ok" THEN "token"         \* AAT.Validate: version, keys, application signature
    ELSE IF r.proofSig = "empty" THEN "sigsize"
    ELSE IF r.proofSig = "corrupt" \/ r.tokClient # "signer" THEN "sig"   \* verified against the client key in the token
    ELSE IF r.servicer # "self" THEN "servicer"                     \* proof must name this node
    ELSE IF r.chain \notin AppChains(r.app) THEN "appchain"
    ELSE IF ~NodeInSession(r.chain) THEN "session"                  \* Session.Validate: node not selected
    ELSE "ok"

ReachesEvidence(o) == o \notin {"height", "payload", "sync", "reqhash", "nothosted", "noapp"}

\* evidence after handling r: the proof is appended iff the relay is served; a read at the
\* limit seals (also when the relay is then rejected)
After(r, ev, tol) ==
    LET o == Outcome(r, ev, tol)
        h == HeaderOf(r)
    IN IF ~ReachesEvidence(o) THEN ev
       ELSE [ev EXCEPT ![h] = [ids    |-> IF o = "ok" THEN Append(@.ids, Identity(r)) ELSE @.ids,
                               sealed |-> SealedWhenRead(@, r)]]

EvView(ev, r) == [n |-> Len(ev[HeaderOf(r)].ids), sealed |-> ev[HeaderOf(r)].sealed]
Total(ev) == LET RECURSIVE Sum(_)
                 Sum(S) == IF S = {} THEN 0 ELSE LET x == CHOOSE y \in S : TRUE IN Len(ev[x].ids) + Sum(S \ {x})
             IN Sum(Headers)

-----------------------------------------------------------------------------
(***************************************************************************)
(* C35 in the property's own words.                                        *)
(***************************************************************************)
TokenBySignedStakedApp(r) == r.tokVer = "ok" /\ r.tokSig = "ok" /\ AppStatus(r.app) = "staked"
ProofByNamedClient(r)     == r.proofSig = "ok" /\ r.tokClient = "signer"
HashMatchesPayload(r)     == r.reqHash = "ok" /\ r.payload = "ok"
ServicerInSession(r)      == r.servicer = "self" /\ r.chain \in AppChains(r.app) /\ NodeInSession(r.chain)
HeightsWithinTolerance(r, tol) ==
    HeightWithinTolerance(r, tol) /\ r.metaH <= CtxH + BlockAllowance /\ r.metaH >= CtxH - BlockAllowance

Authorized(r, tol) ==
    TokenBySignedStakedApp(r) /\ ProofByNamedClient(r) /\ HashMatchesPayload(r) /\ ServicerInSession(r) /\ HeightsWithinTolerance(r, tol)

\* known finding F-C35-unstaking-app: everything is in order except that the application is unstaking
Known_C35_UnstakingApp(r, tol) ==
    AppStatus(r.app) = "unstaking" /\ Authorized([r EXCEPT !.app = "a1"], tol) /\ r.chain \in AppChains(r.app)
=============================================================================
