---------------------------- MODULE EvidenceConc ----------------------------
(***************************************************************************)
(* C34 design model: concurrent relays for one session (processes = the    *)
(* goroutines running keeper.HandleRelay, interleaved at the code's        *)
(* scheduling points) racing with claim passes (SendClaimTx), over the     *)
(* evidence store of EvidenceOps.  TLC enumerates EVERY interleaving of    *)
(* the scenarios; each one is printed as a history and replayed on the     *)
(* real HandleRelay with gated goroutines (harness/cmd/vh-relay).          *)
(***************************************************************************)
EXTENDS EvidenceOps, TLC, Json

CONSTANTS Scenarios      \* set of [proofs, max, pre, claims]

VARIABLES sc,            \* the scenario of this behaviour
          m,             \* the relay machine (EvidenceOps.InitMachine)
          claimsLeft,
          hist           \* one record per step, for the replay

vars == <<sc, m, claimsLeft, hist>>
view == <<sc, m, claimsLeft>>

Entry(M2, op, r) ==
    LET v == View(M2.S) IN
    [op |-> op, r |-> r, out |-> Out(M2, op, r), view |-> v, claimed |-> M2.claimed,
     ans |-> M2.ans, dropped |-> M2.dropped, kdup |-> M2.raceDup, kerased |-> M2.erased, krevived |-> M2.revived,
     \* the property evaluated by the model on its own state (the harness evaluates it on the real one)
     dups |-> DupProofs(v.proofs), over |-> ~WithinMax(v, sc), missing |-> Missing(M2, sc, v.proofs)]

Init ==
    /\ sc \in Scenarios
    /\ m = InitMachine(sc)
    /\ claimsLeft = sc.claims
    /\ hist = <<[op |-> "cfg", proofs |-> sc.proofs, max |-> sc.max, pre |-> sc.pre, claims |-> sc.claims,
                 view |-> View(PreStore(sc.pre, sc.max))]>>

Do(op, r) ==
    /\ Enabled(m, op, r)
    /\ m' = Step(m, sc, op, r)
    /\ hist' = Append(hist, Entry(m', op, r))
    /\ UNCHANGED sc

RelayStep == \E r \in Relays(sc), op \in {"V", "L", "S", "R"} : Do(op, r) /\ UNCHANGED claimsLeft
ClaimStep == claimsLeft > 0 /\ Do("C", 0) /\ claimsLeft' = claimsLeft - 1

Next == RelayStep \/ ClaimStep
Spec == Init /\ [][Next]_vars

Terminal == claimsLeft = 0 /\ \A r \in Relays(sc) : m.pc[r] = "done"

\* behaviour generation: every complete interleaving (no VIEW: hist is part of the state)
NextPaths == Next /\ (Terminal' => PrintT(ToJson(hist')))
\* behaviour generation: every transition of the state graph once (VIEW view)
NextCover == Next /\ PrintT(ToJson(hist'))

-----------------------------------------------------------------------------
V == View(m.S)
\* the property as stated: TLC is expected to find counterexamples (validate-then-store and
\* get-modify-set are not atomic); they count only when reproduced on the real code
C34_NoDuplicate_AsStated      == NoDuplicateStrict(V)
C34_AnsweredRecorded_AsStated == AnsweredRecordedStrict(m, sc, V)
C34_WithinMax_AsStated        == WithinMax(V, sc)
\* the property outside the known race shapes (known_findings.json F-C34-a, -b, -c): must hold
C34_NoDuplicate      == NoDuplicate(m, V)
C34_WithinMax        == WithinMaxKnown(m, sc, V)
C34_AnsweredRecorded == AnsweredRecorded(m, sc, V)
\* "a sealed evidence never changes again": not an invariant of the code -- a relay that loaded
\* before the sealing overwrites a slot of the sealed value through the shared backing array
\* (scenario <<1, 2, 3>>, max 4, pre 3; part of F-C34-b).  Kept as a probe, in no cfg.
SealedFrozen_Probe == [][m.S.sealed /\ m.S'.sealed => View(m.S').proofs = View(m.S).proofs]_vars
=============================================================================
