INIT TraceInit
NEXT TraceNext
INVARIANTS C34_EvidenceExactUnderConcurrentRelays
POSTCONDITION TraceAccepted
CHECK_DEADLOCK FALSE
