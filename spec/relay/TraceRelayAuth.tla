--------------------------- MODULE TraceRelayAuth ---------------------------
(***************************************************************************)
(* Trace validation for C35: `vh-relay trace-auth` sends random relays (a  *)
(* well-formed relay with 0..3 randomly altered fields, several per run,   *)
(* repeats included) to the real keeper.HandleRelay and logs the outcome   *)
(* and the evidence of the relay's session header.  Every event is         *)
(* re-executed with the operators of RelayAuthOps on the specification's   *)
(* own evidence state.                                                     *)
(* Events: [op |-> "reset", tol], [op |-> "relay", relay, out, served,     *)
(*          ev |-> [n, sealed], total], [op |-> "skip", ...] (bloom filter *)
(*          false positive: the rest of the run is not judged).            *)
(***************************************************************************)
EXTENDS RelayAuthOps, TLC, IOUtils, Json

Trace == ndJsonDeserialize(IOEnv.TRACE_FILE)

VARIABLES l, ev, tol, skipping,
          err,      \* <<line, what>> of the first disagreement
          kn        \* relays served to the unstaking application (known finding)

tvars == <<l, ev, tol, skipping, err, kn>>

TraceInit == l = 1 /\ ev = InitEvidence /\ tol = 0 /\ skipping = FALSE /\ err = <<>> /\ kn = 0

Judge(e, ev2) ==
    LET r == e.relay
        o == Outcome(r, ev, tol)
    IN IF e.served # (o = "ok") THEN
            IF e.served THEN "C35 relay served, the specification rejects it" ELSE "C35 relay rejected, the specification serves it"
       ELSE IF e.served /\ ~Authorized(r, tol) /\ ~Known_C35_UnstakingApp(r, tol) THEN "C35 relay served without valid authorization"
       ELSE IF e.ev.n # EvView(ev2, r).n \/ e.total # Total(ev2) THEN "C35 stored proofs differ (recorded iff served)"
       ELSE IF e.ev.sealed # EvView(ev2, r).sealed THEN "C35 conformance: sealed flag"
       ELSE IF e.out # o THEN "conformance: rejection reason"
       ELSE ""

TraceNext ==
    /\ l <= Len(Trace)
    /\ l' = l + 1
    /\ LET e == Trace[l] IN
       IF e.op = "reset"
         THEN ev' = InitEvidence /\ tol' = e.tol /\ skipping' = FALSE /\ UNCHANGED <<err, kn>>
       ELSE IF e.op = "skip" \/ skipping \/ err # <<>>
         THEN skipping' = TRUE /\ UNCHANGED <<ev, tol, err, kn>>
       ELSE /\ ev' = After(e.relay, ev, tol)
            /\ LET j == Judge(e, ev') IN err' = IF j = "" THEN err ELSE <<l, j>>
            /\ kn' = kn + (IF e.served /\ Known_C35_UnstakingApp(e.relay, tol) THEN 1 ELSE 0)
            /\ UNCHANGED <<tol, skipping>>
    /\ (l' = Len(Trace) + 1 => PrintT(<<"C35-known", kn'>>))

TraceSpec == TraceInit /\ [][TraceNext]_tvars

C35_RelaysServedOnlyWithValidAuthorization == err = <<>>
TraceAccepted == TLCGet("stats").diameter = Len(Trace) + 1
=============================================================================
