------------------------- MODULE TraceEvidenceConc -------------------------
(***************************************************************************)
(* Trace validation for C34.  The harness (vh-relay trace-conc) runs       *)
(* concurrent relays on the real keeper.HandleRelay under a seeded random  *)
(* scheduler that decides, at every scheduling point of the code, which    *)
(* goroutine proceeds, and injects claim passes (the real SendClaimTx).    *)
(* It logs one event per step: the step, the point / reply the goroutine   *)
(* announced and the projection of the stored evidence.  This module       *)
(* re-executes every event with the operators of EvidenceOps (the same     *)
(* ones the design model EvidenceConc runs): the announced point, the      *)
(* reply and the stored evidence must be the specification's, and the      *)
(* property C34 is evaluated on the LOGGED evidence.                       *)
(* Events: [op |-> "reset", proofs, max, pre, view]                        *)
(*         [op |-> "V"|"L"|"S"|"R"|"C", r, out, view, claimed]             *)
(***************************************************************************)
EXTENDS EvidenceOps, TLC, IOUtils, Json

Trace == ndJsonDeserialize(IOEnv.TRACE_FILE)

VARIABLES l,      \* next event
          sc,     \* scenario of the current run
          m,      \* the specification's relay machine
          err,    \* <<line, what>> of the first disagreement
          kn      \* numbers of logged states with <<a duplicate, a lost relay, more proofs than allowed>> inside the known shapes

tvars == <<l, sc, m, err, kn>>

NoScenario == [proofs |-> <<>>, max |-> 1, pre |-> 0]

TraceInit == l = 1 /\ sc = NoScenario /\ m = InitMachine(NoScenario) /\ err = <<>> /\ kn = <<0, 0, 0>>

ViewEq(lv, v) ==
    /\ lv.found = v.found /\ lv.cached = v.cached /\ lv.num = v.num /\ lv.cap = v.cap /\ lv.sealed = v.sealed
    /\ lv.proofs = v.proofs
    /\ SeqRange(lv.bloom) = v.bloom

\* first disagreement of event e (line n) with the specification, "" if none
Judge(e, M2) ==
    LET lv == e.view IN
    IF e.out # Out(M2, e.op, e.r) THEN "C34 conformance: announced point / reply"
    ELSE IF ~ViewEq(lv, View(M2.S)) THEN "C34 conformance: stored evidence"
    ELSE IF e.op = "C" /\ e.claimed # M2.claimed THEN "C34 conformance: claimed proofs"
    ELSE IF ~NoDuplicate(M2, lv) THEN "C34 duplicate proof in the stored evidence"
    ELSE IF ~WithinMaxKnown(M2, sc, lv) THEN "C34 more proofs than the application allows"
    ELSE IF ~AnsweredRecorded(M2, sc, lv) THEN "C34 answered relay not recorded"
    ELSE ""

TraceNext ==
    /\ l <= Len(Trace)
    /\ l' = l + 1
    /\ LET e == Trace[l] IN
       IF e.op = "reset"
         THEN LET s2 == [proofs |-> e.proofs, max |-> e.max, pre |-> e.pre]
                  M2 == InitMachine(s2)
              IN /\ sc' = s2 /\ m' = M2 /\ kn' = kn
                 /\ err' = IF err = <<>> /\ ~ViewEq(e.view, View(M2.S)) THEN <<l, "C34 conformance: evidence after the earlier relays">> ELSE err
         ELSE IF err # <<>> THEN UNCHANGED <<sc, m, err, kn>>
         ELSE IF ~((e.op = "C" /\ e.r = 0) \/ (e.op \in {"V", "L", "S", "R"} /\ e.r \in Relays(sc))) \/ ~Enabled(m, e.op, e.r)
           THEN err' = <<l, "C34 conformance: step not enabled in the specification">> /\ UNCHANGED <<sc, m, kn>>
         ELSE /\ m' = Step(m, sc, e.op, e.r) /\ sc' = sc
              /\ LET j == Judge(e, m') IN err' = IF j = "" THEN err ELSE <<l, j>>
              /\ kn' = <<kn[1] + (IF DupProofs(e.view.proofs) # {} THEN 1 ELSE 0),
                         kn[2] + (IF Missing(m', sc, e.view.proofs) # {} THEN 1 ELSE 0),
                         kn[3] + (IF ~WithinMax(e.view, sc) THEN 1 ELSE 0)>>
    /\ (l' = Len(Trace) + 1 => PrintT(<<"C34-known", kn'[1], kn'[2], kn'[3]>>))

TraceSpec == TraceInit /\ [][TraceNext]_tvars

C34_EvidenceExactUnderConcurrentRelays == err = <<>>
TraceAccepted == TLCGet("stats").diameter = Len(Trace) + 1
=============================================================================
