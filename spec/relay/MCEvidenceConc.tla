--------------------------- MODULE MCEvidenceConc ---------------------------
(***************************************************************************)
(* Scenario sets for EvidenceConc.  proofs[r] = proof of relay r (equal    *)
(* numbers = identical relays), max = relays the application allows this   *)
(* node in the session, pre = proofs stored sequentially beforehand,       *)
(* claims = number of SendClaimTx passes racing with the relays.           *)
(***************************************************************************)
EXTENDS EvidenceConc

Sc(p, mx, pre, c) == [proofs |-> p, max |-> mx, pre |-> pre, claims |-> c]

\* two relays (identical / distinct), with and without a claim pass, at the limit and below
Two == { Sc(p, mx, pre, c) : p \in {<<1, 1>>, <<1, 2>>}, mx \in {1, 2, 3}, pre \in {0, 1}, c \in {0, 1} }
TwoValid == { s \in Two : s.pre < s.max }
\* two relays on an evidence whose slice has spare capacity (3 proofs in a 4-slot array)
TwoAliased == { Sc(p, 6, 3, c) : p \in {<<1, 1>>, <<1, 2>>}, c \in {0, 1, 2} }
\* ... where the slice gets full exactly when the limit is reached (the limit seals the very
\* object whose backing array the stale copies still share)
TwoAliased4 == { Sc(p, 4, 3, c) : p \in {<<1, 1>>, <<1, 2>>}, c \in {0, 1} }
\* three relays
Three(c) == { Sc(p, 2, 0, c) : p \in {<<1, 1, 1>>, <<1, 1, 2>>, <<1, 2, 3>>} }
ThreeMore(c) == { Sc(p, mx, pre, c) : p \in {<<1, 1, 2>>, <<1, 2, 3>>}, mx \in {3, 6}, pre \in {0, 3} } \ {Sc(<<1, 1, 2>>, 3, 3, c), Sc(<<1, 2, 3>>, 3, 3, c)}

\* quick tier
ScPathsQuick    == { s \in TwoValid : s.max <= 2 } \cup { s \in TwoAliased : s.claims <= 1 } \cup TwoAliased4
ScCoverQuick    == { Sc(<<1, 1, 2>>, 2, 0, 1), Sc(<<1, 2, 3>>, 4, 3, 0) }
\* thorough tier: the quick sets plus
ScPathsMore     == (TwoValid \cup TwoAliased) \ ScPathsQuick
ScCoverMore     == Three(1) \ ScCoverQuick
ScPathsThorough == Three(0) \cup { Sc(<<1, 1, 2>>, 3, 0, 0), Sc(<<1, 2, 3>>, 4, 3, 0) }
ScCoverThorough == Three(2) \cup ThreeMore(1)
ScSmoke         == {Sc(<<1, 1>>, 2, 0, 1), Sc(<<1, 2>>, 2, 0, 1)}
ScAsStated      == ScSmoke \cup {Sc(<<1, 2>>, 1, 0, 1)}
=============================================================================
