CONSTANT Scenarios <- ScAsStated
INIT Init
NEXT Next
VIEW view
INVARIANTS C34_NoDuplicate_AsStated C34_AnsweredRecorded_AsStated C34_WithinMax_AsStated
CHECK_DEADLOCK FALSE
