---------------------------- MODULE EvidenceOps ----------------------------
(***************************************************************************)
(* Relay evidence of ONE session header in a servicer's evidence store     *)
(* (x/pocketcore/types/cache.go, evidence.go), and the steps of            *)
(* keeper.HandleRelay / keeper.SendClaimTx that read and write it.         *)
(* Variable-free: the design model (EvidenceConc) and the trace            *)
(* specification (TraceEvidenceConc) both run these operators.             *)
(*                                                                         *)
(* What the code does, and is modelled as such:                            *)
(*  - CacheStorage = LRU layer in front of a db.  The LRU holds Evidence   *)
(*    VALUES (Go structs) whose Proofs slice and Bloom filter are          *)
(*    references: every copy handed out by Get shares the backing array    *)
(*    and the filter's bit set with the stored value (heap: arrs, blooms). *)
(*  - Get falls back to the db, unmarshals a FRESH object (new array, new  *)
(*    filter) and puts it in the LRU.  FlushToDB (done by the evidence     *)
(*    iterator of SendClaimTx) marshals the LRU value into the db and      *)
(*    empties the LRU.                                                     *)
(*  - GetEvidence seals the evidence as a side effect when it finds        *)
(*    NumOfProofs >= max ("if hit relay limit... Seal the evidence").      *)
(*  - Relay.Validate reads the evidence (sealed? unique? below max?) and   *)
(*    SetProof later does GetEvidence / AddProof / SetEvidence: three      *)
(*    separately locked accesses (check-then-act, get-modify-set).         *)
(*  - append(e.Proofs, p) writes in place when len < cap (capacities grow  *)
(*    0,1,2,4,8), so a stale copy can overwrite a slot of the stored one.  *)
(*  - CacheStorage.Set silently refuses to overwrite a sealed entry;       *)
(*    AddProof has already mutated the shared filter / array by then.      *)
(***************************************************************************)
EXTENDS Integers, Sequences, FiniteSets, SequencesExt

SeqRange(s) == {s[i] : i \in 1..Len(s)}

\* an Evidence value as held by a goroutine or by the LRU: slice header + filter reference
NoObj == [arr |-> 0, len |-> 0, num |-> 0, bloom |-> 0]

EmptyStore ==
    [cache  |-> [found |-> FALSE, e |-> NoObj],                                  \* LRU layer
     db     |-> [found |-> FALSE, proofs |-> <<>>, num |-> 0, bits |-> {}],      \* marshalled image
     arrs   |-> <<>>,     \* heap of backing arrays: [cap, el = written prefix]
     blooms |-> <<>>,     \* heap of bloom filters: set of proofs answered "present"
     sealed |-> FALSE]    \* SealMap has the session header

\* capacity after unmarshalling n proofs (ProofIs.FromProofI appends one by one to nil)
\* and after growing a full slice by one element (16-byte elements: 0,1,2,4,8,16)
Pow2Ceil(n) == IF n = 0 THEN 0 ELSE IF n = 1 THEN 1 ELSE IF n = 2 THEN 2
               ELSE IF n <= 4 THEN 4 ELSE IF n <= 8 THEN 8 ELSE 16
Grow(c) == IF c = 0 THEN 1 ELSE 2 * c

ElemsOf(S, e) == IF e.arr = 0 THEN <<>> ELSE SubSeq(S.arrs[e.arr].el, 1, e.len)
CapOf(S, e)   == IF e.arr = 0 THEN 0 ELSE S.arrs[e.arr].cap
BitsOf(S, b)  == IF b = 0 THEN {} ELSE S.blooms[b]

\* Evidence.UnmarshalObject of the db image: a fresh array and a fresh filter
Unmarshal(S) ==
    LET n  == Len(S.db.proofs)
        a  == IF n = 0 THEN 0 ELSE Len(S.arrs) + 1
        S1 == [S EXCEPT !.arrs   = IF n = 0 THEN @ ELSE Append(@, [cap |-> Pow2Ceil(n), el |-> S.db.proofs]),
                        !.blooms = Append(@, S.db.bits)]
    IN [S |-> S1, e |-> [arr |-> a, len |-> n, num |-> S.db.num, bloom |-> Len(S.blooms) + 1]]

\* CacheStorage.Get / GetWithoutLock
Get(S) ==
    IF S.cache.found THEN [S |-> S, found |-> TRUE, e |-> S.cache.e]
    ELSE IF S.db.found
      THEN LET u == Unmarshal(S)
           IN [S |-> [u.S EXCEPT !.cache = [found |-> TRUE, e |-> u.e]], found |-> TRUE, e |-> u.e]
      ELSE [S |-> S, found |-> FALSE, e |-> NoObj]

\* CacheStorage.Seal(object): mark the header and store the CALLER's copy
Seal(S, e) == IF S.sealed THEN S ELSE [S EXCEPT !.sealed = TRUE, !.cache = [found |-> TRUE, e |-> e]]

\* GetEvidence(header, RelayEvidence, max, store).  alloc = the caller keeps the value
\* (SetProof); otherwise a not-found result is the throw-away empty evidence (bloom 0).
GetEvidence(S, max, alloc) ==
    LET g == Get(S) IN
    IF ~g.found
      THEN IF alloc
             THEN [S |-> [g.S EXCEPT !.blooms = Append(@, {})], e |-> [NoObj EXCEPT !.bloom = Len(g.S.blooms) + 1]]
             ELSE [S |-> g.S, e |-> NoObj]
    ELSE IF g.S.sealed THEN [S |-> g.S, e |-> g.e]
    ELSE IF g.e.num >= max THEN [S |-> Seal(g.S, g.e), e |-> g.e]      \* relay limit hit: seal now
    ELSE [S |-> g.S, e |-> g.e]

\* the evidence part of Relay.Validate: GetTotalProofs, IsSealed, IsUniqueProof, over-service
ValidateEvidence(S, p, max) ==
    LET g == GetEvidence(S, max, FALSE)
        code == IF g.S.sealed THEN "sealed"
                ELSE IF p \in BitsOf(g.S, g.e.bloom) THEN "dup"
                ELSE IF g.e.num >= max THEN "over"
                ELSE "ok"
    IN [S |-> g.S, code |-> code]

\* Evidence.AddProof on a (possibly stale) copy: append, count, filter
AddProof(S, e, p) ==
    LET inPlace == e.arr # 0 /\ e.len < S.arrs[e.arr].cap
        a       == IF inPlace THEN e.arr ELSE Len(S.arrs) + 1
        arrs1   == IF inPlace
                     THEN [S.arrs EXCEPT ![e.arr].el = IF e.len + 1 <= Len(@) THEN [@ EXCEPT ![e.len + 1] = p]
                                                       ELSE Append(@, p)]
                     ELSE Append(S.arrs, [cap |-> Grow(CapOf(S, e)), el |-> Append(ElemsOf(S, e), p)])
    IN [S |-> [S EXCEPT !.arrs = arrs1, !.blooms = [@ EXCEPT ![e.bloom] = @ \cup {p}]],
        e |-> [arr |-> a, len |-> e.len + 1, num |-> e.num + 1, bloom |-> e.bloom]]

\* SetEvidence -> CacheStorage.Set: refused when an entry exists and the header is sealed
SetEvidence(S, e) ==
    LET g == Get(S) IN
    IF g.found /\ g.S.sealed THEN [S |-> g.S, stored |-> FALSE]
    ELSE [S |-> [g.S EXCEPT !.cache = [found |-> TRUE, e |-> e]], stored |-> TRUE]

\* pocketcore/MinimumNumberOfProofs of the harness chain.  (It cannot be 1: the merkle root
\* generator indexes out of range on a single leaf.)
MinProofs == 2

\* SendClaimTx restricted to this header (session over, claim not yet on chain, not mature):
\* EvidenceIterator flushes the LRU into the db and reads a fresh object; evidence below the
\* minimum is DELETED (entry and seal mark); otherwise GenerateMerkleRoot seals it, storing
\* that copy (and sorts the copy's proofs in place -- the view is a multiset for that reason).
\* total = claimed proofs (-1: no claim); dropped = proofs discarded with a deleted evidence.
Claim(S) ==
    LET S1 == IF S.cache.found
                THEN [S EXCEPT !.db = [found |-> TRUE, proofs |-> ElemsOf(S, S.cache.e), num |-> S.cache.e.num,
                                       bits |-> BitsOf(S, S.cache.e.bloom)],
                               !.cache = [found |-> FALSE, e |-> NoObj]]
                ELSE S
    IN IF ~S1.db.found \/ S1.db.num = 0 THEN [S |-> S1, total |-> -1, dropped |-> {}]
       ELSE IF S1.db.num < MinProofs
         THEN [S |-> [S1 EXCEPT !.db = EmptyStore.db, !.sealed = FALSE], total |-> -1, dropped |-> SeqRange(S1.db.proofs)]
       ELSE IF S1.sealed THEN [S |-> S1, total |-> S1.db.num, dropped |-> {}]
       ELSE LET u == Unmarshal(S1) IN [S |-> Seal(u.S, u.e), total |-> u.e.num, dropped |-> {}]

\* what the harness can observe of the store (EvView in harness/cmd/vh-relay/env.go)
View(S) ==
    LET c == S.cache.found IN
    [found  |-> c \/ S.db.found,
     cached |-> c,
     num    |-> IF c THEN S.cache.e.num ELSE IF S.db.found THEN S.db.num ELSE 0,
     proofs |-> SortSeq(IF c THEN ElemsOf(S, S.cache.e) ELSE IF S.db.found THEN S.db.proofs ELSE <<>>, LAMBDA a, b : a < b),   \* multiset
     cap    |-> IF c THEN CapOf(S, S.cache.e) ELSE -1,
     sealed |-> S.sealed,
     bloom  |-> IF c THEN BitsOf(S, S.cache.e.bloom) ELSE IF S.db.found THEN S.db.bits ELSE {}]

-----------------------------------------------------------------------------
(***************************************************************************)
(* The relay machine: every relay r is a goroutine running HandleRelay     *)
(* with the steps between the scheduling points of the code:               *)
(*   V  Relay.Validate            ... yield "relay:validated"              *)
(*   L  SetProof: GetEvidence     ... yield "setproof:loaded"              *)
(*   S  AddProof + SetEvidence    ... yield "relay:stored"                 *)
(*   R  Execute, sign, reply                                               *)
(* and C = one SendClaimTx pass.  sc = [proofs (proof of each relay),      *)
(* max (relays the application allows this node), pre (proofs stored by    *)
(* earlier, sequential relays: ids 101..100+pre)].                         *)
(***************************************************************************)
Relays(sc)  == 1..Len(sc.proofs)
PreProof(i) == 100 + i

\* one complete, undisturbed HandleRelay (used for the pre-stored proofs)
Sequential(S, p, max) ==
    LET v == ValidateEvidence(S, p, max) IN
    IF v.code # "ok" THEN v.S
    ELSE LET g == GetEvidence(v.S, max, TRUE)
             a == AddProof(g.S, g.e, p)
         IN SetEvidence(a.S, a.e).S

RECURSIVE PreStore(_, _)
PreStore(k, max) == IF k = 0 THEN EmptyStore ELSE Sequential(PreStore(k - 1, max), PreProof(k), max)

InitMachine(sc) ==
    [S        |-> PreStore(sc.pre, sc.max),
     pc       |-> [r \in Relays(sc) |-> "start"],
     loc      |-> [r \in Relays(sc) |-> NoObj],       \* the copy SetProof works on
     res      |-> [r \in Relays(sc) |-> "none"],      \* reply: "ok" or the rejection
     refused  |-> {},   \* ghost: relays whose SetEvidence found the evidence sealed (nothing stored)
     ans      |-> {},   \* ghost: relays answered with a signed response before the evidence was sealed:
                        \* not sealed when they stored, not sealed when they replied
     claimed  |-> -1,   \* proofs counted by the last claim pass that sent a claim
     dropped  |-> {},   \* ghost: proofs discarded by a claim pass that found the evidence below the minimum
     \* ghosts describing the known race shapes (known_findings.json F-C34-a / -b / -c)
     raceDup  |-> {},   \* proofs of identical relays that were BOTH validated before either stored
     erased   |-> {},   \* relays whose stored proof was overwritten by a relay that had loaded before they stored
                        \* (by its SetEvidence, or in place through the shared backing array even when that is refused)
     revived  |-> FALSE,\* a relay stored its non-empty stale copy after a claim pass had deleted the evidence (and seal mark) it was loaded from
     dels     |-> 0,    \* number of deletions so far
     loadDel  |-> [r \in Relays(sc) |-> 0],
     ver      |-> 0,
     loadVer  |-> [r \in Relays(sc) |-> 0],
     storeVer |-> [r \in Relays(sc) |-> 0]]

StepV(M, sc, r) ==
    LET v    == ValidateEvidence(M.S, sc.proofs[r], sc.max)
        twin == \E q \in Relays(sc) \ {r} : sc.proofs[q] = sc.proofs[r] /\ M.pc[q] \in {"validated", "loaded"}
    IN IF v.code = "ok"
         THEN [M EXCEPT !.S = v.S, !.pc[r] = "validated",
                        !.raceDup = IF twin THEN @ \cup {sc.proofs[r]} ELSE @]
         ELSE [M EXCEPT !.S = v.S, !.pc[r] = "done", !.res[r] = v.code]

StepL(M, sc, r) ==
    LET g == GetEvidence(M.S, sc.max, TRUE)
    IN [M EXCEPT !.S = g.S, !.loc[r] = g.e, !.pc[r] = "loaded", !.loadVer[r] = M.ver, !.loadDel[r] = M.dels]

StepS(M, sc, r) ==
    LET e  == M.loc[r]
        a  == AddProof(M.S, e, sc.proofs[r])
        w  == SetEvidence(a.S, a.e)
        \* the append wrote in place into a slot the stored value can see (shared backing array)
        overwrote == M.S.cache.found /\ e.arr # 0 /\ e.arr = M.S.cache.e.arr /\ e.len < M.S.cache.e.len
        \* relays that stored after r had loaded: r's stale copy replaces their proof
        gone == IF w.stored \/ overwrote THEN {q \in Relays(sc) \ {r} : M.storeVer[q] > M.loadVer[r]} ELSE {}
    IN IF w.stored
         THEN [M EXCEPT !.S = w.S, !.loc[r] = a.e, !.pc[r] = "stored", !.ver = @ + 1, !.storeVer[r] = M.ver + 1,
                        !.erased = @ \cup gone,
                        !.revived = @ \/ (e.num > 0 /\ M.dels > M.loadDel[r])]
         ELSE [M EXCEPT !.S = w.S, !.loc[r] = a.e, !.pc[r] = "stored", !.refused = @ \cup {r}, !.erased = @ \cup gone]

StepR(M, sc, r) ==
    [M EXCEPT !.pc[r] = "done", !.res[r] = "ok", !.ans = IF M.S.sealed \/ r \in M.refused THEN @ ELSE @ \cup {r}]

StepC(M, sc) ==
    LET c == Claim(M.S)
    IN [M EXCEPT !.S = c.S, !.claimed = IF c.total >= 0 THEN c.total ELSE @, !.dropped = @ \cup c.dropped,
                 !.dels = IF c.dropped # {} THEN @ + 1 ELSE @]

Enabled(M, op, r) ==
    CASE op = "V" -> M.pc[r] = "start"
      [] op = "L" -> M.pc[r] = "validated"
      [] op = "S" -> M.pc[r] = "loaded"
      [] op = "R" -> M.pc[r] = "stored"
      [] op = "C" -> TRUE
      [] OTHER    -> FALSE

Step(M, sc, op, r) ==
    CASE op = "V" -> StepV(M, sc, r)
      [] op = "L" -> StepL(M, sc, r)
      [] op = "S" -> StepS(M, sc, r)
      [] op = "R" -> StepR(M, sc, r)
      [] op = "C" -> StepC(M, sc)

\* what the goroutine announces after the step: the scheduling point it reached, or its reply
Out(M2, op, r) ==
    CASE op = "V" -> IF M2.pc[r] = "validated" THEN "relay:validated" ELSE M2.res[r]
      [] op = "L" -> "setproof:loaded"
      [] op = "S" -> "relay:stored"
      [] op = "R" -> "ok"
      [] op = "C" -> "claim"

-----------------------------------------------------------------------------
(***************************************************************************)
(* C34, on an observed view v of the stored evidence.                      *)
(***************************************************************************)
DupProofs(ps) == {ps[i] : i \in {i \in 1..Len(ps) : \E j \in 1..Len(ps) : j # i /\ ps[j] = ps[i]}}

\* relays answered (unsealed) whose proof is not in the stored evidence, unless a claim pass
\* discarded it with an evidence below the minimum; the pre-stored relays were answered too
\* and are represented by their proof ids
Missing(M, sc, ps) ==
    {r \in M.ans : sc.proofs[r] \notin SeqRange(ps) \cup M.dropped}
    \cup {PreProof(i) : i \in {i \in 1..sc.pre : PreProof(i) \notin SeqRange(ps) \cup M.dropped}}

\* the property as stated
NoDuplicateStrict(v)           == DupProofs(v.proofs) = {}
WithinMax(v, sc)               == Len(v.proofs) <= sc.max /\ v.num <= sc.max
AnsweredRecordedStrict(M, sc, v) == Missing(M, sc, v.proofs) = {}
\* the property outside the known race shapes (known_findings.json F-C34-a, -b, -c)
NoDuplicate(M, v)              == DupProofs(v.proofs) \subseteq M.raceDup \/ M.revived
AnsweredRecorded(M, sc, v)     == Missing(M, sc, v.proofs) \subseteq M.erased
WithinMaxKnown(M, sc, v)       == WithinMax(v, sc) \/ M.revived
=============================================================================
