\* C06 thorough: 2 persistent substores + the transient one
CONSTANTS
  Stores = {"s1", "s2"}
  NK = 2  NV = 2  NTK = 1  MaxVer = 2  MaxWrites = 2  MaxViews = 1
  IterBounds <- FullOnly
  Features = {"close", "transient"}
  FirstBlockFixed = FALSE
  RecordHist = TRUE
INIT Init
NEXT NextCover
VIEW view
INVARIANTS TypeOK InfoLatestCoupled ReopenNeverFails NoResaveConflict C06_HashIgnoresTransient
PROPERTIES C06_VersionPlusOne C06_TransientEmptyAfterCommit
CHECK_DEADLOCK FALSE
