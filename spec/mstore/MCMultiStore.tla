---------------------------- MODULE MCMultiStore ----------------------------
(* Model-checking / behaviour-generation instance of MultiStore.            *)
EXTENDS MultiStore

\* Transition cover: with VIEW view every distinct abstract state is expanded once, from
\* the first (shortest, BFS) history that reached it, and every outgoing transition is
\* printed as that history extended by one step.
NextCover == Next /\ PrintT(ToJson(hist'))

AllBounds == {<<lo, hi>> \in (0..NK) \X (1..(NK + 1)) : TRUE}
FullOnly  == {<<0, NK + 1>>}
=============================================================================
