CONSTANTS
  Stores = {"s1", "s2"}
  NK = 2  NV = 1  NTK = 1  MaxVer = 2  MaxWrites = 1  MaxViews = 1
  IterBounds <- FullOnly
  Features = {"close", "crash", "rollback", "fork", "views", "transient"}
  FirstBlockFixed = FALSE
  RecordHist = TRUE
INIT Init
NEXT NextCover
VIEW view
INVARIANTS TypeOK InfoLatestCoupled ReopenNeverFails NoResaveConflict
  C04_ReopenExact C04_SameWritesSameHash C06_HashIgnoresTransient C09_HistoricalReadsStable
PROPERTIES C04_ReopenLatest C06_VersionPlusOne C06_TransientEmptyAfterCommit C07_CrashRecovers C07_ReexecuteSameHash
  C08_RollbackExact C08_ReopenAfterRollback C08_ReapplySameHash
CHECK_DEADLOCK FALSE
