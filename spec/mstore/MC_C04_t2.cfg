\* C04 thorough: 3 keys
CONSTANTS
  Stores = {"s1", "s2"}
  NK = 3  NV = 1  NTK = 1  MaxVer = 2  MaxWrites = 2  MaxViews = 1
  IterBounds <- FullOnly
  Features = {"close"}
  FirstBlockFixed = FALSE
  RecordHist = TRUE
INIT Init
NEXT NextCover
VIEW view
INVARIANTS TypeOK InfoLatestCoupled ReopenNeverFails NoResaveConflict C04_ReopenExact C04_SameWritesSameHash
PROPERTIES C04_ReopenLatest
CHECK_DEADLOCK FALSE
