--------------------------- MODULE MCMultiStoreSim ---------------------------
(* Random deep behaviours of MultiStore for `tlc -simulate`.  TLC picks the next  *)
(* state uniformly among all successors, so the always-enabled actions (crash,    *)
(* failed historical loads, transient writes) would crowd out complete commits.   *)
(* A budget per behaviour keeps them in proportion; it restricts which behaviours *)
(* are SAMPLED, not what the specification allows.                                *)
EXTENDS MultiStore
CONSTANT SimDepth
VARIABLE budget

LastOp == hist'[Len(hist')].op

InitSim == Init /\ budget = [Crash |-> 4, Close |-> 2, Rollback |-> 2, Fork |-> 2, LazyLoadErr |-> 3,
                             TSet |-> 6, TDel |-> 3, DropView |-> 3, HistGet |-> 8, HistIter |-> 10, LazyLoad |-> 6]
NextSim ==
    /\ Next
    /\ LastOp \in DOMAIN budget => budget[LastOp] > 0
    \* the crash during the very first commit (known finding, terminal in the model while the code
    \* is not repaired) is covered exhaustively by the cover configurations
    /\ (LastOp = "Crash" /\ ~FirstBlockFixed) => dlatest >= 1
    /\ budget' = IF LastOp \in DOMAIN budget THEN [budget EXCEPT ![LastOp] = @ - 1] ELSE budget

EmitSim   == Len(hist) = SimDepth => PrintT(ToJson(hist))
HistBound == Len(hist) <= SimDepth
AllBounds == {<<lo, hi>> \in (0..NK) \X (1..(NK + 1)) : TRUE}
=============================================================================
