\* random deep behaviours, every feature on
CONSTANTS
  Stores = {"s1", "s2", "s3"}
  NK = 4  NV = 2  NTK = 2  MaxVer = 8  MaxWrites = 4  MaxViews = 2
  IterBounds <- AllBounds
  Features = {"close", "crash", "rollback", "fork", "views", "transient"}
  FirstBlockFixed = FALSE
  RecordHist = TRUE  SimDepth = 80
INIT InitSim
NEXT NextSim
INVARIANTS TypeOK InfoLatestCoupled ReopenNeverFails NoResaveConflict
  C04_ReopenExact C04_SameWritesSameHash C06_HashIgnoresTransient C09_HistoricalReadsStable EmitSim
PROPERTIES C04_ReopenLatest C06_VersionPlusOne C06_TransientEmptyAfterCommit C07_CrashRecovers C07_ReexecuteSameHash
  C08_RollbackExact C08_ReopenAfterRollback C08_ReapplySameHash
CONSTRAINT HistBound
CHECK_DEADLOCK FALSE
