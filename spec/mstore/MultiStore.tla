------------------------------ MODULE MultiStore ------------------------------
(***************************************************************************)
(* The root multistore of a Pocket node (store/rootmulti.Store) with its   *)
(* persistent IAVL substores and one transient substore, at the level of   *)
(* database writes: what is in memory, what is in the database, and what   *)
(* survives when the process stops between two database writes.            *)
(*                                                                         *)
(* Serves C04 (saved state reproduced after reopening; same writes => same *)
(* hashes), C06 (commit ids well formed, transient state never leaks),     *)
(* C07 (crash at any point of a commit is recoverable), C08 (rollback      *)
(* restores exactly that height), C09 (reads at a past height).            *)
(*                                                                         *)
(* Code modelled (pinned tree):                                            *)
(*   rootmulti.Store.Commit      = commitStores (range over a Go MAP of    *)
(*                                 substores: any order; each IAVL         *)
(*                                 substore's SaveVersion is ONE batch     *)
(*                                 write [measured]) followed by ONE batch *)
(*                                 write holding the commit info s/<ver>   *)
(*                                 and the latest-version record s/latest  *)
(*   iavl.MutableTree.SaveVersion  incl. the idempotent path "version      *)
(*                                 exists with the same hash => no-op"     *)
(*   rootmulti.Store.LoadLatestVersion / LoadVersion / iavl.LoadStore      *)
(*   rootmulti.Store.RollbackVersion -> iavl LoadVersionForOverwriting     *)
(*   rootmulti.Store.LoadLazyVersion -> iavl LazyLoadVersion (historical   *)
(*                                 views: Context.PrevCtx, custom queries) *)
(*   transient.Store.Commit      = replace the store by an empty one       *)
(*                                                                         *)
(* HASHES are not computed here.  A root hash of an IAVL substore is a     *)
(* deterministic function of the substore's complete write history (which  *)
(* writes, in which order, in which version), so the model carries that    *)
(* history as the "digest" of a version and only ever states EQUALITIES    *)
(* between digests.  Every distinct digest gets a small id (variable       *)
(* `digs`); the conformance harness checks that the real hashes are a      *)
(* function of the ids (equal ids => equal real hashes) and the trace      *)
(* specification checks the same on recorded executions.  Nothing is       *)
(* claimed about different digests.                                        *)
(*                                                                         *)
(* REFERENCE NODE.  `chain` is the sequence of blocks decided so far (the  *)
(* persistent writes of each block, in order).  It is the complete state   *)
(* of a second node that executes every block exactly once, never crashes, *)
(* never reopens, never rolls back and performs arbitrary OTHER transient  *)
(* writes (none of which is part of `chain`).  RefSaved(v) / RefDigest(v)  *)
(* are its contents / hash digest after block v.  The relational           *)
(* properties compare the node under test with it; in the harness it is a  *)
(* second real rootmulti.Store on its own database.                        *)
(***************************************************************************)
EXTENDS Integers, Sequences, SequencesExt, FiniteSets, TLC, Json

CONSTANTS
    Stores,      \* names of the persistent (IAVL) substores, e.g. {"s1","s2"}
    NK, NV,      \* keys 1..NK (the harness maps them to byte strings), values 1..NV; 0 = absent / delete
    NTK,         \* keys of the transient store
    MaxVer,      \* number of blocks decided in one behaviour
    MaxWrites,   \* persistent writes per block
    MaxViews,    \* simultaneously open historical views
    IterBounds,  \* set of <<lo,hi>> iteration bounds used by HistIter (lo = 0: nil, hi = NK+1: nil)
    Features,    \* subset of {"close","crash","rollback","fork","views","transient"}
    FirstBlockFixed, \* BOOLEAN, see LoadZeroLoadsLeftover below
    RecordHist   \* record the history variable (behaviour generation) or not (trace validation)

Key   == 1..NK
TKey  == 1..NTK
NOEND == NK + 1

\* Named deviation of the pinned code from the intended design (known finding C07-firstblock):
\* iavl.LoadStore(db, CommitID{} /* version 0 */) calls MutableTree.LoadVersion(0), which means
\* "load the LATEST version found in the database".  After a crash during the very first commit
\* of a substore (its version 1 is saved, the commit info is not), LoadLatestVersion therefore
\* starts that substore from the interrupted block's state instead of from the empty tree.
\* TRUE = as in the pinned code; FALSE = as repaired by fixes/C07-first-commit-leftover.diff (the
\* leftover versions are deleted when the store is loaded at version 0).  The checks select the
\* value of the constant FirstBlockFixed by probing the real code (`vh-mstore probe`).
LoadZeroLoadsLeftover == ~FirstBlockFixed

VARIABLES
    \* ---- the database: everything that survives a crash -------------------------------
    dsub,      \* [Stores -> Seq([c, d])]  saved versions 1..Len of each IAVL substore:
               \*    c = contents [Key -> 0..NV], d = digest (write history) of that version
    dinfo,     \* Seq([Stores -> [v, d]])  commit-info records s/1 .. s/Len: per substore its
               \*    commit id (substore version, digest standing for the root hash)
    dlatest,   \* the latest-version record s/latest
    \* ---- the running process (canonical values while it is down) ---------------------
    up,        \* BOOLEAN: a process with a loaded rootmulti.Store exists
    why,       \* last event that stopped the process: "none" | "close" | "crash" | "rollback"
    tree,      \* [Stores -> [c, v, d]]  the IAVL substore objects: working contents c on top of
               \*    the loaded / last saved version v whose digest is d
    twork,     \* [TKey -> 0..NV]  the transient store (memory only)
    blk,       \* persistent writes performed since the last commit: Seq([s, k, v])
    mver,      \* Store.lastCommitID.Version
    cphase,    \* "idle" | "commit" (inside Store.Commit)
    cdone,     \* substores whose Commit() already ran in the running Store.Commit call
    cwrote,    \* those of them that performed their database write (ghost: the crash point)
    views,     \* [1..MaxViews -> 0..MaxVer]  open historical views (0 = free slot)
    \* ---- reference node / ghosts ------------------------------------------------------
    chain,     \* Seq(block)  blocks decided so far (persistent writes only)
    tainted,   \* the named deviation above has happened in this behaviour
    digs,      \* registry of the distinct digests met so far; position = hash id
    ret,       \* result of the last observer, a flat sequence of integers
    hist       \* the behaviour so far (generation only)

dbvars  == <<dsub, dinfo, dlatest>>
vars    == <<dsub, dinfo, dlatest, up, why, tree, twork, blk, mver, cphase, cdone, cwrote, views,
             chain, tainted, digs, ret, hist>>

-----------------------------------------------------------------------------
\* contents, writes, digests

Empty     == [k \in Key |-> 0]
EmptyT    == [k \in TKey |-> 0]
EmptyTree == [c |-> Empty, v |-> 0, d |-> <<>>]
NoViews   == [r \in 1..MaxViews |-> 0]

\* the writes of block b that go to substore s, as <<key, value>> pairs in block order
WritesOf(b, s) ==
    LET ws == SelectSeq(b, LAMBDA w : w.s = s)
    IN  [i \in 1..Len(ws) |-> <<ws[i].k, ws[i].v>>]

RECURSIVE ApplyBlock(_, _)
ApplyBlock(c, b) ==      \* c : [Stores -> contents]
    IF b = <<>> THEN c
    ELSE ApplyBlock([c EXCEPT ![Head(b).s][Head(b).k] = Head(b).v], Tail(b))

\* ---- the reference node
RECURSIVE RefSavedOf(_, _)
RefSavedOf(ch, v) == IF v = 0 THEN [s \in Stores |-> Empty]
                     ELSE ApplyBlock(RefSavedOf(ch, v - 1), ch[v])
RefSaved(v)        == RefSavedOf(chain, v)
RefSubDigestOf(ch, s, v) == [i \in 1..v |-> WritesOf(ch[i], s)]
RefDigestOf(ch, v) == [s \in Stores |-> RefSubDigestOf(ch, s, v)]
RefDigest(v)       == RefDigestOf(chain, v)

\* ---- hash ids
RECURSIVE RegAll(_, _)
RegAll(reg, ds) ==       \* register a sequence of digests
    IF ds = <<>> THEN reg
    ELSE RegAll(IF \E i \in 1..Len(reg) : reg[i] = Head(ds) THEN reg ELSE Append(reg, Head(ds)), Tail(ds))
IdIn(reg, d) == CHOOSE i \in 1..Len(reg) : reg[i] = d
StoreSeq == SetToSeq(Stores)     \* some fixed enumeration of the substores
IdsOf(reg, dg) == [s \in Stores |-> IdIn(reg, dg[s])]

\* ---- ordered range read-out of a contents map (iterator semantics: [lo, hi), nil bounds)
InDomain(k, lo, hi) == (lo = 0 \/ k >= lo) /\ (hi = NOEND \/ k < hi)
RECURSIVE AscItems(_, _, _, _)
AscItems(m, k, lo, hi) ==
    IF k > NK THEN <<>>
    ELSE (IF InDomain(k, lo, hi) /\ m[k] # 0 THEN <<k, m[k]>> ELSE <<>>) \o AscItems(m, k + 1, lo, hi)
RECURSIVE DescItems(_, _, _, _)
DescItems(m, k, lo, hi) ==
    IF k < 1 THEN <<>>
    ELSE (IF InDomain(k, lo, hi) /\ m[k] # 0 THEN <<k, m[k]>> ELSE <<>>) \o DescItems(m, k - 1, lo, hi)
RangeItems(m, lo, hi, asc) == IF asc THEN AscItems(m, 1, lo, hi) ELSE DescItems(m, NK, lo, hi)

-----------------------------------------------------------------------------
\* reading the database back (pure operators of the database variables)

\* iavl.LoadStore(db, CommitID{Version: cv}): the substore object obtained for commit version cv
OpenSubOf(ds, s, cv) ==
    IF cv = 0
      THEN IF LoadZeroLoadsLeftover /\ Len(ds[s]) > 0
             THEN [c |-> ds[s][Len(ds[s])].c, v |-> Len(ds[s]), d |-> ds[s][Len(ds[s])].d]
             ELSE EmptyTree
      ELSE [c |-> ds[s][cv].c, v |-> cv, d |-> ds[s][cv].d]

\* rootmulti.Store.LoadVersion(v) succeeds: commit info present, every substore version present
LoadableOf(ds, di, v) ==
    IF v = 0 THEN TRUE
    ELSE IF v > Len(di) THEN FALSE
    ELSE \A s \in Stores : di[v][s].v \in 1..Len(ds[s])
Loadable(v) == LoadableOf(dsub, dinfo, v)

\* what LoadVersion(v) (v >= 1) yields: the contents of every substore, the commit id (digest)
\* recomputed from the stored commit info, and the digests of the loaded trees themselves
DiskContentsOf(ds, di, v)   == [s \in Stores |-> ds[s][di[v][s].v].c]
DiskDigestOf(di, v)         == [s \in Stores |-> di[v][s].d]
DiskTreeDigestOf(ds, di, v) == [s \in Stores |-> ds[s][di[v][s].v].d]
DiskContents(v) == DiskContentsOf(dsub, dinfo, v)
DiskDigest(v)   == DiskDigestOf(dinfo, v)

\* LoadLazyVersion(v): every IAVL substore must have a root for version v
Readable(v) == \A s \in Stores : v \in 1..Len(dsub[s])

TreeContents(t) == [s \in Stores |-> t[s].c]
TreeDigest(t)   == [s \in Stores |-> t[s].d]
CommitInfoOf(t) == [s \in Stores |-> [v |-> t[s].v, d |-> t[s].d]]

Idle       == up /\ cphase = "idle"
CatchingUp == mver < Len(chain)      \* the next block is already decided (after a crash / rollback)

Rec(r) == IF RecordHist THEN Append(hist, r) ELSE hist

-----------------------------------------------------------------------------
Init ==
    /\ dsub = [s \in Stores |-> <<>>] /\ dinfo = <<>> /\ dlatest = 0
    /\ up = TRUE /\ why = "none"
    /\ tree = [s \in Stores |-> EmptyTree] /\ twork = EmptyT /\ blk = <<>>
    /\ mver = 0 /\ cphase = "idle" /\ cdone = {} /\ cwrote = {} /\ views = NoViews
    /\ chain = <<>> /\ tainted = FALSE
    /\ digs = << <<>> >>                 \* id 1 = "no version saved" (nil hash)
    /\ ret = <<>> /\ hist = <<>>

\* ---- block execution: writes go to the working trees / the transient store ----------
WriteCore(s, k, v) ==
    /\ Idle /\ ~CatchingUp /\ ~tainted
    /\ Len(chain) < MaxVer /\ Len(blk) < MaxWrites
    /\ tree' = [tree EXCEPT ![s].c[k] = v]
    /\ blk' = Append(blk, [s |-> s, k |-> k, v |-> v])
    /\ UNCHANGED <<dbvars, up, why, twork, mver, cphase, cdone, cwrote, views, chain, tainted, digs>>
Write(s, k, v) ==
    /\ WriteCore(s, k, v)
    /\ ret' = <<>>
    /\ hist' = Rec([op |-> IF v = 0 THEN "Del" ELSE "Set", s |-> s, k |-> k, v |-> v])

TWriteCore(k, v) ==
    /\ "transient" \in Features
    /\ Idle /\ ~tainted
    /\ twork' = [twork EXCEPT ![k] = v]
    /\ UNCHANGED <<dbvars, up, why, tree, blk, mver, cphase, cdone, cwrote, views, chain, tainted, digs>>
TWrite(k, v) ==
    /\ TWriteCore(k, v)
    /\ ret' = <<>>
    /\ hist' = Rec([op |-> IF v = 0 THEN "TDel" ELSE "TSet", k |-> k, v |-> v])

\* The interrupted (crash) or rolled-back (rollback) block is executed again: same writes, same order.
ReExecuteCore ==
    /\ Idle /\ CatchingUp /\ ~tainted
    /\ blk = <<>> /\ chain[mver + 1] # <<>>
    /\ blk' = chain[mver + 1]
    /\ tree' = [s \in Stores |-> [tree[s] EXCEPT !.c = ApplyBlock(TreeContents(tree), chain[mver + 1])[s]]]
    /\ UNCHANGED <<dbvars, up, why, twork, mver, cphase, cdone, cwrote, views, chain, tainted, digs>>
ReExecute ==
    /\ ReExecuteCore
    /\ ret' = <<>>
    /\ hist' = Rec([op |-> "ReExecute", ver |-> mver + 1, blk |-> blk', why |-> why])

\* After a rollback (or a crash that left nothing behind) different blocks may be decided
\* instead: the reference node is then a node that executed chain[1..mver] only.
ForkCore ==
    /\ "fork" \in Features
    /\ Idle /\ CatchingUp /\ ~tainted /\ blk = <<>>
    /\ \A s \in Stores : Len(dsub[s]) = tree[s].v       \* no version above the loaded one on disk
    /\ chain' = SubSeq(chain, 1, mver)
    /\ why' = "none"
    /\ UNCHANGED <<dbvars, up, tree, twork, blk, mver, cphase, cdone, cwrote, views, tainted, digs>>
Fork ==
    /\ ForkCore
    /\ ret' = <<>>
    /\ hist' = Rec([op |-> "Fork", ver |-> mver])

\* ---- Store.Commit, split at its database writes --------------------------------------
\* Commit() is entered.  A new block becomes part of the chain: the reference node executes it.
BeginCommitCore ==
    /\ Idle /\ ~tainted
    /\ IF CatchingUp THEN blk = chain[mver + 1] ELSE Len(chain) < MaxVer
    /\ chain' = IF CatchingUp THEN chain ELSE Append(chain, blk)
    /\ digs' = RegAll(digs, [i \in 1..Len(StoreSeq) |-> RefSubDigestOf(chain', StoreSeq[i], mver + 1)])
    /\ cphase' = "commit" /\ cdone' = {} /\ cwrote' = {}
    /\ UNCHANGED <<dbvars, up, why, tree, twork, blk, mver, views, tainted>>
BeginCommit ==
    /\ BeginCommitCore
    /\ ret' = <<>>
    /\ hist' = Rec([op |-> "BeginCommit", ver |-> mver + 1, new |-> ~CatchingUp, blk |-> blk, why |-> why,
                    rh |-> IdsOf(digs', RefDigestOf(chain', mver + 1))])

\* iavl.Store.Commit -> MutableTree.SaveVersion of substore s (any order: Go map iteration)
CommitSubCore(s) ==
    /\ up /\ cphase = "commit" /\ s \in Stores \ cdone
    /\ LET ver == tree[s].v + 1
           nd  == Append(tree[s].d, WritesOf(blk, s))
       IN /\ IF ver <= Len(dsub[s])
               THEN \* tree.versions[ver]: the version is already in the database.  Equal hash =>
                    \* idempotent no-op WITHOUT any database write; different hash => SaveVersion
                    \* fails and Commit panics (never enabled here, see NoResaveConflict).
                    /\ dsub[s][ver].d = nd
                    /\ UNCHANGED <<dsub, cwrote>>
               ELSE \* nodes, orphans and the root record of version ver: ONE batch write
                    /\ ver = Len(dsub[s]) + 1       \* nodeDB.saveRoot: consecutive versions only
                    /\ dsub' = [dsub EXCEPT ![s] = Append(@, [c |-> tree[s].c, d |-> nd])]
                    /\ cwrote' = cwrote \cup {s}
          /\ tree' = [tree EXCEPT ![s].v = ver, ![s].d = nd]
          /\ digs' = RegAll(digs, <<nd>>)
    /\ cdone' = cdone \cup {s}
    /\ UNCHANGED <<dinfo, dlatest, up, why, twork, blk, mver, cphase, views, chain, tainted>>
CommitSub(s) ==
    /\ CommitSubCore(s)
    /\ ret' = <<>>
    /\ hist' = Rec([op |-> "CommitSub", s |-> s, wrote |-> (s \in cwrote'), h |-> IdIn(digs', tree'[s].d)])

\* All substores are committed: commit info s/<ver> and s/latest in ONE batch write; Commit returns.
\* (The transient store's Commit - replace it by an empty store - happens somewhere in the
\* same loop; it touches no database state, so its position is unobservable and it is folded
\* into this step.)
FlushCore ==
    /\ up /\ cphase = "commit" /\ cdone = Stores
    /\ LET ver == mver + 1 IN
       /\ ver <= Len(dinfo) + 1
       /\ dinfo' = [i \in 1..(IF ver > Len(dinfo) THEN ver ELSE Len(dinfo)) |->
                       IF i = ver THEN CommitInfoOf(tree) ELSE dinfo[i]]
       /\ dlatest' = ver
       /\ mver' = ver
       /\ why' = IF ver = Len(chain) THEN "none" ELSE why
    /\ twork' = EmptyT
    /\ blk' = <<>> /\ cphase' = "idle" /\ cdone' = {} /\ cwrote' = {}
    /\ UNCHANGED <<dsub, up, tree, views, chain, tainted, digs>>
Flush ==
    /\ FlushCore
    /\ ret' = <<>>
    /\ hist' = Rec([op |-> "Flush", ver |-> mver', h |-> IdsOf(digs, TreeDigest(tree)),
                    sv |-> [s \in Stores |-> tree[s].v], c |-> TreeContents(tree), t |-> twork',
                    why |-> why])

\* ---- the process stops ----------------------------------------------------------------
DropMemory ==
    /\ up' = FALSE
    /\ tree' = [s \in Stores |-> EmptyTree] /\ twork' = EmptyT /\ blk' = <<>>
    /\ mver' = 0 /\ cphase' = "idle" /\ cdone' = {} /\ cwrote' = {} /\ views' = NoViews

\* at any moment: after any database write of a commit, or between commits with unsaved writes
CrashCore ==
    /\ "crash" \in Features
    /\ up /\ ~tainted
    /\ DropMemory
    /\ why' = "crash"
    /\ UNCHANGED <<dbvars, chain, tainted, digs>>
Crash ==
    /\ CrashCore
    /\ ret' = <<>>
    /\ hist' = Rec([op |-> "Crash", phase |-> cphase, wrote |-> cwrote, n |-> Cardinality(cwrote),
                    nv |-> [s \in Stores |-> Len(dsub[s])], latest |-> dlatest])

\* orderly shutdown between two blocks
CloseCore ==
    /\ "close" \in Features
    /\ Idle /\ blk = <<>> /\ ~tainted
    /\ DropMemory
    /\ why' = IF CatchingUp THEN why ELSE "close"
    /\ UNCHANGED <<dbvars, chain, tainted, digs>>
Close ==
    /\ CloseCore
    /\ ret' = <<>>
    /\ hist' = Rec([op |-> "Close"])

\* a new process: NewStore on the same database, mount the substores, LoadLatestVersion
ReopenCore ==
    /\ ~up /\ ~tainted
    /\ Loadable(dlatest)              \* otherwise LoadLatestVersion fails (see ReopenNeverFails)
    /\ LET leftover == dlatest = 0 /\ \E s \in Stores : Len(dsub[s]) > 0 IN
       /\ tainted' = (leftover /\ LoadZeroLoadsLeftover)
       /\ tree' = [s \in Stores |-> OpenSubOf(dsub, s, IF dlatest = 0 THEN 0 ELSE dinfo[dlatest][s].v)]
       \* repaired code: versions without commit info are discarded when a store is loaded at version 0
       /\ dsub' = IF leftover /\ ~LoadZeroLoadsLeftover THEN [s \in Stores |-> <<>>] ELSE dsub
    /\ up' = TRUE /\ mver' = dlatest
    /\ twork' = EmptyT /\ blk' = <<>> /\ cphase' = "idle" /\ cdone' = {} /\ cwrote' = {} /\ views' = NoViews
    /\ UNCHANGED <<dinfo, dlatest, why, chain, digs>>
\* The history record carries what the PROPERTIES require after reopening (= the reference node's
\* state at the latest committed version; identical to tree' unless the named deviation struck, in
\* which case `known` is set), and what every retained version must read back as (LoadVersion(v)).
Reopen ==
    /\ ReopenCore
    /\ ret' = <<>>
    /\ hist' = Rec([op |-> "Reopen", ver |-> dlatest, why |-> why,
                    h |-> IdsOf(digs, RefDigest(dlatest)), c |-> RefSaved(dlatest), t |-> twork',
                    vers |-> [v \in 1..dlatest |-> [h |-> IdsOf(digs, DiskDigest(v)), c |-> DiskContents(v)]],
                    known |-> IF tainted' THEN "C07-firstblock" ELSE ""])

\* ---- rollback -------------------------------------------------------------------------
\* RollbackVersion(v) run by a maintenance process (or the running one), which then exits: every
\* substore is loaded and overwritten from version v+1 on (one batch write each), then the
\* commit infos above v are deleted and s/latest := v in one batch write.
RollbackCore(v) ==
    /\ "rollback" \in Features
    /\ (up => Idle) /\ ~tainted
    /\ v \in 1..(dlatest - 1)
    /\ Loadable(dlatest) /\ \A s \in Stores : v <= Len(dsub[s])
    /\ dsub' = [s \in Stores |-> SubSeq(dsub[s], 1, v)]
    /\ dinfo' = SubSeq(dinfo, 1, v)
    /\ dlatest' = v
    /\ DropMemory
    /\ why' = "rollback"
    /\ UNCHANGED <<chain, tainted, digs>>
RollbackTo(v) ==
    /\ RollbackCore(v)
    /\ ret' = <<>>
    /\ hist' = Rec([op |-> "Rollback", v |-> v, wasup |-> up,
                    nv |-> [s \in Stores |-> Len(dsub'[s])], ni |-> Len(dinfo'), latest |-> dlatest'])

\* ---- historical views -----------------------------------------------------------------
FreeSlot == CHOOSE r \in 1..MaxViews : views[r] = 0 /\ \A q \in 1..(r - 1) : views[q] # 0

LazyLoadCore(v) ==
    /\ "views" \in Features
    /\ Idle /\ ~tainted
    /\ \E r \in 1..MaxViews : views[r] = 0
    /\ v \in 1..mver /\ Readable(v)
    /\ views' = [views EXCEPT ![FreeSlot] = v]
    /\ UNCHANGED <<dbvars, up, why, tree, twork, blk, mver, cphase, cdone, cwrote, chain, tainted, digs>>
LazyLoad(v) ==
    /\ LazyLoadCore(v)
    /\ ret' = <<>>
    /\ hist' = Rec([op |-> "LazyLoad", r |-> FreeSlot, v |-> v])

\* a version above the latest one that some substore does not have cannot be opened
LazyLoadErr(v) ==
    /\ "views" \in Features
    /\ Idle /\ ~tainted
    /\ v > mver /\ v <= MaxVer + 1 /\ ~Readable(v)
    /\ ret' = <<-1>>
    /\ UNCHANGED <<dbvars, up, why, tree, twork, blk, mver, cphase, cdone, cwrote, views, chain, tainted, digs>>
    /\ hist' = Rec([op |-> "LazyLoadErr", v |-> v])

\* A view reads the database lazily, at the time of the read.
ViewContents(r, s) == dsub[s][views[r]].c

HistGet(r, s, k) ==
    /\ Idle /\ r \in 1..MaxViews /\ views[r] # 0
    /\ ret' = <<ViewContents(r, s)[k]>>
    /\ UNCHANGED <<dbvars, up, why, tree, twork, blk, mver, cphase, cdone, cwrote, views, chain, tainted, digs>>
    /\ hist' = Rec([op |-> "HistGet", r |-> r, s |-> s, k |-> k, ret |-> ViewContents(r, s)[k]])

HistIter(r, s, lo, hi, asc) ==
    /\ Idle /\ r \in 1..MaxViews /\ views[r] # 0
    /\ ret' = RangeItems(ViewContents(r, s), lo, hi, asc)
    /\ UNCHANGED <<dbvars, up, why, tree, twork, blk, mver, cphase, cdone, cwrote, views, chain, tainted, digs>>
    /\ hist' = Rec([op |-> "HistIter", r |-> r, s |-> s, lo |-> lo, hi |-> hi, asc |-> asc, ret |-> ret'])

DropView(r) ==
    /\ Idle /\ r \in 1..MaxViews /\ views[r] # 0
    /\ views' = [views EXCEPT ![r] = 0]
    /\ ret' = <<>>
    /\ UNCHANGED <<dbvars, up, why, tree, twork, blk, mver, cphase, cdone, cwrote, chain, tainted, digs>>
    /\ hist' = Rec([op |-> "DropView", r |-> r])

-----------------------------------------------------------------------------
Next ==
    \/ \E s \in Stores, k \in Key, v \in 0..NV : Write(s, k, v)
    \/ \E k \in TKey, v \in 0..NV : TWrite(k, v)
    \/ ReExecute \/ Fork
    \/ BeginCommit \/ (\E s \in Stores : CommitSub(s)) \/ Flush
    \/ Crash \/ Close \/ Reopen
    \/ \E v \in 1..MaxVer : RollbackTo(v)
    \/ \E v \in 1..MaxVer : LazyLoad(v)
    \/ \E v \in 1..(MaxVer + 1) : LazyLoadErr(v)
    \/ \E r \in 1..MaxViews, s \in Stores :
          \/ \E k \in Key : HistGet(r, s, k)
          \/ \E b \in IterBounds, asc \in BOOLEAN : HistIter(r, s, b[1], b[2], asc)
    \/ \E r \in 1..MaxViews : DropView(r)

Spec == Init /\ [][Next]_vars

\* What distinguishes two states for the exhaustive search: everything except the output-only
\* variables and the digests (write ORDER inside a block), which never influence enabledness.
view == << [s \in Stores |-> [i \in 1..Len(dsub[s]) |-> dsub[s][i].c]],
           [i \in 1..Len(dinfo) |-> [s \in Stores |-> dinfo[i][s].v]], dlatest,
           up, why, [s \in Stores |-> <<tree[s].c, tree[s].v>>], twork, Len(blk), mver, cphase, cdone, cwrote, views,
           [i \in 1..Len(chain) |-> RefSaved(i)], tainted >>

-----------------------------------------------------------------------------
\* Invariants and action properties, named after the properties they express.
\* Everything is conditioned on ~tainted: the one known deviation is reported separately
\* (Known_C07_FirstBlock) so that any OTHER violation is still reported.

TypeOK ==
    /\ dlatest \in 0..MaxVer /\ mver \in 0..MaxVer /\ Len(chain) \in 0..MaxVer
    /\ cphase \in {"idle", "commit"} /\ cdone \subseteq Stores /\ cwrote \subseteq cdone
    /\ why \in {"none", "close", "crash", "rollback"}
    /\ \A s \in Stores : tree[s].c \in [Key -> 0..NV] /\ tree[s].v \in 0..(MaxVer + 1)
    /\ twork \in [TKey -> 0..NV]
    /\ views \in [1..MaxViews -> 0..MaxVer]
    /\ Len(blk) <= MaxWrites

\* the commit-info records and the latest-version record are written together
InfoLatestCoupled == Len(dinfo) = dlatest

\* LoadLatestVersion can always be performed: every record it needs exists
ReopenNeverFails == ~tainted => Loadable(dlatest)

\* the idempotent branch of SaveVersion never meets a different hash
NoResaveConflict ==
    (cphase = "commit" /\ ~tainted) =>
        \A s \in Stores \ cdone :
            tree[s].v + 1 <= Len(dsub[s]) => dsub[s][tree[s].v + 1].d = Append(tree[s].d, WritesOf(blk, s))

\* what can be read back from the database at version v is what the reference node had after block v
DiskMatchesRefOf(ds, di, v) ==
    /\ LoadableOf(ds, di, v)
    /\ DiskContentsOf(ds, di, v) = RefSaved(v)
    /\ DiskDigestOf(di, v) = RefDigest(v)
    /\ DiskTreeDigestOf(ds, di, v) = RefDigest(v)
DiskMatchesRef(v) == DiskMatchesRefOf(dsub, dinfo, v)

\* ---- C04 -------------------------------------------------------------------------------
\* every retained version, read back from the database at any time, has the contents and the
\* hash it was committed with (= the never-persisted reference replica's)
C04_ReopenExact ==
    ~tainted => \A v \in 1..dlatest : DiskMatchesRef(v)
\* a new process sees exactly the latest committed state and reports its commit id
C04_ReopenLatest ==
    [][ReopenCore /\ ~tainted' =>
          /\ mver' = dlatest
          /\ TreeContents(tree') = RefSaved(dlatest)
          /\ TreeDigest(tree') = RefDigest(dlatest)]_vars
\* two nodes applying the same writes and commits report the same hash at every version
C04_SameWritesSameHash ==
    ~tainted => \A v \in 1..dlatest : DiskDigest(v) = RefDigest(v)

\* ---- C06 -------------------------------------------------------------------------------
C06_VersionPlusOne ==
    [][FlushCore => /\ mver' = mver + 1 /\ dlatest' = mver' /\ Len(dinfo') = mver'
                    /\ (~tainted => \A s \in Stores : dinfo'[mver'][s].v = mver')]_vars
\* the commit info names exactly the persistent substores, and the hash it yields equals the
\* hash of the reference node, whose transient writes are different
C06_HashIgnoresTransient ==
    ~tainted => \A v \in 1..dlatest : DOMAIN dinfo[v] = Stores /\ DiskDigest(v) = RefDigest(v)
C06_TransientEmptyAfterCommit ==
    [][(FlushCore \/ ReopenCore) => twork' = EmptyT]_vars

\* ---- C07 -------------------------------------------------------------------------------
\* after Crash; Reopen: the commit id and all contents are those of the last fully committed block
C07_CrashRecovers ==
    [][ReopenCore /\ why = "crash" /\ ~tainted' =>
          /\ mver' = dlatest
          /\ TreeContents(tree') = RefSaved(dlatest)
          /\ TreeDigest(tree') = RefDigest(dlatest)
          /\ twork' = EmptyT]_vars
\* re-executing the interrupted block yields the hash of the uninterrupted reference run
C07_ReexecuteSameHash ==
    [][FlushCore /\ why = "crash" /\ ~tainted =>
          /\ DiskDigestOf(dinfo', mver') = RefDigest(mver')
          /\ DiskContentsOf(dsub', dinfo', mver') = RefSaved(mver')]_vars
\* the known deviation: crash during the first commit of a substore + LoadVersion(0) = "latest"
Known_C07_FirstBlock == tainted

\* ---- C08 -------------------------------------------------------------------------------
C08_RollbackExact ==
    [][\A v \in 1..MaxVer : RollbackCore(v) =>
          /\ dlatest' = v /\ Len(dinfo') = v                    \* reported height; commit infos above v gone
          /\ \A s \in Stores : Len(dsub'[s]) = v                \* no later version remains readable
          /\ \A w \in 1..v : DiskMatchesRefOf(dsub', dinfo', w) \* v and everything below reads back exactly
      ]_vars
C08_ReopenAfterRollback ==
    [][ReopenCore /\ why = "rollback" /\ ~tainted' =>
          /\ mver' = dlatest /\ TreeContents(tree') = RefSaved(dlatest) /\ TreeDigest(tree') = RefDigest(dlatest)]_vars
\* re-applying the same blocks reproduces the original hashes (the chain still holds the original blocks)
C08_ReapplySameHash ==
    [][FlushCore /\ why = "rollback" /\ ~tainted => DiskDigestOf(dinfo', mver') = RefDigest(mver')]_vars

\* ---- C09 -------------------------------------------------------------------------------
\* whatever happened since a view was opened, it shows the state committed at its version
C09_HistoricalReadsStable ==
    ~tainted => \A r \in 1..MaxViews : views[r] # 0 =>
        /\ Readable(views[r])
        /\ \A s \in Stores : ViewContents(r, s) = RefSaved(views[r])[s]

=============================================================================
