\* C09 quick: 2 simultaneously open historical views interleaved with 3 later blocks
CONSTANTS
  Stores = {"s1", "s2"}
  NK = 2  NV = 1  NTK = 1  MaxVer = 3  MaxWrites = 1  MaxViews = 2
  IterBounds <- FullOnly
  Features = {"views"}
  FirstBlockFixed = FALSE
  RecordHist = TRUE
INIT Init
NEXT NextCover
VIEW view
INVARIANTS TypeOK InfoLatestCoupled ReopenNeverFails NoResaveConflict C09_HistoricalReadsStable
CHECK_DEADLOCK FALSE
