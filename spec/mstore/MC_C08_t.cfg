\* C08 thorough: 4 blocks, every target, re-apply / fork
CONSTANTS
  Stores = {"s1", "s2"}
  NK = 2  NV = 1  NTK = 1  MaxVer = 4  MaxWrites = 1  MaxViews = 1
  IterBounds <- FullOnly
  Features = {"rollback", "fork", "views"}
  FirstBlockFixed = FALSE
  RecordHist = TRUE
INIT Init
NEXT NextCover
VIEW view
INVARIANTS TypeOK InfoLatestCoupled ReopenNeverFails NoResaveConflict 
PROPERTIES C08_RollbackExact C08_ReopenAfterRollback C08_ReapplySameHash
CHECK_DEADLOCK FALSE
