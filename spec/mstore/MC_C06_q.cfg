\* C06 quick: 1 persistent + the transient substore, 3 blocks x 1 write, 2 values
CONSTANTS
  Stores = {"s1"}
  NK = 2  NV = 2  NTK = 1  MaxVer = 3  MaxWrites = 1  MaxViews = 1
  IterBounds <- FullOnly
  Features = {"close", "transient"}
  FirstBlockFixed = FALSE
  RecordHist = TRUE
INIT Init
NEXT NextCover
VIEW view
INVARIANTS TypeOK InfoLatestCoupled ReopenNeverFails NoResaveConflict C06_HashIgnoresTransient
PROPERTIES C06_VersionPlusOne C06_TransientEmptyAfterCommit
CHECK_DEADLOCK FALSE
