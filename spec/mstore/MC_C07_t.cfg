\* C07 thorough: 3 blocks x <= 2 writes
CONSTANTS
  Stores = {"s1", "s2"}
  NK = 2  NV = 1  NTK = 1  MaxVer = 3  MaxWrites = 2  MaxViews = 1
  IterBounds <- FullOnly
  Features = {"crash"}
  FirstBlockFixed = FALSE
  RecordHist = TRUE
INIT Init
NEXT NextCover
VIEW view
INVARIANTS TypeOK InfoLatestCoupled ReopenNeverFails NoResaveConflict 
PROPERTIES C07_CrashRecovers C07_ReexecuteSameHash
CHECK_DEADLOCK FALSE
