\* C09 thorough: 2 values, 2 views, 3 blocks
CONSTANTS
  Stores = {"s1", "s2"}
  NK = 2  NV = 2  NTK = 1  MaxVer = 3  MaxWrites = 1  MaxViews = 2
  IterBounds <- FullOnly
  Features = {"views"}
  FirstBlockFixed = FALSE
  RecordHist = TRUE
INIT Init
NEXT NextCover
VIEW view
INVARIANTS TypeOK InfoLatestCoupled ReopenNeverFails NoResaveConflict C09_HistoricalReadsStable
CHECK_DEADLOCK FALSE
