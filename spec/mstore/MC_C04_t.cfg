\* C04 thorough: 3 blocks x <= 2 writes
CONSTANTS
  Stores = {"s1", "s2"}
  NK = 2  NV = 1  NTK = 1  MaxVer = 3  MaxWrites = 2  MaxViews = 1
  IterBounds <- FullOnly
  Features = {"close"}
  FirstBlockFixed = FALSE
  RecordHist = TRUE
INIT Init
NEXT NextCover
VIEW view
INVARIANTS TypeOK InfoLatestCoupled ReopenNeverFails NoResaveConflict C04_ReopenExact C04_SameWritesSameHash
PROPERTIES C04_ReopenLatest
CHECK_DEADLOCK FALSE
