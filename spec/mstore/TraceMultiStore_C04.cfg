CONSTANTS
  Stores = {"s1", "s2", "s3"}
  NK = 8  NV = 3  NTK = 2  MaxVer = 64  MaxWrites = 100000  MaxViews = 3
  IterBounds = {}
  Features = {"close", "crash", "rollback", "fork", "views", "transient"}
  FirstBlockFixed = TRUE
  RecordHist = FALSE
INIT TraceInit
NEXT TraceNext
INVARIANTS C04_ReopenExact_SameWritesSameHash ModelExplainsCode
POSTCONDITION TraceAccepted
CHECK_DEADLOCK FALSE
