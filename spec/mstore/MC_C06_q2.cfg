\* C06 quick: 2 persistent substores + the transient one, 1 key
CONSTANTS
  Stores = {"s1", "s2"}
  NK = 1  NV = 1  NTK = 1  MaxVer = 3  MaxWrites = 2  MaxViews = 1
  IterBounds <- FullOnly
  Features = {"close", "transient"}
  FirstBlockFixed = FALSE
  RecordHist = TRUE
INIT Init
NEXT NextCover
VIEW view
INVARIANTS TypeOK InfoLatestCoupled ReopenNeverFails NoResaveConflict C06_HashIgnoresTransient
PROPERTIES C06_VersionPlusOne C06_TransientEmptyAfterCommit
CHECK_DEADLOCK FALSE
