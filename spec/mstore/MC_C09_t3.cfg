\* C09 thorough: 3 substores, 2 simultaneously open views
CONSTANTS
  Stores = {"s1", "s2", "s3"}
  NK = 1  NV = 1  NTK = 1  MaxVer = 3  MaxWrites = 1  MaxViews = 2
  IterBounds <- FullOnly
  Features = {"views"}
  FirstBlockFixed = FALSE
  RecordHist = TRUE
INIT Init
NEXT NextCover
VIEW view
INVARIANTS TypeOK InfoLatestCoupled ReopenNeverFails NoResaveConflict C09_HistoricalReadsStable
CHECK_DEADLOCK FALSE
