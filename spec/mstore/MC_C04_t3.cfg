\* C04 thorough: 3 blocks, 2 values, 1 write per block
CONSTANTS
  Stores = {"s1", "s2"}
  NK = 2  NV = 2  NTK = 1  MaxVer = 3  MaxWrites = 1  MaxViews = 1
  IterBounds <- FullOnly
  Features = {"close"}
  FirstBlockFixed = FALSE
  RecordHist = TRUE
INIT Init
NEXT NextCover
VIEW view
INVARIANTS TypeOK InfoLatestCoupled ReopenNeverFails NoResaveConflict C04_ReopenExact C04_SameWritesSameHash
PROPERTIES C04_ReopenLatest
CHECK_DEADLOCK FALSE
