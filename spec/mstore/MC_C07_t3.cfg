\* C07 thorough: 3 substores x 2 keys, all 6 commit orders
CONSTANTS
  Stores = {"s1", "s2", "s3"}
  NK = 2  NV = 1  NTK = 1  MaxVer = 2  MaxWrites = 2  MaxViews = 1
  IterBounds <- FullOnly
  Features = {"crash", "close"}
  FirstBlockFixed = FALSE
  RecordHist = TRUE
INIT Init
NEXT NextCover
VIEW view
INVARIANTS TypeOK InfoLatestCoupled ReopenNeverFails NoResaveConflict 
PROPERTIES C07_CrashRecovers C07_ReexecuteSameHash
CHECK_DEADLOCK FALSE
