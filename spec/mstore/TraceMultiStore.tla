--------------------------- MODULE TraceMultiStore ---------------------------
(***************************************************************************)
(* Trace validation for the mstore engine (code -> spec).  Every event     *)
(* recorded from real rootmulti.Stores (`vh-mstore trace`: random driver,  *)
(* crash sweep over every database-write boundary of every block, rollback *)
(* sweep over every target) is re-executed with the MultiStore             *)
(* specification's own actions; the logged REAL results (contents read     *)
(* back, versions, hash ids, database records) must be the ones the        *)
(* specification computes.                                                 *)
(*                                                                         *)
(* Hashes: the log carries each distinct real hash as a small id; the      *)
(* specification carries each distinct digest (write history) as an id in  *)
(* `digs`.  `hmap` / `amap` record which real id was seen for a digest id: *)
(* the real hash must be a FUNCTION of the digest (equal histories =>      *)
(* equal hashes: reference node vs node under test, before vs after        *)
(* reopening, interrupted vs re-executed, original vs re-applied).         *)
(*                                                                         *)
(* Every judgement has a tag naming the property predicate it belongs to;  *)
(* failed judgements are recorded in `err`.  The specification's state is  *)
(* driven by its own actions, never by logged values, so a failed          *)
(* judgement cannot cascade; only when the real code itself failed (or the *)
(* known finding struck) the rest of that trace is merely consumed.        *)
(* Each property's configuration lists only its own invariant, so the      *)
(* invariant TLC reports is the verdict for exactly that property.         *)
(***************************************************************************)
EXTENDS MultiStore, IOUtils

Trace == ndJsonDeserialize(IOEnv.TRACE_FILE)

VARIABLES l,        \* next line to consume
          err,      \* set of <<line, op, tag>>: failed judgements
          bad,      \* the current trace has diverged: consume only, until the next reset
          ctx,      \* last event that stopped the process (kept even while `bad`)
          nknown,   \* occurrences of the known finding C07-firstblock in the log
          hmap,     \* Seq(real hash id | -1), aligned with digs
          amap      \* set of <<[Stores -> digest id], real app-hash id>>

tvars == <<vars, l, err, bad, ctx, nknown, hmap, amap>>

TraceInit == Init /\ l = 1 /\ err = {} /\ bad = FALSE /\ ctx = "none" /\ nknown = 0
                  /\ hmap = <<0>> /\ amap = {}      \* digest id 1 = no version saved = nil hash = real id 0

-----------------------------------------------------------------------------
\* judgements: a sequence of <<condition, tag>>; the tag of the first false condition, or ""
RECURSIVE FirstBad(_)
FirstBad(cs) == IF cs = <<>> THEN "" ELSE IF ~Head(cs)[1] THEN Head(cs)[2] ELSE FirstBad(Tail(cs))

Keep == ret' = ret /\ hist' = hist

\* tag of a hash / recovery judgement depends on what the node is doing
HashTag(w)   == CASE w = "crash" -> "C07_ReexecuteSameHash"
                  [] w = "rollback" -> "C08_ReapplySameHash"
                  [] OTHER -> "C04_SameWritesSameHash"
ReopenTag(w) == CASE w = "crash" -> "C07_CrashRecovers"
                  [] w = "rollback" -> "C08_RollbackExact"
                  [] OTHER -> "C04_ReopenExact"

Pad(hm, n) == [i \in 1..n |-> IF i <= Len(hm) THEN hm[i] ELSE -1]
\* pairs: Seq(<<digest id, real id>>); fold them into the map, remembering whether all agreed
RECURSIVE Fold(_, _, _)
Fold(hm, ok, ps) ==
    IF ps = <<>> THEN [m |-> hm, ok |-> ok]
    ELSE LET i == Head(ps)[1]  h == Head(ps)[2] IN
         IF hm[i] = -1 THEN Fold([hm EXCEPT ![i] = h], ok, Tail(ps))
         ELSE Fold(hm, ok /\ hm[i] = h, Tail(ps))
AppOK(am, ids, h) == \A p \in am : p[1] = ids => p[2] = h

FnOf(rec) == [s \in Stores |-> rec[s]]     \* a logged JSON object as a function on Stores
AllZero(seq) == \A i \in 1..Len(seq) : seq[i] = 0

\* record the outcome of one judged step
Outcome(tag, op) ==
    IF tag = "" THEN err' = err /\ bad' = bad
    ELSE /\ err' = IF Cardinality(err) < 40 THEN err \cup {<<l, op, tag>>} ELSE err
         /\ bad' = bad       \* a failed judgement does not touch the specification's own state: go on judging
         /\ PrintT(<<"TRACE-ERROR", l, op, tag>>)

-----------------------------------------------------------------------------
ResetAll ==
    /\ dsub' = [s \in Stores |-> <<>>] /\ dinfo' = <<>> /\ dlatest' = 0
    /\ up' = TRUE /\ why' = "none"
    /\ tree' = [s \in Stores |-> EmptyTree] /\ twork' = EmptyT /\ blk' = <<>>
    /\ mver' = 0 /\ cphase' = "idle" /\ cdone' = {} /\ cwrote' = {} /\ views' = NoViews
    /\ chain' = <<>> /\ tainted' = FALSE /\ digs' = << <<>> >>
    /\ Keep
    /\ bad' = FALSE /\ ctx' = "none" /\ hmap' = <<0>> /\ amap' = {}
    /\ UNCHANGED <<err, nknown>>

StoresIds(dg) == IdsOf(digs', dg)

\* ---- one handler per event kind; each is a complete next-state relation except l' -----
OnWrite(e) ==
    /\ IF e.op \in {"Set", "Del"} THEN WriteCore(e.s, e.k, e.v) ELSE TWriteCore(e.k, e.v)
    /\ Keep /\ UNCHANGED <<err, bad, ctx, nknown, hmap, amap>>

OnReExecute(e) ==
    /\ ReExecuteCore /\ Keep
    /\ Outcome(FirstBad(<< <<Len(e.blk) = Len(blk') /\ \A i \in 1..Len(blk') :
                               e.blk[i].s = blk'[i].s /\ e.blk[i].k = blk'[i].k /\ e.blk[i].v = blk'[i].v,
                            "Model_Driver">> >>), e.op)
    /\ UNCHANGED <<ctx, nknown, hmap, amap>>

OnFork(e) ==
    /\ ForkCore /\ Keep /\ ctx' = "none"
    /\ Outcome(FirstBad(<< <<e.ver = mver, "Model_Driver">> >>), e.op)
    /\ UNCHANGED <<nknown, hmap, amap>>

OnBeginCommit(e) ==
    /\ BeginCommitCore /\ Keep
    /\ LET ver == mver + 1
           rd  == RefDigestOf(chain', ver)
           ps  == IF e.new THEN [i \in 1..Len(StoreSeq) |-> <<IdIn(digs', rd[StoreSeq[i]]), e.rsub[StoreSeq[i]]>>] ELSE <<>>
           f   == Fold(Pad(hmap, Len(digs')), TRUE, ps)
       IN /\ hmap' = f.m
          /\ amap' = IF e.new THEN amap \cup {<<IdsOf(digs', rd), e.rhid>>} ELSE amap
          /\ Outcome(FirstBad(<< <<e.new = ~CatchingUp /\ e.ver = ver, "Model_Driver">>,
                                 <<e.new => e.rver = ver, "C04_SameWritesSameHash">>,
                                 <<f.ok /\ (e.new => AppOK(amap, IdsOf(digs', rd), e.rhid)), "C04_SameWritesSameHash">> >>), e.op)
    /\ UNCHANGED <<ctx, nknown>>

OnCommitSub(e) ==
    /\ CommitSubCore(e.s) /\ Keep
    /\ hmap' = Pad(hmap, Len(digs'))
    /\ Outcome(FirstBad(<< <<e.wrote = (e.s \in cwrote'), "Model_CommitSubWrote">> >>), e.op)
    /\ UNCHANGED <<ctx, nknown, amap>>

OnFlush(e) ==
    /\ FlushCore /\ Keep
    /\ LET ids == IdsOf(digs, TreeDigest(tree))
           ps  == [i \in 1..Len(StoreSeq) |-> <<ids[StoreSeq[i]], e.sub[StoreSeq[i]]>>]
           f   == Fold(Pad(hmap, Len(digs)), TRUE, ps)
       IN /\ hmap' = f.m
          /\ amap' = amap \cup {<<ids, e.hid>>}
          /\ Outcome(FirstBad(<<
                <<e.ver = mver' /\ e.lastver = mver' /\ e.latest = dlatest', "C06_VersionPlusOne">>,
                <<DOMAIN e.info = Stores /\ FnOf(e.info) = [s \in Stores |-> tree[s].v]
                    /\ FnOf(e.sv) = [s \in Stores |-> tree[s].v]
                    /\ e.infohid = e.hid /\ e.lasthid = e.hid, "C06_CommitIdWellFormed">>,
                <<AllZero(e.t) /\ e.tn = 0, "C06_TransientEmptyAfterCommit">>,
                <<FnOf(e.c) = TreeContents(tree), "C04_CommittedContents">>,
                <<f.ok /\ AppOK(amap, ids, e.hid), HashTag(why)>> >>), e.op)
    /\ ctx' = IF mver' = Len(chain) THEN "none" ELSE ctx
    /\ UNCHANGED nknown

OnStop(e) ==      \* Crash (idle or inside a commit) / Close
    /\ IF e.op = "Close" THEN CloseCore ELSE CrashCore
    /\ Keep
    /\ ctx' = IF e.op = "Close" THEN why' ELSE "crash"
    /\ Outcome(IF e.op = "Crash" /\ e.phase = "commit"
                 THEN FirstBad(<< <<FnOf(e.nv) = [s \in Stores |-> Len(dsub[s])] /\ e.latest = dlatest,
                                    "Model_CrashDisk">> >>)
                 ELSE "", e.op)
    /\ UNCHANGED <<nknown, hmap, amap>>

OnReopen(e) ==
    LET leftover == dlatest = 0 /\ \E s \in Stores : Len(dsub[s]) > 0
        clean    == e.ver = 0 /\ e.hid = 0 /\ \A s \in Stores : e.sub[s] = 0 /\ e.sv[s] = 0 /\ AllZero(e.c[s])
    IN
    /\ ReopenCore /\ Keep
    /\ IF leftover /\ ~clean
         THEN \* known finding C07-firstblock (see MultiStore!LoadZeroLoadsLeftover): reported, not judged
              /\ nknown' = nknown + 1 /\ bad' = TRUE /\ err' = err
              /\ PrintT(<<"KNOWN-FINDING", "C07-firstblock", l>>)
              /\ ctx' = "known"
              /\ UNCHANGED <<hmap, amap>>
         ELSE LET idsL == IdsOf(digs, TreeDigest(tree'))
                  ps   == [i \in 1..Len(StoreSeq) |-> <<idsL[StoreSeq[i]], e.sub[StoreSeq[i]]>>]
                  f    == Fold(Pad(hmap, Len(digs)), TRUE, ps)
              IN /\ nknown' = nknown
                 /\ hmap' = f.m /\ amap' = amap
                 /\ Outcome(FirstBad(<<
                       <<e.ver = dlatest, ReopenTag(why)>>,
                       <<IF dlatest = 0 THEN e.hid = 0 ELSE AppOK(amap, IdsOf(digs, DiskDigest(dlatest)), e.hid), ReopenTag(why)>>,
                       <<f.ok /\ FnOf(e.sv) = [s \in Stores |-> tree'[s].v], ReopenTag(why)>>,
                       <<FnOf(e.c) = TreeContents(tree'), ReopenTag(why)>>,
                       <<e.tn = 0, "C06_TransientEmptyAtStart">>,
                       \* every retained version read back through LoadVersion(v)
                       <<Len(e.vers) \in {0, dlatest} /\ \A v \in 1..Len(e.vers) :
                             /\ e.vers[v].ver = v
                             /\ FnOf(e.vers[v].c) = DiskContents(v)
                             /\ AppOK(amap, IdsOf(digs, DiskDigest(v)), e.vers[v].hid), ReopenTag(why)>> >>), e.op)
                 /\ ctx' = ctx

OnRollback(e) ==
    /\ RollbackCore(e.v) /\ Keep /\ ctx' = "rollback"
    /\ Outcome(FirstBad(<< <<FnOf(e.nv) = [s \in Stores |-> Len(dsub'[s])] /\ e.latest = dlatest'
                               /\ e.infos = [i \in 1..Len(dinfo') |-> i], "C08_RollbackExact">> >>), e.op)
    /\ UNCHANGED <<nknown, hmap, amap>>

OnLazyTry(e) ==
    /\ Keep /\ UNCHANGED <<ctx, nknown, hmap, amap>>
    /\ IF e.keep
         THEN IF e.ok THEN LazyLoadCore(e.v) /\ views'[e.r] = e.v /\ Outcome("", e.op)
                      ELSE /\ UNCHANGED <<dbvars, up, why, tree, twork, blk, mver, cphase, cdone, cwrote, views, chain, tainted, digs>>
                           /\ Outcome("C09_HistoricalViewOpens", e.op)
         ELSE /\ UNCHANGED <<dbvars, up, why, tree, twork, blk, mver, cphase, cdone, cwrote, views, chain, tainted, digs>>
              /\ Outcome(IF ~Readable(e.v) /\ e.ok THEN "C08_LaterVersionsUnreadable" ELSE "", e.op)

OnHistRead(e) ==
    /\ Keep /\ UNCHANGED <<ctx, nknown, hmap, amap>>
    /\ UNCHANGED <<dbvars, up, why, tree, twork, blk, mver, cphase, cdone, cwrote, views, chain, tainted, digs>>
    /\ Idle /\ views[e.r] # 0
    /\ Outcome(IF e.op = "HistGet"
                 THEN (IF e.ret = ViewContents(e.r, e.s)[e.k] THEN "" ELSE "C09_HistoricalReadsStable")
                 ELSE (IF e.ret = RangeItems(ViewContents(e.r, e.s), e.lo, e.hi, e.asc) THEN "" ELSE "C09_HistoricalReadsStable"),
               e.op)

OnDropView(e) ==
    /\ Keep /\ UNCHANGED <<ctx, nknown, hmap, amap, err, bad>>
    /\ Idle /\ views[e.r] # 0
    /\ views' = [views EXCEPT ![e.r] = 0]
    /\ UNCHANGED <<dbvars, up, why, tree, twork, blk, mver, cphase, cdone, cwrote, chain, tainted, digs>>

OnProtocol(e) ==  \* the database writes of a commit do not have the shape the specification models
    /\ UNCHANGED <<vars, ctx, nknown, hmap, amap>>
    /\ err' = err \cup {<<l, e.op, "Model_CommitProtocol">>} /\ bad' = TRUE
    /\ PrintT(<<"TRACE-ERROR", l, e.op, "Model_CommitProtocol">>)

\* the real code panicked / returned an error where the driver expected success
FailTag(e, w) ==
    CASE w = "known" -> "Known_Cascade"      \* consequence of the known finding already reported for this trace
      [] e.op = "Reopen" -> ReopenTag(w)
      [] e.op \in {"Flush", "BeginCommit", "ReExecute", "Set", "Del", "TSet", "TDel"} ->
            (IF w \in {"crash", "rollback"} THEN HashTag(w) ELSE "C04_CommitFails")
      [] e.op \in {"Rollback", "Fork"} -> "C08_RollbackExact"
      [] e.op \in {"HistGet", "HistIter", "LazyTry"} -> "C09_HistoricalReadsStable"
      [] OTHER -> "Model_Fail"
OnFail(e) ==
    /\ UNCHANGED <<vars, ctx, nknown, hmap, amap>>
    /\ err' = err \cup {<<l, e.op, FailTag(e, IF bad THEN ctx ELSE why)>>}
    /\ bad' = TRUE
    /\ PrintT(<<"TRACE-ERROR", l, e.op, FailTag(e, IF bad THEN ctx ELSE why), e.fail>>)

\* while the trace has diverged only the events that stop the process keep `ctx` current
OnSkipped(e) ==
    /\ UNCHANGED <<vars, err, bad, nknown, hmap, amap>>
    /\ ctx' = CASE ctx = "known" -> ctx
                [] e.op = "Crash" -> "crash" [] e.op = "Rollback" -> "rollback"
                [] e.op = "Close" /\ ctx = "none" -> "close" [] OTHER -> ctx

Step(e) ==
    CASE e.op = "reset" -> ResetAll
      [] "fail" \in DOMAIN e -> OnFail(e)
      [] bad -> OnSkipped(e)
      [] e.op \in {"Set", "Del", "TSet", "TDel"} -> OnWrite(e)
      [] e.op = "ReExecute" -> OnReExecute(e)
      [] e.op = "Fork" -> OnFork(e)
      [] e.op = "BeginCommit" -> OnBeginCommit(e)
      [] e.op = "CommitSub" -> OnCommitSub(e)
      [] e.op = "Flush" -> OnFlush(e)
      [] e.op \in {"Crash", "Close"} -> OnStop(e)
      [] e.op = "Reopen" -> OnReopen(e)
      [] e.op = "Rollback" -> OnRollback(e)
      [] e.op = "LazyTry" -> OnLazyTry(e)
      [] e.op \in {"HistGet", "HistIter"} -> OnHistRead(e)
      [] e.op = "DropView" -> OnDropView(e)
      [] e.op = "Protocol" -> OnProtocol(e)

TraceNext ==
    /\ l <= Len(Trace)
    /\ l' = l + 1
    /\ Step(Trace[l])

TraceSpec == TraceInit /\ [][TraceNext]_tvars

-----------------------------------------------------------------------------
\* One invariant per property: no recorded real-code behaviour failed a judgement of that property.
Tags(es) == {e[3] : e \in es}
C04_Tags == {"C04_ReopenExact", "C04_SameWritesSameHash", "C04_CommittedContents", "C04_CommitFails"}
C06_Tags == {"C06_VersionPlusOne", "C06_CommitIdWellFormed", "C06_TransientEmptyAfterCommit",
             "C06_TransientEmptyAtStart", "C04_SameWritesSameHash"}   \* the reference node's transient writes differ
C07_Tags == {"C07_CrashRecovers", "C07_ReexecuteSameHash"}
C08_Tags == {"C08_RollbackExact", "C08_ReapplySameHash", "C08_LaterVersionsUnreadable"}
C09_Tags == {"C09_HistoricalReadsStable", "C09_HistoricalViewOpens"}

C04_ReopenExact_SameWritesSameHash          == Tags(err) \cap C04_Tags = {}
C06_CommitIdsWellFormed_TransientNeverLeaks == Tags(err) \cap C06_Tags = {}
C07_CrashRecovers_ReexecuteSameHash         == Tags(err) \cap C07_Tags = {}
C08_RollbackExact_ReapplySameHash           == Tags(err) \cap C08_Tags = {}
C09_HistoricalReadsStable_                  == Tags(err) \cap C09_Tags = {}
\* the specification must explain the commit protocol of the code it is bound to
ModelExplainsCode == \A t \in Tags(err) : t \notin {"Model_Driver", "Model_CommitSubWrote", "Model_CrashDisk", "Model_Fail"}

TraceAccepted == TLCGet("stats").diameter = Len(Trace) + 1
=============================================================================
