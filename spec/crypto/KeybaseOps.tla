----------------------------- MODULE KeybaseOps -----------------------------
(***************************************************************************)
(* Pure operators for the key store of /repo/crypto/keys (keybase.go,      *)
(* lazy_keybase.go) and the armor layer of /repo/crypto/keys/mintkey.      *)
(*                                                                         *)
(*   key ids   1..   (0 = "no key": an error was returned)                 *)
(*   pass ids  0..   (the harness maps them to real passphrases, including *)
(*                    the empty string and a unicode one)                  *)
(*   store     function  key id -> pass id  (NONE = not stored); its       *)
(*             domain is fixed in the design model and grows in the trace  *)
(*             model                                                       *)
(*   armor     <<key, pass>>: the ideal encrypted export of `key` under    *)
(*             `pass` (mintkey.EncryptArmorPrivKey).                       *)
(*                                                                         *)
(* Ideal encryption assumption: scrypt + AES-GCM is an authenticated       *)
(* cipher, so decrypting with another passphrase, or after altering any    *)
(* authenticated part of the armor, is an error -- never another key.      *)
(***************************************************************************)
EXTENDS Integers, Sequences, FiniteSets, TLC, Json

NONE == -1

At(f, k)     == IF k \in DOMAIN f THEN f[k] ELSE NONE
Put(f, k, v) == [x \in DOMAIN f \cup {k} |-> IF x = k THEN v ELSE f[x]]
Present(st)  == {k \in DOMAIN st : st[k] # NONE}

(***************************************************************************)
(* mintkey.UnarmorDecryptPrivKey(armor, passphrase) after the armor text   *)
(* was altered at `site`.  The JSON fields "hint" and "secparam" are not   *)
(* used by decryption and not authenticated: altering them changes nothing *)
(* (as the code has it).  Everything else -- kdf name, salt, ciphertext    *)
(* bytes, base64 / hex / JSON well-formedness -- yields an error.          *)
(***************************************************************************)
Sites         == {"none", "hint", "secparam", "kdf", "salt", "saltempty", "saltbad",
                  "ctfirst", "ctmiddle", "ctlast", "cttrunc", "ctbad", "json"}
Unauthenticated == {"none", "hint", "secparam"}
DecryptRes(a, p, site) ==
    IF site \in Unauthenticated /\ a[2] = p THEN a[1] ELSE 0

\* Keybase operations: each returns <<store', ret>>; ret = 0 is "error returned"
ImportKeyRes(st, k, p)  == IF At(st, k) # NONE THEN <<st, 0>> ELSE <<Put(st, k, p), 1>>
DeleteRes(st, k, p)     == IF At(st, k) # NONE /\ At(st, k) = p THEN <<Put(st, k, NONE), 1>> ELSE <<st, 0>>
UnsafeDeleteRes(st, k)  == IF At(st, k) # NONE THEN <<Put(st, k, NONE), 1>> ELSE <<st, 0>>
UpdateRes(st, k, o, n)  == IF At(st, k) # NONE /\ At(st, k) = o THEN <<Put(st, k, n), 1>> ELSE <<st, 0>>
\* ExportPrivateKeyObject / Sign / ExportPrivKeyEncryptedArmor unlock the stored armor
UnlockRes(st, k, p)     == IF At(st, k) # NONE /\ At(st, k) = p THEN k ELSE 0
\* ImportPrivKey(armor, decryptPass, encryptPass): decrypt first, then refuse to overwrite
ImportArmorRes(st, a, dp, ep) ==
    IF DecryptRes(a, dp, "none") = 0 THEN <<st, 0>> ELSE ImportKeyRes(st, a[1], ep)

SetToSeq(S) == LET RECURSIVE F(_) F(T) == IF T = {} THEN <<>> ELSE
                   LET x == CHOOSE y \in T : \A z \in T : y <= z IN <<x>> \o F(T \ {x})
               IN F(S)
ListRes(st) == SetToSeq(Present(st))
B2I(b) == IF b THEN 1 ELSE 0
=============================================================================
