\* random builder histories over keys with up to 6 members
CONSTANTS NK = 6  KeyLists <- KL_sim  MaxSigs = 8  RecordHist = TRUE  SimDepth = 14
INIT InitMulti
NEXT NextMulti
CONSTRAINT HistBound
INVARIANTS TypeOK C39_MultisigAllMembersInOrder C39_CountMustMatch C39_MessageBinding C39_NoForeignSlot C39_OrderMatters C39_InOrderBuildVerifies EmitSim
CHECK_DEADLOCK FALSE
