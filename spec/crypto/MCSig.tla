------------------------------- MODULE MCSig -------------------------------
(* Model-checking / behaviour-generation instances of SigIdeal (C39).       *)
EXTENDS SigIdeal
CONSTANT SimDepth

\* multi-signature public keys: no member, one member, ordered pairs, a repeated member, triples
KL_quick    == { <<>>, <<1>>, <<1, 2>>, <<2, 1>>, <<1, 1>>, <<1, 2, 3>>, <<3, 1, 2>>, <<1, 2, 1>> }
KL_thorough == KL_quick \cup { <<1, 2, 3, 4>>, <<4, 3, 2, 1>>, <<1, 2, 2, 4>> }
KL_sim      == KL_thorough \cup { <<1, 2, 3, 4, 5>>, <<5, 4, 1, 2, 3>>, <<1, 2, 3, 4, 5, 6>>, <<1, 1, 2, 2, 3, 3>> }

\* transition cover: every distinct <<keys, sigs>> is expanded once and each outgoing
\* transition is printed as the shortest history reaching the state plus that step
NextMultiCover  == NextMulti /\ PrintT(ToJson(hist'))
NextSingleCover == NextSingle /\ PrintT(ToJson(hist'))

\* tlc -simulate: print each history when it reaches SimDepth
EmitSim   == Len(hist) = SimDepth => PrintT(ToJson(hist))
HistBound == Len(hist) <= SimDepth
=============================================================================
