\* the mode state machine around the constant UpgradeCodecHeight = 30024
CONSTANTS Starts <- StartsMain  Span = 5  UpHeights <- UpMain  Mods = {"A", "B"}  RecordHist = TRUE  SimDepth = 0
INIT Init
NEXT NextMachineCover
VIEW view
INVARIANTS TypeOK C38_StoreReadable C38_HistoryReadable C38_ConversionReads
CHECK_DEADLOCK FALSE
