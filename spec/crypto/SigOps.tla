------------------------------- MODULE SigOps -------------------------------
(***************************************************************************)
(* Ideal signatures and the multi-signature scheme of /repo/crypto         *)
(* (ed25519.go, secp256k1.go, multisig.go), as pure operators.             *)
(*                                                                         *)
(* Flat vocabulary (design model, MCSig):                                  *)
(*   key id      1..NK            a single (ed25519 / secp256k1) key pair  *)
(*   message id  0,1,..           distinct byte strings                    *)
(*   entry       <<signer, msg, site>>  one member slot of a               *)
(*               MultiSignature: the signature produced by `signer` over   *)
(*               `msg`, with byte `site` altered afterwards (0 = intact).  *)
(*               EMPTY = a zero-length slot, PAD = the one-byte filler     *)
(*               []byte{0} that AddSignatureByIndex inserts.               *)
(*                                                                         *)
(* Tree vocabulary (trace model, TraceSig): keys and signatures are        *)
(* records, so that nested multi-signature keys can be expressed:          *)
(*   key  [t |-> "s", id |-> k]  |  [t |-> "m", ks |-> <<key,...>>]        *)
(*   sig  [t |-> "s", k, m, site] | [t |-> "m", sigs |-> <<sig,...>>]      *)
(*        | [t |-> "e"] (empty) | [t |-> "p"] (pad) | [t |-> "g"] (bytes   *)
(*        that are no encoding of anything)                                *)
(*                                                                         *)
(* Ideal signature assumption (DESIGN.md section 8): the only byte string  *)
(* that verifies under key k for message m is the one Sign(sk(k), m)       *)
(* returns (both schemes sign deterministically; secp256k1 verification    *)
(* rejects the high-S twin).  Unforgeability itself is assumed.            *)
(***************************************************************************)
EXTENDS Integers, Sequences, FiniteSets, TLC, Json

EMPTY == <<0, 0, 0>>
PAD   == <<0, 0, 1>>
Sig(k, m)       == <<k, m, 0>>
Mutated(k, m, s) == <<k, m, s>>

\* ed25519.VerifyBytes / secp256k1.VerifyBytes on an entry
VerifySingle(pk, m, e) == e = Sig(pk, m)

\* MultiSignature.GetSignatureByIndex: a nil slot is "not found"
Found(e) == e # EMPTY

(***************************************************************************)
(* PublicKeyMultiSignature.VerifyBytes (multisig.go:27): the number of     *)
(* signatures must equal the number of member keys and the i-th signature  *)
(* must verify under the i-th key.  NOTE the code has no lower bound on    *)
(* the number of member keys: with zero member keys and zero signatures    *)
(* the loop body never runs and the result is TRUE for every message       *)
(* (named deviation EmptyMultisigVerifiesAnything; finding F-C39).         *)
(***************************************************************************)
MVerify(keys, m, sigs) ==
    /\ Len(sigs) = Len(keys)
    /\ \A i \in 1..Len(keys) : Found(sigs[i]) /\ VerifySingle(keys[i], m, sigs[i])

\* what property C39 states: "requires every member key's signature in order"
\* -- a key without members has no signer, so nothing verifies under it.
IdealMVerify(keys, m, sigs) == Len(keys) > 0 /\ MVerify(keys, m, sigs)

Known_C39_EmptyMultisig(keys) == Len(keys) = 0

(***************************************************************************)
(* MultiSignature.AddSignatureByIndex(sig, index) (multisig.go:127), index *)
(* 0-based.  An existing slot is replaced.  Otherwise the code pads with   *)
(* `for i := len; i < index-1; i++ { append([]byte{0}) }` and appends:     *)
(* the signature lands at position max(len, index-1), i.e. ONE SLOT BEFORE *)
(* `index` whenever index > len (modelled as the code has it).             *)
(***************************************************************************)
AddByIndexResult(sigs, i, e) ==
    IF Len(sigs) - 1 >= i
    THEN [sigs EXCEPT ![i + 1] = e]
    ELSE LET npad == IF i - 1 > Len(sigs) THEN i - 1 - Len(sigs) ELSE 0
         IN  sigs \o [j \in 1..npad |-> PAD] \o <<e>>

\* getIndex(pk, keys): first position holding an equal key, -1 if none (0-based)
GetIndex(k, keys) ==
    IF \E i \in 1..Len(keys) : keys[i] = k
    THEN (CHOOSE i \in 1..Len(keys) : keys[i] = k /\ \A j \in 1..(i - 1) : keys[j] # k) - 1
    ELSE -1

-----------------------------------------------------------------------------
\* Tree vocabulary
RECURSIVE VerifyTree(_, _, _)
VerifyTree(K, m, S) ==
    IF K.t = "s"
    THEN S.t = "s" /\ S.k = K.id /\ S.m = m /\ S.site = 0
    ELSE /\ S.t = "m"
         /\ Len(S.sigs) = Len(K.ks)
         /\ \A i \in 1..Len(K.ks) : S.sigs[i].t # "e" /\ VerifyTree(K.ks[i], m, S.sigs[i])

\* a multi-signature key without member keys somewhere in the tree
RECURSIVE HasEmptyMulti(_)
HasEmptyMulti(K) ==
    K.t = "m" /\ (Len(K.ks) = 0 \/ \E i \in 1..Len(K.ks) : HasEmptyMulti(K.ks[i]))

B2I(b) == IF b THEN 1 ELSE 0
=============================================================================
