\* thorough tier: three passphrases (empty, unicode, ascii), two imported keys
CONSTANTS IKeys = {1, 2}  CKeys = {3}  Pass = {0, 1, 2}  MaxArmors = 1  RecordHist = TRUE  SimDepth = 0
INIT Init
NEXT NextCover
VIEW view
INVARIANTS TypeOK C40_OnlyTheProtectingPassphrase C40_ArmorNeverAnotherKey C40_ListIsDomain
PROPERTIES C40_DeleteNeedsPassphrase C40_UpdateRevokesOld
CHECK_DEADLOCK FALSE
