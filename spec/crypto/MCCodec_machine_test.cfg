\* the mode state machine on testnet-like chains (upgrade heights 2..5), 5 blocks, 2 modules
CONSTANTS Starts <- StartsTest  Span = 5  UpHeights <- UpTest  Mods = {"A", "B"}  RecordHist = TRUE  SimDepth = 0
INIT Init
NEXT NextMachineCover
VIEW view
INVARIANTS TypeOK C38_StoreReadable C38_HistoryReadable C38_ConversionReads
CHECK_DEADLOCK FALSE
