INIT TraceInit
NEXT TraceNext
INVARIANTS C38_RoundTripsAtEveryPromisedHeight
POSTCONDITION TraceAccepted
CHECK_DEADLOCK FALSE
