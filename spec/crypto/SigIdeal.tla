------------------------------ MODULE SigIdeal ------------------------------
(***************************************************************************)
(* C39 -- signatures verify exactly for the signing key and message.       *)
(*                                                                         *)
(* Two state machines over the operators of SigOps:                        *)
(*                                                                         *)
(*  (1) NextMulti: one PublicKeyMultiSignature `keys` (chosen in Init) and *)
(*      one MultiSignature `sigs` under construction through the package's *)
(*      own builder calls AddSignatureByIndex / AddSignature; at every     *)
(*      state VerifyBytes is observed for the signed message (0) and for   *)
(*      another message (1).  Because entries are drawn from an alphabet   *)
(*      holding every member's signature, an outsider's, a signature over  *)
(*      the wrong message, a corrupted one and an empty slot, the          *)
(*      reachable `sigs` are ALL entry lists up to MaxSigs: every          *)
(*      ordering, omission, duplicate and surplus.                         *)
(*                                                                         *)
(*  (2) NextSingle: the stateless case matrix for one ed25519 / secp256k1  *)
(*      key (signer x message mutation site x signature mutation site)     *)
(*      and the encode -> decode -> compare matrix for keys and addresses. *)
(*                                                                         *)
(* Every action appends its arguments, the expected result (`ret`: what    *)
(* the code computes; `ideal`: what property C39 demands) and the expected *)
(* MultiSignature contents (`view`) to `hist`; vh-crypto replays each      *)
(* history on real keys.                                                   *)
(***************************************************************************)
EXTENDS SigOps

CONSTANTS NK,          \* member key ids 1..NK; NK+1 is an outsider that is in no key list
          KeyLists,    \* the multi-signature public keys explored (sequences over 1..NK)
          MaxSigs,     \* bound on the number of slots of the MultiSignature
          RecordHist

VARIABLES keys, sigs, hist
vars == <<keys, sigs, hist>>
view == <<keys, sigs>>

Rec(r) == IF RecordHist THEN Append(hist, r) ELSE hist

Outsider == NK + 1
\* slot contents the builder is fed with
Alphabet == {Sig(k, 0) : k \in 1..Outsider}   \* a signature over the signed message
            \cup {Sig(1, 1)}                  \* key 1 over a different message
            \cup {Mutated(1, 0, 1)}           \* key 1's signature with one byte flipped
            \cup {EMPTY}

-----------------------------------------------------------------------------
InitMulti ==
    \E ks \in KeyLists :
        /\ keys = ks
        /\ sigs = <<>>
        /\ hist = IF RecordHist THEN <<[op |-> "NewKey", keys |-> ks]>> ELSE <<>>

AddByIndex(i, e) ==
    /\ sigs' = AddByIndexResult(sigs, i, e)
    /\ UNCHANGED keys
    /\ hist' = Rec([op |-> "AddByIndex", i |-> i, e |-> e, view |-> sigs'])

\* MultiSignature.AddSignature(sig, key, keys): error when the key is not a member
AddByKey(k, e) ==
    LET idx == GetIndex(k, keys) IN
    /\ sigs' = IF idx = -1 THEN sigs ELSE AddByIndexResult(sigs, idx, e)
    /\ UNCHANGED keys
    /\ hist' = Rec([op |-> "AddByKey", k |-> k, e |-> e, ret |-> B2I(idx # -1), view |-> sigs'])

Verify(m) ==
    /\ UNCHANGED <<keys, sigs>>
    /\ hist' = Rec([op |-> "Verify", m |-> m,
                    ret   |-> B2I(MVerify(keys, m, sigs)),
                    ideal |-> B2I(IdealMVerify(keys, m, sigs))])

\* MultiSignature.Marshal -> Unmarshal and key Bytes -> NewPublicKeyBz keep every slot / member
Codec ==
    /\ UNCHANGED <<keys, sigs>>
    /\ hist' = Rec([op |-> "Codec", view |-> sigs, keys |-> keys])

NextMulti ==
    \/ \E i \in 0..(Len(sigs) + 2), e \in Alphabet : AddByIndex(i, e)
    \/ \E k \in 1..Outsider : \E e \in {x \in Alphabet : x[1] = k} : AddByKey(k, e)
    \/ \E m \in 0..1 : Verify(m)
    \/ Codec

SigsBound == Len(sigs) <= MaxSigs

-----------------------------------------------------------------------------
\* (2) single keys
KeyTypes == {"ed25519", "secp256k1"}
Signers  == {"same", "other", "othertype"}   \* who produced the signature, relative to the verifying key
\* byte-level alterations between signing and verifying (the harness applies them to real bytes)
MsgSites == {"none", "first", "middle", "last", "truncate", "append"}
SigSites == {"none", "first", "middle", "last", "truncate", "append", "empty", "highS"}
KeyKinds == {"ed25519", "secp256k1", "multi0", "multi1", "multi2", "multi3", "multi4", "nested"}
PubForms  == {"raw", "rawhex", "amino", "aminohex", "aminojson", "json", "tm", "addrhex", "stdsig"}
PrivForms == {"raw", "rawhex", "amino", "tm", "pub"}

\* forms a key kind supports: multi-signature keys have no tendermint twin, no plain-JSON
\* decoder and their raw form IS the amino form
PubFormsOf(kind) ==
    IF kind \in KeyTypes THEN PubForms ELSE {"raw", "rawhex", "amino", "aminohex", "aminojson", "addrhex", "stdsig"}

InitSingle == keys = <<>> /\ sigs = <<>> /\ hist = <<>>

VerifyOne(kt, signer, msite, ssite) ==
    /\ UNCHANGED <<keys, sigs>>
    /\ hist' = Rec([op |-> "VerifyOne", kt |-> kt, signer |-> signer, msite |-> msite, ssite |-> ssite,
                    ret |-> B2I(signer = "same" /\ msite = "none" /\ ssite = "none")])

\* decode(encode(key)) is the same key with the same address
StablePub(kind, form) ==
    /\ UNCHANGED <<keys, sigs>>
    /\ hist' = Rec([op |-> "StablePub", kind |-> kind, form |-> form, ret |-> 1])
StablePriv(kt, form) ==
    /\ UNCHANGED <<keys, sigs>>
    /\ hist' = Rec([op |-> "StablePriv", kt |-> kt, form |-> form, ret |-> 1])

NextSingle ==
    \/ \E kt \in KeyTypes, s \in Signers, ms \in MsgSites, ss \in SigSites :
          /\ (ss = "highS" => kt = "secp256k1")
          /\ VerifyOne(kt, s, ms, ss)
    \/ \E kind \in KeyKinds : \E f \in PubFormsOf(kind) : StablePub(kind, f)
    \/ \E kt \in KeyTypes, f \in PrivForms : StablePriv(kt, f)

-----------------------------------------------------------------------------
\* Design-level statements of C39 (checked by TLC on every reachable <<keys, sigs>>)
TypeOK ==
    /\ keys \in KeyLists \cup {<<>>}
    /\ \A i \in 1..Len(sigs) : sigs[i] \in Alphabet \cup {PAD}

\* a multi-signature that verifies holds, slot by slot, the member's own signature of that message
C39_MultisigAllMembersInOrder ==
    \A m \in 0..1 :
        MVerify(keys, m, sigs) =>
            \/ Known_C39_EmptyMultisig(keys)
            \/ /\ Len(sigs) = Len(keys)
               /\ \A i \in 1..Len(keys) : sigs[i] = Sig(keys[i], m)

\* fewer (or more) signatures than member keys never verify
C39_CountMustMatch == \A m \in 0..1 : Len(sigs) # Len(keys) => ~MVerify(keys, m, sigs)

\* one multi-signature never verifies for two messages -- except under the member-less key
C39_MessageBinding ==
    (MVerify(keys, 0, sigs) /\ MVerify(keys, 1, sigs)) => Known_C39_EmptyMultisig(keys)

\* an outsider's signature, a corrupted one, a pad or an empty slot anywhere => no verification
C39_NoForeignSlot ==
    \A m \in 0..1 :
        (\E i \in 1..Len(sigs) : sigs[i][1] \notin {keys[j] : j \in 1..Len(keys)} \/ sigs[i][3] # 0)
            => ~MVerify(keys, m, sigs)

\* order matters: swapping the slots of two different member keys breaks a valid multi-signature
Swap(s, i, j) == [s EXCEPT ![i] = s[j], ![j] = s[i]]
C39_OrderMatters ==
    \A m \in 0..1 :
        MVerify(keys, m, sigs) =>
            \A i, j \in 1..Len(keys) : keys[i] # keys[j] => ~MVerify(keys, m, Swap(sigs, i, j))

\* the builder used in index order yields a verifying multi-signature
RECURSIVE InOrderBuild(_, _, _)
InOrderBuild(ks, m, n) ==
    IF n = 0 THEN <<>> ELSE AddByIndexResult(InOrderBuild(ks, m, n - 1), n - 1, Sig(ks[n], m))
C39_InOrderBuildVerifies ==
    \A m \in 0..1 : Len(keys) > 0 => IdealMVerify(keys, m, InOrderBuild(keys, m, Len(keys)))

SpecMulti  == InitMulti /\ [][NextMulti]_vars
SpecSingle == InitSingle /\ [][NextSingle]_vars
=============================================================================
