--------------------------- MODULE CodecCatalogue ---------------------------
(***************************************************************************)
(* The shape lattice of C38: every registered message / state type with    *)
(* the encodings the code base uses it with (amino = legacy binary codec,   *)
(* proto = protobuf binary codec, json = amino JSON, msg = a transaction    *)
(* message that is signed and wrapped in a StdTx) and the per-field value   *)
(* variants (shapes) enumerated for it:                                     *)
(*   typical, zero (zero value), nils (nil slices / maps / addresses),      *)
(*   empties (empty non-nil ones), max (maximal integers, 2^255-1 amounts,  *)
(*   long strings, many elements), secp / multisig (other key kinds in      *)
(*   interface-typed key fields), and type-specific ones.                   *)
(* vh-crypto holds one explicit constructor per (type, shape); the check    *)
(* refuses to run when the two catalogues differ.                           *)
(***************************************************************************)
EXTENDS TLC

Catalogue ==
    ("apps.Application" :> [amino |-> TRUE, proto |-> TRUE, json |-> TRUE, msg |-> FALSE,
                                        shapes |-> {"empties", "max", "multisig", "nils", "secp", "typical", "unstaking"}]) @@
    ("apps.MsgBeginUnstake" :> [amino |-> TRUE, proto |-> TRUE, json |-> TRUE, msg |-> TRUE,
                                        shapes |-> {"typical", "zero"}]) @@
    ("apps.MsgStake" :> [amino |-> TRUE, proto |-> TRUE, json |-> TRUE, msg |-> TRUE,
                                        shapes |-> {"empties", "max", "multisig", "nils", "secp", "typical"}]) @@
    ("apps.MsgUnjail" :> [amino |-> TRUE, proto |-> TRUE, json |-> TRUE, msg |-> TRUE,
                                        shapes |-> {"typical", "zero"}]) @@
    ("auth.BaseAccount" :> [amino |-> TRUE, proto |-> TRUE, json |-> TRUE, msg |-> FALSE,
                                        shapes |-> {"empties", "max", "multisig", "nils", "nopubkey", "twocoins", "typical"}]) @@
    ("auth.ModuleAccount" :> [amino |-> TRUE, proto |-> TRUE, json |-> TRUE, msg |-> FALSE,
                                        shapes |-> {"empties", "nils", "typical"}]) @@
    ("auth.Supply" :> [amino |-> TRUE, proto |-> TRUE, json |-> TRUE, msg |-> FALSE,
                                        shapes |-> {"empties", "max", "nils", "typical"}]) @@
    ("gov.ACL" :> [amino |-> FALSE, proto |-> FALSE, json |-> TRUE, msg |-> FALSE,
                                        shapes |-> {"empties", "nils", "typical"}]) @@
    ("gov.MsgChangeParam" :> [amino |-> TRUE, proto |-> TRUE, json |-> TRUE, msg |-> TRUE,
                                        shapes |-> {"empties", "max", "nils", "typical"}]) @@
    ("gov.MsgDAOTransfer" :> [amino |-> TRUE, proto |-> TRUE, json |-> TRUE, msg |-> TRUE,
                                        shapes |-> {"burn", "typical"}]) @@
    ("gov.MsgUpgrade" :> [amino |-> TRUE, proto |-> TRUE, json |-> TRUE, msg |-> TRUE,
                                        shapes |-> {"empties", "features", "max", "typical"}]) @@
    ("gov.Upgrade" :> [amino |-> TRUE, proto |-> TRUE, json |-> TRUE, msg |-> FALSE,
                                        shapes |-> {"features", "typical", "zero"}]) @@
    ("nodes.LegacyMsgBeginUnstake" :> [amino |-> TRUE, proto |-> TRUE, json |-> TRUE, msg |-> TRUE,
                                        shapes |-> {"typical", "zero"}]) @@
    ("nodes.LegacyMsgStake" :> [amino |-> TRUE, proto |-> TRUE, json |-> TRUE, msg |-> TRUE,
                                        shapes |-> {"empties", "max", "nils", "secp", "typical"}]) @@
    ("nodes.LegacyMsgUnjail" :> [amino |-> TRUE, proto |-> TRUE, json |-> TRUE, msg |-> TRUE,
                                        shapes |-> {"typical", "zero"}]) @@
    ("nodes.LegacyValidator" :> [amino |-> TRUE, proto |-> TRUE, json |-> TRUE, msg |-> FALSE,
                                        shapes |-> {"empties", "max", "nils", "secp", "typical", "unstaking"}]) @@
    ("nodes.MsgBeginUnstake" :> [amino |-> TRUE, proto |-> TRUE, json |-> TRUE, msg |-> TRUE,
                                        shapes |-> {"empties", "nils", "typical", "zero"}]) @@
    ("nodes.MsgSend" :> [amino |-> TRUE, proto |-> TRUE, json |-> TRUE, msg |-> TRUE,
                                        shapes |-> {"max", "negative", "nils", "typical", "zeroamt"}]) @@
    ("nodes.MsgStake" :> [amino |-> FALSE, proto |-> TRUE, json |-> TRUE, msg |-> TRUE,
                                        shapes |-> {"delegators", "empties", "max", "multisig", "nils", "secp", "typical"}]) @@
    ("nodes.MsgUnjail" :> [amino |-> TRUE, proto |-> TRUE, json |-> TRUE, msg |-> TRUE,
                                        shapes |-> {"nils", "typical", "zero"}]) @@
    ("nodes.Validator" :> [amino |-> FALSE, proto |-> TRUE, json |-> TRUE, msg |-> FALSE,
                                        shapes |-> {"delegators", "empties", "max", "multisig", "nils", "secp", "typical", "unstaking", "zerotokens"}]) @@
    ("nodes.ValidatorSigningInfo" :> [amino |-> TRUE, proto |-> TRUE, json |-> TRUE, msg |-> FALSE,
                                        shapes |-> {"max", "typical", "zero"}]) @@
    ("param" :> [amino |-> FALSE, proto |-> FALSE, json |-> TRUE, msg |-> FALSE,
                                        shapes |-> {"address", "bool", "dec", "duration", "feemultipliers", "int64", "int64neg", "map", "string", "strings", "stringsempty", "uint64"}]) @@
    ("pocketcore.Evidence" :> [amino |-> FALSE, proto |-> TRUE, json |-> FALSE, msg |-> FALSE,
                                        shapes |-> {"emptyproofs", "mixed4", "noproofs", "one", "relay3"}]) @@
    ("pocketcore.MsgClaim" :> [amino |-> TRUE, proto |-> TRUE, json |-> TRUE, msg |-> TRUE,
                                        shapes |-> {"empties", "max", "stored", "typical", "zero"}]) @@
    ("pocketcore.MsgProof" :> [amino |-> TRUE, proto |-> TRUE, json |-> TRUE, msg |-> TRUE,
                                        shapes |-> {"challenge", "empties", "max", "nils", "relay"}]) @@
    ("pocketcore.Session" :> [amino |-> FALSE, proto |-> TRUE, json |-> TRUE, msg |-> FALSE,
                                        shapes |-> {"empties", "nils", "typical"}])
Types == DOMAIN Catalogue
=============================================================================
