---------------------------- MODULE TraceKeybase ----------------------------
(***************************************************************************)
(* Trace validation for C40: every call the seeded driver made on the real *)
(* keybase / armor layer (more keys, passphrases and armors than the       *)
(* design model; quoting, NUL and 1 KiB passphrases) is re-executed with   *)
(* the operators of KeybaseOps.  `st` and `arm` grow with the ids the      *)
(* recorded run mentions.  The driver keeps no model of expected results.  *)
(***************************************************************************)
EXTENDS KeybaseOps, IOUtils

Trace == ndJsonDeserialize(IOEnv.TRACE_FILE)

VARIABLES st,     \* key id -> pass id / NONE
          arm,    \* armor id -> <<key, pass>>
          l, err
tvars == <<st, arm, l, err>>

TraceInit == st = <<>> /\ arm = <<>> /\ l = 1 /\ err = <<>>

\* <<store', expected ret (sequence)>> of an event in state st
Res(e) ==
    CASE e.op = "Create"       -> <<Put(st, e.k, e.p), <<1>>>>
      [] e.op = "ImportObj"    -> LET r == ImportKeyRes(st, e.k, e.p) IN <<r[1], <<r[2]>>>>
      [] e.op = "ImportArmor"  -> LET r == ImportArmorRes(st, arm[e.a], e.dp, e.ep) IN <<r[1], <<r[2]>>>>
      [] e.op = "Delete"       -> LET r == DeleteRes(st, e.k, e.p) IN <<r[1], <<r[2]>>>>
      [] e.op = "UnsafeDelete" -> LET r == UnsafeDeleteRes(st, e.k) IN <<r[1], <<r[2]>>>>
      [] e.op = "Update"       -> LET r == UpdateRes(st, e.k, e.o, e.n) IN <<r[1], <<r[2]>>>>
      [] e.op = "Export"       -> <<st, <<B2I(UnlockRes(st, e.k, e.dp) # 0)>>>>
      [] e.op = "Get"          -> <<st, <<B2I(At(st, e.k) # NONE)>>>>
      [] e.op = "List"         -> <<st, ListRes(st)>>
      [] e.op = "Sign"         -> <<st, <<B2I(UnlockRes(st, e.k, e.p) # 0)>>>>
      [] e.op = "ExportObj"    -> <<st, <<UnlockRes(st, e.k, e.p)>>>>
      [] e.op = "Decrypt"      -> <<st, <<DecryptRes(arm[e.a], e.p, e.site)>>>>

Mutators == {"Create", "ImportObj", "ImportArmor", "Delete", "UnsafeDelete", "Update"}

TraceNext ==
    /\ l <= Len(Trace)
    /\ l' = l + 1
    /\ LET e == Trace[l] IN
       IF e.op = "reset" THEN st' = <<>> /\ arm' = <<>> /\ err' = err
       ELSE IF "fail" \in DOMAIN e THEN
            /\ UNCHANGED <<st, arm>>
            /\ err' = IF err # <<>> THEN err ELSE <<l, e.op>>
       ELSE LET r == Res(e) IN
            /\ st' = r[1]
            /\ arm' = IF e.op = "Export" /\ "aid" \in DOMAIN e THEN Put(arm, e.aid, <<e.k, e.ep>>) ELSE arm
            /\ err' = IF err # <<>> THEN err
                      ELSE IF e.ret # r[2] THEN <<l, e.op>>
                      ELSE IF e.op \in Mutators /\ e.list # ListRes(r[1]) THEN <<l, "listing">>
                      ELSE <<>>

TraceSpec == TraceInit /\ [][TraceNext]_tvars

\* C40: every result of the real keybase / armor layer is the one the specification computes
C40_KeysOnlyWithTheRightPassphrase == err = <<>>
TraceAccepted == TLCGet("stats").diameter = Len(Trace) + 1
=============================================================================
