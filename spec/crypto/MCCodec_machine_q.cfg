\* quick tier: the mode state machine on three testnet-like chains and mainnet, 3 blocks, 2 modules
CONSTANTS Starts <- StartsQuick  Span = 3  UpHeights <- UpQuick  Mods = {"A", "B"}  RecordHist = TRUE  SimDepth = 0
INIT Init
NEXT NextMachineCover
VIEW view
INVARIANTS TypeOK C38_StoreReadable C38_HistoryReadable C38_ConversionReads
CHECK_DEADLOCK FALSE
