\* quick tier: all slot lists up to 3 over the 7-symbol alphabet x 8 multi-signature keys
CONSTANTS NK = 3  KeyLists <- KL_quick  MaxSigs = 3  RecordHist = TRUE  SimDepth = 0
INIT InitMulti
NEXT NextMultiCover
VIEW view
CONSTRAINT SigsBound
INVARIANTS TypeOK C39_MultisigAllMembersInOrder C39_CountMustMatch C39_MessageBinding C39_NoForeignSlot C39_OrderMatters C39_InOrderBuildVerifies
CHECK_DEADLOCK FALSE
