----------------------------- MODULE MCKeybase -----------------------------
(* Model-checking / behaviour-generation instances of Keybase (C40).        *)
EXTENDS Keybase
CONSTANT SimDepth
NextCover == Next /\ PrintT(ToJson(hist'))
EmitSim   == Len(hist) = SimDepth => PrintT(ToJson(hist))
HistBound == Len(hist) <= SimDepth
=============================================================================
