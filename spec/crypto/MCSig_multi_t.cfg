\* thorough tier: keys with up to 4 members, slot lists up to 4 (one surplus slot for 3-member keys, all orderings for 4)
CONSTANTS NK = 4  KeyLists <- KL_thorough  MaxSigs = 4  RecordHist = TRUE  SimDepth = 0
INIT InitMulti
NEXT NextMultiCover
VIEW view
CONSTRAINT SigsBound
INVARIANTS TypeOK C39_MultisigAllMembersInOrder C39_CountMustMatch C39_MessageBinding C39_NoForeignSlot C39_OrderMatters C39_InOrderBuildVerifies
CHECK_DEADLOCK FALSE
