\* the stateless case matrix of single keys and of key / address encodings
CONSTANTS NK = 1  KeyLists = {}  MaxSigs = 0  RecordHist = TRUE  SimDepth = 0
INIT InitSingle
NEXT NextSingleCover
VIEW view
CHECK_DEADLOCK FALSE
