\* stateless case matrices: binary round trips, JSON, sign bytes, transactions (NextCasesQuickCover)
CONSTANTS Starts = {}  Span = 0  UpHeights = {}  Mods = {"A"}  RecordHist = TRUE  SimDepth = 0
INIT InitCases
NEXT NextCasesQuickCover
VIEW view
CHECK_DEADLOCK FALSE
