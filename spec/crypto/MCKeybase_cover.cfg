\* every transition of the keybase state graph: one imported key, one created key,
\* passphrases {0 = empty, 1 = unicode}, at most one exported armor
CONSTANTS IKeys = {1}  CKeys = {2}  Pass = {0, 1}  MaxArmors = 1  RecordHist = TRUE  SimDepth = 0
INIT Init
NEXT NextCover
VIEW view
INVARIANTS TypeOK C40_OnlyTheProtectingPassphrase C40_ArmorNeverAnotherKey C40_ListIsDomain
PROPERTIES C40_DeleteNeedsPassphrase C40_UpdateRevokesOld
CHECK_DEADLOCK FALSE
