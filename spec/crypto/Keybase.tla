------------------------------ MODULE Keybase ------------------------------
(***************************************************************************)
(* C40 -- stored keys are recoverable only with the right passphrase; the  *)
(* keybase behaves like a map from address to key.                         *)
(*                                                                         *)
(* One action per Keybase API call (keybase.go), results computed by the   *)
(* operators of KeybaseOps.  `armors` keeps the encrypted exports produced *)
(* so far so that they can be decrypted (with every passphrase and every    *)
(* armor mutation site) and imported again later.                          *)
(***************************************************************************)
EXTENDS KeybaseOps

CONSTANTS IKeys,      \* keys imported as raw private keys (the harness owns seeded key material)
          CKeys,      \* slots for keys generated inside the keybase by Create
          Pass,       \* passphrase ids 0..n-1
          MaxArmors, RecordHist

Keys == IKeys \cup CKeys

VARIABLES store,    \* [Keys -> Pass \cup {NONE}]
          armors,   \* Seq(<<key, pass>>)
          fresh,    \* slots of CKeys not yet used (Create always yields a new random key)
          ret, hist
vars == <<store, armors, fresh, ret, hist>>
view == <<store, armors, fresh>>

Rec(r) == IF RecordHist THEN Append(hist, r) ELSE hist

Init ==
    /\ store = [k \in Keys |-> NONE]
    /\ armors = <<>>
    /\ fresh = CKeys
    /\ ret = <<>>
    /\ hist = <<>>

\* every mutating call records the listing the keybase must show afterwards and the
\* passphrase that must unlock each key afterwards (`st`, NONE = not stored); the harness
\* probes every (key, passphrase) pair at the end of a replayed history
Mut(op, args, st2, r) ==
    /\ store' = st2
    /\ ret' = <<r>>
    /\ hist' = Rec(args @@ [op |-> op, ret |-> r, list |-> ListRes(st2), st |-> st2])
Obs(op, args, r) ==
    /\ UNCHANGED <<store, armors, fresh>>
    /\ ret' = r
    /\ hist' = Rec(args @@ [op |-> op, ret |-> r])

Create(k, p) ==
    /\ k \in fresh
    /\ fresh' = fresh \ {k}
    /\ UNCHANGED armors
    /\ Mut("Create", [k |-> k, p |-> p], Put(store, k, p), 1)

ImportObj(k, p) ==
    /\ k \in IKeys
    /\ UNCHANGED <<armors, fresh>>
    /\ LET r == ImportKeyRes(store, k, p) IN Mut("ImportObj", [k |-> k, p |-> p], r[1], r[2])

\* ExportPrivKeyEncryptedArmor(address, decryptPass, encryptPass, hint)
Export(k, dp, ep) ==
    LET ok == UnlockRes(store, k, dp) # 0 IN
    /\ ok => Len(armors) < MaxArmors
    /\ armors' = IF ok THEN Append(armors, <<k, ep>>) ELSE armors
    /\ UNCHANGED <<store, fresh>>
    /\ ret' = <<B2I(ok)>>
    /\ hist' = Rec([op |-> "Export", k |-> k, dp |-> dp, ep |-> ep, ret |-> B2I(ok)])

ImportArmor(i, dp, ep) ==
    /\ i \in 1..Len(armors)
    /\ UNCHANGED <<armors, fresh>>
    /\ LET r == ImportArmorRes(store, armors[i], dp, ep) IN
       Mut("ImportArmor", [a |-> i, dp |-> dp, ep |-> ep], r[1], r[2])

Delete(k, p) ==
    /\ UNCHANGED <<armors, fresh>>
    /\ LET r == DeleteRes(store, k, p) IN Mut("Delete", [k |-> k, p |-> p], r[1], r[2])

UnsafeDelete(k) ==
    /\ UNCHANGED <<armors, fresh>>
    /\ LET r == UnsafeDeleteRes(store, k) IN Mut("UnsafeDelete", [k |-> k], r[1], r[2])

Update(k, o, n) ==
    /\ UNCHANGED <<armors, fresh>>
    /\ LET r == UpdateRes(store, k, o, n) IN Mut("Update", [k |-> k, o |-> o, n |-> n], r[1], r[2])

Get(k)          == Obs("Get", [k |-> k], <<B2I(store[k] # NONE)>>)
List            == Obs("List", [x |-> 0], ListRes(store))
\* Sign: 1 = a signature that verifies under key k for the message (and not for another one)
Sign(k, p)      == Obs("Sign", [k |-> k, p |-> p], <<B2I(UnlockRes(store, k, p) # 0)>>)
\* ExportPrivateKeyObject: which key came back (0 = error)
ExportObj(k, p) == Obs("ExportObj", [k |-> k, p |-> p], <<UnlockRes(store, k, p)>>)
Decrypt(i, p, site) ==
    /\ i \in 1..Len(armors)
    /\ Obs("Decrypt", [a |-> i, p |-> p, site |-> site], <<DecryptRes(armors[i], p, site)>>)

Next ==
    \/ \E k \in Keys, p \in Pass : Create(k, p) \/ ImportObj(k, p) \/ Delete(k, p) \/ Sign(k, p) \/ ExportObj(k, p)
    \/ \E k \in Keys, p \in Pass, q \in Pass : Export(k, p, q) \/ Update(k, p, q)
    \/ \E i \in 1..MaxArmors, p \in Pass, q \in Pass : ImportArmor(i, p, q)
    \/ \E i \in 1..MaxArmors, p \in Pass, s \in Sites : Decrypt(i, p, s)
    \/ \E k \in Keys : Get(k) \/ UnsafeDelete(k)
    \/ List

Spec == Init /\ [][Next]_vars

-----------------------------------------------------------------------------
TypeOK ==
    /\ store \in [Keys -> Pass \cup {NONE}]
    /\ \A i \in 1..Len(armors) : armors[i][1] \in Keys /\ armors[i][2] \in Pass
    /\ fresh \subseteq CKeys
    /\ \A k \in fresh : store[k] = NONE

\* a stored key is handed out for exactly one passphrase, and it is that key
C40_OnlyTheProtectingPassphrase ==
    \A k \in Keys : store[k] # NONE =>
        \A p \in Pass : UnlockRes(store, k, p) = (IF p = store[k] THEN k ELSE 0)

\* an armor decrypts to its own key with its own passphrase, to nothing otherwise: never to another key
C40_ArmorNeverAnotherKey ==
    \A i \in 1..Len(armors) : \A p \in Pass, s \in Sites :
        LET r == DecryptRes(armors[i], p, s) IN
        /\ r \in {0, armors[i][1]}
        /\ (r # 0) => (p = armors[i][2] /\ s \in Unauthenticated)

\* the listing is exactly the set of stored keys (created or imported and not deleted)
C40_ListIsDomain == ListRes(store) = SetToSeq({k \in Keys : store[k] # NONE})

\* a key disappears only through Delete with its passphrase (or the explicit UnsafeDelete)
C40_DeleteNeedsPassphrase ==
    [][\A k \in Keys : (store[k] # NONE /\ store'[k] = NONE) =>
          (RecordHist => LET r == hist'[Len(hist')] IN
              \/ r.op = "UnsafeDelete" /\ r.k = k
              \/ r.op = "Delete" /\ r.k = k /\ r.p = store[k])]_vars

\* the passphrase of a stored key changes only through Update with the old passphrase
\* (after which the old one no longer unlocks the key)
C40_UpdateRevokesOld ==
    [][\A k \in Keys : (store[k] # NONE /\ store'[k] # NONE /\ store'[k] # store[k]) =>
          /\ UnlockRes(store', k, store[k]) = 0
          /\ (RecordHist => LET r == hist'[Len(hist')] IN r.op = "Update" /\ r.k = k /\ r.o = store[k] /\ r.n = store'[k])]_vars
=============================================================================
