----------------------------- MODULE CodecModes -----------------------------
(***************************************************************************)
(* C38 -- every stored or transmitted object round-trips through the codec;*)
(* sign bytes are canonical.                                               *)
(*                                                                         *)
(* (1) The encode / decode MODE STATE MACHINE of a node: the chain height  *)
(*     `now` advances block by block; module state cells are written with  *)
(*     the format EncFmt chooses at `now`; in the block whose height equals*)
(*     GetCodecUpgradeHeight() baseapp forces the override to protobuf and *)
(*     every module's ConvertState re-writes its state (override legacy -> *)
(*     read, override protobuf -> write, override off); governance may     *)
(*     schedule further upgrades (UpgradeHeight / OldUpgradeHeight change  *)
(*     while the chain runs).  Model-checked invariants: whatever is in    *)
(*     the store is decodable at the current height, and every snapshot of *)
(*     an earlier height stays decodable at that height (historical        *)
(*     queries), under every later configuration.                          *)
(*                                                                         *)
(* (2) The stateless CASE MATRIX: catalogue type x shape x configuration x *)
(*     override x (encode height, decode height) for the binary codecs,    *)
(*     type x shape for amino JSON, message x shape x member-order         *)
(*     permutation for sign bytes, message x fee x memo x signature shape  *)
(*     x heights for whole transactions.  `exp` is what the code promises: *)
(*     "ok" (decodes to an equal value), "unreadable" (that format is not  *)
(*     decodable at that height: no promise), "na" (the type is not used   *)
(*     with that format).                                                  *)
(*                                                                         *)
(* Round trip is the identity on abstract values by construction here;     *)
(* byte-level fidelity is decided by the replay comparison in vh-crypto.   *)
(***************************************************************************)
EXTENDS CodecOps, CodecCatalogue

CONSTANTS Starts,      \* initial <<first height, UpgradeHeight, OldUpgradeHeight>> of a chain
          Span,        \* number of blocks explored after the first height
          UpHeights,   \* heights governance may schedule an upgrade for
          Mods,        \* modules (each owns one state cell)
          RecordHist

VARIABLES uh, oh, ovr, now, h0,
          cell,      \* [Mods -> {"none", "amino", "proto"}]: format of the module's stored state
          pend,      \* modules that still have to run ConvertState in the current (upgrade) block
          snap,      \* [height -> cell at the end of that height] (what a historical query reads)
          hist
vars == <<uh, oh, ovr, now, h0, cell, pend, snap, hist>>
view == <<uh, oh, ovr, now, h0, cell, pend, snap>>

Rec(r) == IF RecordHist THEN Append(hist, r) ELSE hist

Init ==
    \E s \in Starts :
        /\ h0 = s[1] /\ now = s[1] /\ uh = s[2] /\ oh = s[3]
        /\ ovr = -1
        /\ cell = [m \in Mods |-> "none"]
        /\ pend = {}
        /\ snap = <<>>
        /\ hist = IF RecordHist THEN <<[op |-> "Start", now |-> s[1], uh |-> s[2], oh |-> s[3]]>> ELSE <<>>

\* a keeper writes its state at the current height
Put(m) ==
    /\ pend = {}
    /\ cell' = [cell EXCEPT ![m] = EncFmt(uh, oh, ovr, now)]
    /\ UNCHANGED <<uh, oh, ovr, now, h0, pend, snap>>
    /\ hist' = Rec([op |-> "Put", m |-> m, cell |-> cell'])

\* a keeper reads its state at the current height
Get(m) ==
    /\ pend = {} /\ cell[m] # "none"
    /\ UNCHANGED <<uh, oh, ovr, now, h0, cell, pend, snap>>
    /\ hist' = Rec([op |-> "Get", m |-> m, ret |-> B2I(CanDecode(uh, oh, ovr, cell[m], now))])

\* a historical query reads the version of height h with the codec gated on h
Query(m, h) ==
    /\ pend = {} /\ h \in DOMAIN snap /\ snap[h][m] # "none"
    /\ UNCHANGED <<uh, oh, ovr, now, h0, cell, pend, snap>>
    /\ hist' = Rec([op |-> "Query", m |-> m, h |-> h, ret |-> B2I(CanDecode(uh, oh, ovr, snap[h][m], h))])

\* Commit + BeginBlock of the next height (baseapp.BeginBlock forces protobuf in the upgrade block)
NextBlock ==
    /\ pend = {} /\ now < h0 + Span
    /\ now' = now + 1
    /\ snap' = (now :> cell) @@ snap
    /\ LET up == (now + 1 = CUH(uh, oh)) IN
       /\ ovr' = IF up THEN 1 ELSE ovr
       /\ pend' = IF up THEN Mods ELSE {}
       /\ hist' = Rec([op |-> "NextBlock", now |-> now + 1, upgrading |-> B2I(up)])
    /\ UNCHANGED <<uh, oh, h0, cell>>

\* keeper.ConvertState of module m (module order is a Go map order: any)
Convert(m) ==
    /\ m \in pend
    /\ CanDecode(uh, oh, 0, cell[m], now)          \* the read phase runs under SetUpgradeOverride(false)
    /\ cell' = [cell EXCEPT ![m] = IF @ = "none" THEN "none" ELSE EncFmt(uh, oh, 1, now)]
    /\ ovr' = -1                                   \* DisableUpgradeOverride at the end
    /\ pend' = pend \ {m}
    /\ UNCHANGED <<uh, oh, now, h0, snap>>
    /\ hist' = Rec([op |-> "Convert", m |-> m, cell |-> cell'])

\* gov MsgUpgrade: before the "after update" handler only UpgradeHeight changes ("old");
\* afterwards OldUpgradeHeight becomes the previous UpgradeHeight ("new").
\* Assumptions (governance discipline, not enforced by the code): upgrades are scheduled for a
\* future height, and re-scheduling never moves GetCodecUpgradeHeight() to a height that has
\* already begun (UpgradeKeepsCodecHeightAhead).  Without the second one TLC finds e.g.
\* (uh=4, oh=2) at height 1 -> "old" upgrade to 30024 -> block 2 -> "old" upgrade to 3: the codec
\* upgrade height becomes 2 = now, its conversion block is over, legacy state is unreadable.
UpgradeKeepsCodecHeightAhead(uh2, oh2) ==
    CUH(uh2, oh2) > now \/ CUH(uh2, oh2) = CUH(uh, oh)
Upgrade(kind, h) ==
    /\ pend = {} /\ h > now
    /\ UpgradeKeepsCodecHeightAhead(h, IF kind = "new" THEN uh ELSE oh)
    /\ uh' = h
    /\ oh' = IF kind = "new" THEN uh ELSE oh
    /\ UNCHANGED <<ovr, now, h0, cell, pend, snap>>
    /\ hist' = Rec([op |-> "Upgrade", kind |-> kind, h |-> h])

NextMachine ==
    \/ \E m \in Mods : Put(m) \/ Get(m) \/ Convert(m)
    \/ \E m \in Mods : \E h \in DOMAIN snap : Query(m, h)
    \/ NextBlock
    \/ \E k \in {"old", "new"}, h \in UpHeights : Upgrade(k, h)

SpecMachine == Init /\ [][NextMachine]_vars

-----------------------------------------------------------------------------
TypeOK ==
    /\ cell \in [Mods -> {"none", "amino", "proto"}]
    /\ ovr \in {-1, 0, 1}
    /\ pend \subseteq Mods

\* whatever a module stored is decodable at the current height (outside the conversion window)
C38_StoreReadable ==
    pend = {} => \A m \in Mods : cell[m] # "none" => CanDecode(uh, oh, ovr, cell[m], now)

\* a value stored at height h decodes at h for ever after, whatever upgrades were scheduled since
C38_HistoryReadable ==
    pend = {} => \A h \in DOMAIN snap : \A m \in Mods :
        snap[h][m] # "none" => CanDecode(uh, oh, ovr, snap[h][m], h)

\* inside the conversion window every not yet converted module can still be read by its ConvertState
C38_ConversionReads == \A m \in pend : CanDecode(uh, oh, 0, cell[m], now)

-----------------------------------------------------------------------------
\* (2) stateless case matrix
Configs   == {<<MAXH, 0, 0>>, <<3, 0, 0>>, <<5, 3, 4>>, <<30025, 0, 30025>>, <<10, MAXH, 1>>}   \* <<uh, oh, NCUST height>>
HeightsOf(c) == IF c[1] >= UCH THEN {-1, 0, 1, 30023, 30024, 30025, 45353}
                ELSE {-1, 0, 2, 3, 4, 5, 9, 10, 11, 30024}
Overrides == {-1, 0, 1}
Perms     == {"identity", "reverse", "rotate", "sorted", "revsorted", "shuffle", "shuffle-ws"}
FeeShapes == {"nil", "empty", "one", "two"}
MemoShapes == {"empty", "memo", "long"}
SigShapes == {"ed", "secp", "multisig", "emptysig", "nilsig", "nopubkey"}
\* node messages of the non-custodial release are rejected by the transaction decoder until NCUST is active
Node8Msgs == {"nodes.MsgStake", "nodes.MsgBeginUnstake", "nodes.MsgUnjail"}
AfterNCUST(c, h) == c[3] # 0 /\ h >= c[3]

Expect(t, f, c, o, hd) ==
    IF ~Supports(Catalogue[t], f) THEN "na"
    ELSE IF CanDecode(c[1], c[2], o, f, hd) THEN "ok" ELSE "unreadable"

RT(t, sh, c, o, he, hd) ==
    LET f == EncFmt(c[1], c[2], o, he) IN
    /\ UNCHANGED <<uh, oh, ovr, now, h0, cell, pend, snap>>
    /\ hist' = Rec([op |-> "RT", typ |-> t, shape |-> sh, uh |-> c[1], oh |-> c[2], ncust |-> c[3], ovr |-> o,
                    he |-> he, hd |-> hd, fmt |-> f, exp |-> Expect(t, f, c, o, hd),
                    \* Evidence.LegacyAminoMarshal encodes a non-protobuf struct "at height 0"
                    legacy0 |-> B2I(~After(c[1], c[2], o, 0))])

JSON(t, sh) ==
    /\ UNCHANGED <<uh, oh, ovr, now, h0, cell, pend, snap>>
    /\ hist' = Rec([op |-> "JSON", typ |-> t, shape |-> sh, uh |-> MAXH, oh |-> 0, ncust |-> 0, ovr |-> -1, exp |-> "ok"])

\* sign bytes are a function of the abstract content: `perm` re-orders the members of every JSON object
Sign(t, sh, p, fee, memo) ==
    /\ UNCHANGED <<uh, oh, ovr, now, h0, cell, pend, snap>>
    /\ hist' = Rec([op |-> "Sign", typ |-> t, shape |-> sh, perm |-> p, fee |-> fee, memo |-> memo,
                    uh |-> MAXH, oh |-> 0, ncust |-> 0, ovr |-> -1, exp |-> "ok"])

\* a whole transaction through DefaultTxEncoder(he) / DefaultTxDecoder(hd)
Tx(t, sh, sg, fee, memo, c, he, hd) ==
    LET f == EncFmt(c[1], c[2], -1, he)
        e == IF t \in Node8Msgs /\ f = "proto" /\ ~AfterNCUST(c, hd) THEN "na" ELSE Expect(t, f, c, -1, hd) IN
    /\ UNCHANGED <<uh, oh, ovr, now, h0, cell, pend, snap>>
    /\ hist' = Rec([op |-> "Tx", typ |-> t, shape |-> sh, sig |-> sg, fee |-> fee, memo |-> memo,
                    uh |-> c[1], oh |-> c[2], ncust |-> c[3], ovr |-> -1, he |-> he, hd |-> hd, fmt |-> f, exp |-> e])

Binary(t) == Catalogue[t].amino \/ Catalogue[t].proto

InitCases ==
    /\ h0 = 0 /\ now = 0 /\ uh = MAXH /\ oh = 0 /\ ovr = -1
    /\ cell = [m \in Mods |-> "none"] /\ pend = {} /\ snap = <<>> /\ hist = <<>>

NextBinary ==
    \E t \in Types : \E sh \in Catalogue[t].shapes : \E c \in Configs, o \in Overrides :
        \E he \in HeightsOf(c), hd \in HeightsOf(c) : Binary(t) /\ RT(t, sh, c, o, he, hd)

\* quick tier: every shape on the diagonal (he = hd) for every configuration and override,
\* every height pair for one representative shape per type without override
Representative == {"typical", "relay", "relay3"}
NextBinaryQuick ==
    \E t \in Types : \E sh \in Catalogue[t].shapes : \E c \in Configs, o \in Overrides :
        \E he \in HeightsOf(c), hd \in HeightsOf(c) :
            /\ Binary(t)
            /\ (he = hd \/ (o = -1 /\ sh \in Representative))
            /\ RT(t, sh, c, o, he, hd)

NextText ==
    \/ \E t \in Types : \E sh \in Catalogue[t].shapes : Catalogue[t].json /\ JSON(t, sh)
    \/ \E t \in Types : \E sh \in Catalogue[t].shapes : \E p \in Perms, fee \in FeeShapes, memo \in MemoShapes :
          Catalogue[t].msg /\ Sign(t, sh, p, fee, memo)

TxHeights(c) == IF c[1] >= UCH THEN {<<0, 100>>, <<-1, 100>>, <<-1, 30024>>, <<-1, 45353>>, <<0, 30024>>, <<0, 45353>>}
                ELSE {<<0, 2>>, <<-1, 2>>, <<-1, 4>>, <<-1, 11>>, <<0, 11>>}
NextTx ==
    \E t \in Types : \E sh \in Catalogue[t].shapes : \E sg \in SigShapes, fee \in FeeShapes, memo \in MemoShapes, c \in Configs :
        \E hp \in TxHeights(c) :
            /\ Catalogue[t].msg
            /\ (fee = "one" \/ memo = "memo")       \* fee and memo shapes vary one at a time
            /\ Tx(t, sh, sg, fee, memo, c, hp[1], hp[2])
\* quick tier: signature, fee and memo shapes vary one at a time; two configurations
NextTxQuick ==
    \E t \in Types : \E sh \in Catalogue[t].shapes : \E sg \in SigShapes, fee \in FeeShapes, memo \in MemoShapes :
        \E c \in {<<MAXH, 0, 0>>, <<10, MAXH, 1>>} : \E hp \in TxHeights(c) :
            /\ Catalogue[t].msg
            /\ \/ sg = "ed" /\ fee = "one" /\ memo = "memo"
               \/ sh \in Representative /\ ((fee = "one" /\ memo = "memo") \/ (sg = "ed" /\ (fee = "one" \/ memo = "memo")))
            /\ Tx(t, sh, sg, fee, memo, c, hp[1], hp[2])
=============================================================================
