----------------------------- MODULE TraceCodec -----------------------------
(***************************************************************************)
(* Trace validation for C38: the seeded driver sets random upgrade heights *)
(* / override on the real codec, encodes a random catalogue value at a     *)
(* random height and decodes it at another one; it logs the format the     *)
(* real bytes have (found by comparing with both direct encoders) and the  *)
(* outcome.  The specification recomputes, with the operators of CodecOps, *)
(* which format had to be chosen and whether the code promises the value   *)
(* back; GetCodecUpgradeHeight() is bound on every "reset" event.          *)
(***************************************************************************)
EXTENDS CodecOps, CodecCatalogue, IOUtils

Trace == ndJsonDeserialize(IOEnv.TRACE_FILE)

VARIABLES l, err
tvars == <<l, err>>

RTOK(e) ==
    LET f    == EncFmt(e.uh, e.oh, e.ovr, e.he)
        caps == Catalogue[e.typ] IN
    \/ ~Supports(caps, f)                              \* the type is not used with that format: no promise
    \/ /\ e.status # "encerr"
       /\ e.fmt \in {f, "both"}                        \* the mode machine's format is the real one
       /\ CanDecode(e.uh, e.oh, e.ovr, f, e.hd) => e.status = "ok"

StepOK(e) ==
    CASE e.op = "reset" -> e.cuh = CUH(e.uh, e.oh)
      [] e.op = "RT"    -> e.typ \in Types /\ e.shape \in Catalogue[e.typ].shapes /\ RTOK(e)
      [] OTHER          -> TRUE

TraceInit == l = 1 /\ err = <<>>

TraceNext ==
    /\ l <= Len(Trace)
    /\ l' = l + 1
    /\ LET e == Trace[l] IN
       err' = IF err # <<>> THEN err
              ELSE IF "fail" \in DOMAIN e THEN <<l, e.op>>
              ELSE IF ~StepOK(e) THEN <<l, e.op>>
              ELSE <<>>

TraceSpec == TraceInit /\ [][TraceNext]_tvars

\* C38: every value the code promises to give back came back equal, in the format the mode machine says
C38_RoundTripsAtEveryPromisedHeight == err = <<>>
TraceAccepted == TLCGet("stats").diameter = Len(Trace) + 1
=============================================================================
