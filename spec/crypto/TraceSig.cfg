INIT TraceInit
NEXT TraceNext
INVARIANTS C39_VerifyExactlyForKeyAndMessage
POSTCONDITION TraceAccepted
CHECK_DEADLOCK FALSE
