------------------------------ MODULE MCCodec ------------------------------
(* Model-checking / behaviour-generation instances of CodecModes (C38).     *)
EXTENDS CodecModes
CONSTANT SimDepth

\* chains: a testnet starting at genesis with the default UpgradeHeight, one whose upgrade is
\* already scheduled, one with an old upgrade height, mainnet around the constant 30024
StartsTest == { <<0, MAXH, 0>>, <<0, 2, 0>>, <<1, 4, 2>>, <<0, 3, MAXH>> }
StartsMain == { <<30021, MAXH, 0>>, <<30021, 30024, MAXH>>, <<30021, 30023, 0>> }
UpTest == {2, 3, 5}
UpMain == {30023, 30024, 30026}

NextMachineCover == NextMachine /\ PrintT(ToJson(hist'))
NextBinaryCover  == NextBinary /\ PrintT(ToJson(hist'))
NextBinaryQuickCover == NextBinaryQuick /\ PrintT(ToJson(hist'))
NextTextCover    == NextText /\ PrintT(ToJson(hist'))
NextTxCover      == NextTx /\ PrintT(ToJson(hist'))
NextTxQuickCover == NextTxQuick /\ PrintT(ToJson(hist'))
StartsQuick == { <<0, MAXH, 0>>, <<1, 4, 2>>, <<30022, MAXH, 0>> }
UpQuick == {2, 3, 30024}
NextCasesCover      == (NextBinary \/ NextText \/ NextTx) /\ PrintT(ToJson(hist'))
NextCasesQuickCover == (NextBinaryQuick \/ NextText \/ NextTxQuick) /\ PrintT(ToJson(hist'))
EmitSim   == Len(hist) = SimDepth => PrintT(ToJson(hist))
HistBound == Len(hist) <= SimDepth
=============================================================================
