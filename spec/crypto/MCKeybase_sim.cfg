\* random operation sequences: 2 imported + 2 created keys, 3 passphrases, up to 3 armors
CONSTANTS IKeys = {1, 2}  CKeys = {3, 4}  Pass = {0, 1, 2}  MaxArmors = 3  RecordHist = TRUE  SimDepth = 10
INIT Init
NEXT Next
CONSTRAINT HistBound
INVARIANTS TypeOK C40_OnlyTheProtectingPassphrase C40_ArmorNeverAnotherKey C40_ListIsDomain EmitSim
CHECK_DEADLOCK FALSE
