------------------------------ MODULE CodecOps ------------------------------
(***************************************************************************)
(* The height-dependent choice between the legacy (amino) and the current  *)
(* (protobuf) binary codec, as /repo/codec/codec.go has it.                *)
(*                                                                         *)
(*   uh, oh   the process globals codec.UpgradeHeight / OldUpgradeHeight   *)
(*            (MAXH stands for math.MaxInt64, the default of UpgradeHeight)*)
(*   ovr      Codec.upgradeOverride: -1 none, 0 forced legacy, 1 forced    *)
(*            protobuf (SetUpgradeOverride / DisableUpgradeOverride)       *)
(*   h        the height passed to Marshal* / Unmarshal* (-1 = "latest")   *)
(***************************************************************************)
EXTENDS Integers, Sequences, FiniteSets, TLC, Json

UCH  == 30024          \* const UpgradeCodecHeight
MAXH == 2147483647     \* math.MaxInt64 in the code

\* GetCodecUpgradeHeight()
CUH(uh, oh) ==
    IF uh >= UCH THEN UCH
    ELSE IF oh # 0 /\ oh < uh THEN oh
    ELSE uh

\* Codec.IsAfterCodecUpgrade(h)   (codec.TestMode is never used by the harness)
After(uh, oh, ovr, h) ==
    IF ovr # -1 THEN ovr = 1 ELSE CUH(uh, oh) <= h \/ h = -1

\* MarshalBinaryBare / MarshalBinaryLengthPrefixed of a ProtoMarshaler
EncFmt(uh, oh, ovr, h) == IF After(uh, oh, ovr, h) THEN "proto" ELSE "amino"

(***************************************************************************)
(* UnmarshalBinaryBare / UnmarshalBinaryLengthPrefixed of bytes in format  *)
(* f: before the upgrade the legacy decoder is tried first and protobuf is *)
(* the fallback; after it only protobuf is tried -- except at the one      *)
(* height h = UpgradeCodecHeight (the constant, whatever the configured    *)
(* upgrade height is), where the legacy-first fallback is used as well.    *)
(* Abstraction: a decoder fed with the other format's bytes fails (the     *)
(* harness checks the decoded VALUE, so a decoder that wrongly "succeeds"  *)
(* is caught there).                                                       *)
(***************************************************************************)
CanDecode(uh, oh, ovr, f, h) ==
    IF After(uh, oh, ovr, h)
    THEN (IF h = UCH THEN TRUE ELSE f = "proto")
    ELSE TRUE

\* does the code base use type capabilities `caps` with binary format f at all
Supports(caps, f) == IF f = "amino" THEN caps.amino ELSE caps.proto

B2I(b) == IF b THEN 1 ELSE 0
=============================================================================
