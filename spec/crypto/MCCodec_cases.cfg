\* stateless case matrices: binary round trips, JSON, sign bytes, transactions (NextCasesCover)
CONSTANTS Starts = {}  Span = 0  UpHeights = {}  Mods = {"A"}  RecordHist = TRUE  SimDepth = 0
INIT InitCases
NEXT NextCasesCover
VIEW view
CHECK_DEADLOCK FALSE
