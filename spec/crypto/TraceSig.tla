------------------------------ MODULE TraceSig ------------------------------
(***************************************************************************)
(* Trace validation for C39: every VerifyBytes call the seeded driver made *)
(* on real keys (single keys, multi-signature keys of 0..7 members, nested *)
(* multi-signature keys; honest signatures perturbed by swaps, omissions,  *)
(* duplicates, foreign signers, other messages, corrupted bytes, empty and *)
(* garbage slots) is re-evaluated with the ideal-signature operators of    *)
(* SigOps; every AddSignatureByIndex call is re-executed by                *)
(* AddByIndexResult.  The driver keeps no model of the expected results.   *)
(***************************************************************************)
EXTENDS SigOps, IOUtils

Trace == ndJsonDeserialize(IOEnv.TRACE_FILE)

\* known_findings.json lists F-C39 (the check exports KNOWN_C39=1 only then)
KnownOn == "KNOWN_C39" \in DOMAIN IOEnv /\ IOEnv.KNOWN_C39 = "1"

VARIABLES l, err
tvars == <<l, err>>

\* what C39 demands: like VerifyTree, and a key without member keys verifies nothing
RECURSIVE IdealTree(_, _, _)
IdealTree(K, m, S) ==
    IF K.t = "s"
    THEN S.t = "s" /\ S.k = K.id /\ S.m = m /\ S.site = 0
    ELSE /\ S.t = "m"
         /\ Len(K.ks) > 0
         /\ Len(S.sigs) = Len(K.ks)
         /\ \A i \in 1..Len(K.ks) : S.sigs[i].t # "e" /\ IdealTree(K.ks[i], m, S.sigs[i])

VerifyOK(e) ==
    \/ e.ret = B2I(IdealTree(e.key, e.m, e.sig))
    \/ KnownOn /\ HasEmptyMulti(e.key) /\ e.ret = B2I(VerifyTree(e.key, e.m, e.sig))

StepOK(e) ==
    CASE e.op = "Verify"     -> VerifyOK(e)
      [] e.op = "AddByIndex" -> e.after = AddByIndexResult(e.before, e.i, e.e)
      [] OTHER               -> TRUE

TraceInit == l = 1 /\ err = <<>>

TraceNext ==
    /\ l <= Len(Trace)
    /\ l' = l + 1
    /\ LET e == Trace[l] IN
       err' = IF err # <<>> THEN err
              ELSE IF "fail" \in DOMAIN e THEN <<l, e.op>>
              ELSE IF ~StepOK(e) THEN <<l, e.op>>
              ELSE <<>>

TraceSpec == TraceInit /\ [][TraceNext]_tvars

\* C39: every real verification result is the ideal one
C39_VerifyExactlyForKeyAndMessage == err = <<>>
TraceAccepted == TLCGet("stats").diameter = Len(Trace) + 1
=============================================================================
