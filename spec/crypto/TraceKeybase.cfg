INIT TraceInit
NEXT TraceNext
INVARIANTS C40_KeysOnlyWithTheRightPassphrase
POSTCONDITION TraceAccepted
CHECK_DEADLOCK FALSE
