CONSTANTS C2s <- R2  C1s <- R2  C0s <- R1  Y1s <- R1  Y0s <- R1  P = 100
          DecXs <- QX  DecYs <- DX  QuoXs <- QX  QuoYs <- QYq  RecordHist = TRUE
INIT Init
NEXT NextCover
VIEW view
CONSTRAINT Bounded
INVARIANTS TypeOK C41_ExactOrOverflow
