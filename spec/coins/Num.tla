-------------------------------- MODULE Num --------------------------------
(***************************************************************************)
(* Design model of BigInt / BigDec arithmetic (C41, numeric part): a       *)
(* one-register machine over limb numbers (see NumOps).                    *)
(*                                                                         *)
(* `reg` holds a representable number.  Set(x) loads any representable     *)
(* limb number; Add / Sub / Mul / Quo / Neg replace it by the exact result *)
(* or leave it unchanged when the operation fails (overflow panic,         *)
(* division by zero).  Parsing and the decimal rounding operations do not  *)
(* depend on the register and are enabled in the initial state only.       *)
(***************************************************************************)
EXTENDS NumOps, Sequences, Json

CONSTANTS C2s, C1s, C0s,    \* coefficient ranges of loadable numbers
          Y1s, Y0s,         \* coefficient ranges (c1, c0) of operands
          P,                \* precision of the decimal model (ONE = P ulps)
          DecXs, DecYs,     \* operand ranges of DecMul
          QuoXs, QuoYs,     \* operand ranges of DecQuo
          RecordHist

VARIABLES reg, hist
vars == <<reg, hist>>
view == <<reg>>

Rec(r) == IF RecordHist THEN Append(hist, r) ELSE hist

AllNums  == C2s \X C1s \X C0s
RegNums  == {x \in AllNums : ~Overflows(x)}
Operands == {x \in C2s \X Y1s \X Y0s : ~Overflows(x)}
ZERO     == <<0, 0, 0>>

Init == reg = ZERO /\ hist = <<>>
TypeOK == ~Overflows(reg)

Result(ret) == IF ret[1] = 0 THEN <<ret[2], ret[3], ret[4]>> ELSE reg

Set(x) ==
    /\ reg' = x
    /\ hist' = Rec([op |-> "Set", x |-> x])
Bin(op, y, ret) ==
    /\ reg' = Result(ret)
    /\ hist' = Rec([op |-> op, y |-> y, ret |-> ret])
Add(y) == Bin("Add", y, NumAddRet(reg, y))
Sub(y) == Bin("Sub", y, NumSubRet(reg, y))
Mul(y) == Bin("Mul", y, NumMulRet(reg, y))
Quo(y) == QuoDefined(reg, y) /\ Bin("Quo", y, NumQuoRet(reg, y))
Neg    == /\ reg' = LNeg(reg)
          /\ hist' = Rec([op |-> "Neg", ret |-> NumNegRet(reg)])
Cmp(y) == /\ UNCHANGED reg
          /\ hist' = Rec([op |-> "Cmp", y |-> y, ret |-> NumCmpRet(reg, y)])

AtStart == reg = ZERO /\ hist = <<>>
FromString(x) ==
    /\ AtStart /\ UNCHANGED reg
    /\ hist' = Rec([op |-> "FromString", x |-> x, ret |-> NumFromStringRet(x)])
Dec(op, x, y) ==
    /\ AtStart /\ UNCHANGED reg
    /\ op \in {"DecQuo", "DecQuoTruncate", "DecQuoRoundUp"} => (y = 0 \/ QuoExact(x, y, P))
    /\ hist' = Rec([op |-> op, x |-> x, y |-> y, ret |-> DecRet(op, x, y, P)])
DecRound(x) ==
    /\ AtStart /\ UNCHANGED reg
    /\ hist' = Rec([op |-> "DecRound", x |-> x, ret |-> DecRoundRet(x, P)])

Next ==
    \/ \E x \in RegNums : Set(x)
    \/ \E y \in Operands : Add(y) \/ Sub(y) \/ Mul(y) \/ Quo(y) \/ Cmp(y)
    \/ Neg
    \/ \E x \in AllNums : FromString(x)
    \/ \E op \in {"DecMul", "DecMulTruncate"}, x \in DecXs, y \in DecYs : Dec(op, x, y)
    \/ \E op \in {"DecQuo", "DecQuoTruncate", "DecQuoRoundUp"}, x \in QuoXs, y \in QuoYs : Dec(op, x, y)
    \/ \E x \in DecXs \cup QuoYs : DecRound(x)

\* numbers outside the loadable coefficient ranges are not expanded further
Bounded == reg \in AllNums

Spec == Init /\ [][Next]_vars

-----------------------------------------------------------------------------
\* C41 at design level.
\* (a) the lexicographic reasoning on limb numbers is sound: instantiated with a concrete base
\*     that is large against the coefficients but small enough for TLC, sign, bound and product of
\*     limb numbers agree with plain integer arithmetic
VChk == 100
Val3(x) == x[1] * VChk * VChk + x[2] * VChk + x[3]
Val5(p) == p[1] * VChk * VChk * VChk * VChk + p[2] * VChk * VChk * VChk + Val3(<<p[3], p[4], p[5]>>)
C41_LimbModelSound ==
    \A x \in AllNums :
        /\ LSign(x) = SgnI(Val3(x))
        /\ Overflows(x) <=> AbsI(Val3(x)) >= 2 * VChk * VChk
        /\ \A y \in Operands :
              /\ Val3(LAdd(x, y)) = Val3(x) + Val3(y)
              /\ Val5(LMul5(x, y)) = Val3(x) * Val3(y)
              /\ MulOverflows(LMul5(x, y)) <=> AbsI(Val3(x) * Val3(y)) >= 2 * VChk * VChk
ASSUME C41_LimbModelSound

\* (b) "exact or fail": an operation on representable numbers fails exactly when the exact result
\*     is not representable, and the register always holds a representable number (TypeOK)
C41_ExactOrOverflow ==
    \A y \in Operands :
        /\ NumAddRet(reg, y) = FAIL <=> Overflows(LAdd(reg, y))
        /\ NumSubRet(reg, y) = FAIL <=> Overflows(LSub(reg, y))
        /\ NumMulRet(reg, y) = FAIL <=> MulOverflows(LMul5(reg, y))

\* (c) documented rounding of the decimal operations: Mul / Quo round half to even, the Truncate
\*     variants round towards zero, RoundUp away from zero for positive results
C41_DecRounding ==
    \A x \in DecXs, y \in DecYs :
        LET e == x * y
            m == DecMul(x, y, P)
            t == DecMulTrunc(x, y, P)
        IN /\ 2 * AbsI(P * m - e) <= P                                   \* within half an ulp
           /\ (2 * AbsI(P * m - e) = P) => m % 2 = 0                      \* ties go to the even neighbour
           /\ AbsI(P * t) <= AbsI(e) /\ AbsI(e) - AbsI(P * t) < P          \* truncation towards zero
           /\ SgnI(t) \in {0, SgnI(e)}
C41_DecQuoRounding ==
    \A x \in QuoXs, y \in QuoYs :
        QuoExact(x, y, P) =>
            LET q == DecQuo(x, y, P)          \* q ulps; exact quotient = x * P / y ulps
                t == DecQuoTrunc(x, y, P)
                u == DecQuoRoundUp(x, y, P)
            IN /\ 2 * AbsI(q * y - x * P) <= AbsI(y)
               /\ (2 * AbsI(q * y - x * P) = AbsI(y)) => q % 2 = 0
               /\ AbsI(t * y) <= AbsI(x * P) /\ AbsI(x * P) - AbsI(t * y) < AbsI(y)
               /\ (x * P * SgnI(y) >= 0) => (u * AbsI(y) >= x * P * SgnI(y) /\ u * AbsI(y) - x * P * SgnI(y) < AbsI(y))
ASSUME C41_DecRounding
ASSUME C41_DecQuoRounding

-----------------------------------------------------------------------------
EmitAtDepth(D) == Len(hist) = D => PrintT(ToJson(hist))
=============================================================================
