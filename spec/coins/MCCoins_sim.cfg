CONSTANTS Denoms = {1, 2, 3, 4}  Amts <- MCAmtsT  SeqAmts <- MCSeqS  RecordHist = TRUE  SimDepth = 25
INIT Init
NEXT Next
INVARIANTS TypeOK EmitSim
CONSTRAINT HistBound
CHECK_DEADLOCK FALSE
