------------------------------ MODULE TraceC41 ------------------------------
(***************************************************************************)
(* Trace validation of types.Coins / BigInt / BigDec against the operators *)
(* of CoinsOps and NumOps.  The recorded run uses more denominations and   *)
(* larger amounts than the design model, and limb numbers / scaled         *)
(* decimals with larger coefficients - but only values TLC can evaluate:   *)
(* full-width random operands (up to 2^256) are NOT checkable with TLC's   *)
(* 32-bit integers and are outside what this model decides.                *)
(*                                                                         *)
(* Coin events carry the receiver implicitly: `acc` is the specification's *)
(* own coin list, updated by the specification (Load / Add / SafeSub / Sub *)
(* / NewCoins), never read from the log.  Number events are stateless.     *)
(***************************************************************************)
EXTENDS CoinsOps, NumOps, IOUtils

CONSTANTS Denoms, P

Trace == ndJsonDeserialize(IOEnv.TRACE_FILE)

VARIABLES acc, l, err
tvars == <<acc, l, err>>

\* a logged flat list <<d1, a1, d2, a2, ...>> as a coin list
Unflat(f) == [k \in 1..(Len(f) \div 2) |-> <<f[2 * k - 1], f[2 * k]>>]

TraceInit == acc = <<>> /\ l = 1 /\ err = <<>>

Expected(e) ==
    CASE e.op = "Add"      -> AddRet(acc, Unflat(e.b), Denoms)
      [] e.op = "SafeSub"  -> SafeSubRet(acc, Unflat(e.b), Denoms)
      [] e.op = "Sub"      -> SubRet(acc, Unflat(e.b), Denoms)
      [] e.op \in CmpOps   -> CmpRet(e.op, acc, Unflat(e.b), Denoms)
      [] e.op = "Pred"     -> PredRet(acc)
      [] e.op = "PredSeq"  -> PredRet(Unflat(e.a))
      [] e.op = "AmountOf" -> AmountOfRet(acc, e.d)
      [] e.op = "NewCoins" -> NewCoinsRet(Unflat(e.a), Denoms)
      [] e.op = "NumAdd"   -> NumAddRet(e.x, e.y)
      [] e.op = "NumSub"   -> NumSubRet(e.x, e.y)
      [] e.op = "NumMul"   -> NumMulRet(e.x, e.y)
      [] e.op = "NumNeg"   -> NumNegRet(e.x)
      [] e.op = "NumCmp"   -> NumCmpRet(e.x, e.y)
      [] e.op = "NumQuo"   -> NumQuoRet(e.x, e.y)
      [] e.op = "NumFromString" -> NumFromStringRet(e.x)
      [] e.op \in DecOps   -> DecRet(e.op, e.x, e.y, P)
      [] e.op = "DecRound" -> DecRoundRet(e.x, P)

Observed == {"Add", "SafeSub", "Sub", "Pred", "PredSeq", "AmountOf", "NewCoins", "NumAdd", "NumSub", "NumMul",
             "NumNeg", "NumCmp", "NumQuo", "NumFromString", "DecRound"} \cup CmpOps \cup DecOps

\* the driver must respect the enabling conditions of the specification
Enabled(e) ==
    CASE e.op \in CmpOps -> Valid(acc) /\ Valid(Unflat(e.b))
      [] e.op \in {"Add", "SafeSub", "Sub"} -> WellFormed(Unflat(e.b))
      [] e.op = "Load"   -> WellFormed(Unflat(e.a))
      [] e.op = "NumQuo" -> QuoDefined(e.x, e.y)
      [] e.op \in {"DecQuo", "DecQuoTruncate", "DecQuoRoundUp"} -> e.y = 0 \/ QuoExact(e.x, e.y, P)
      [] OTHER -> TRUE

TraceNext ==
    /\ l <= Len(Trace)
    /\ l' = l + 1
    /\ LET e == Trace[l] IN
       /\ acc' = CASE e.op = "reset"   -> <<>>
                   [] e.op = "Load"    -> Unflat(e.a)
                   [] e.op = "Add"     -> AddSpec(acc, Unflat(e.b), Denoms)
                   [] e.op = "SafeSub" -> DiffSpec(acc, Unflat(e.b), Denoms)
                   [] e.op = "Sub"     -> IF HasNeg(DiffSpec(acc, Unflat(e.b), Denoms)) THEN acc
                                          ELSE DiffSpec(acc, Unflat(e.b), Denoms)
                   [] e.op = "NewCoins" -> IF NewCoinsPanics(Unflat(e.a)) THEN acc ELSE NewCoinsSpec(Unflat(e.a), Denoms)
                   [] OTHER            -> acc
       /\ err' = IF err # <<>> THEN err
                 ELSE IF "fail" \in DOMAIN e THEN <<l, e.op>>
                 ELSE IF ~Enabled(e) THEN <<l, "driver left the specification's domain">>
                 ELSE IF e.op \in Observed /\ Expected(e) # e.ret THEN <<l, e.op>>
                 ELSE <<>>

TraceSpec == TraceInit /\ [][TraceNext]_tvars

C41_ObservationsMatch == err = <<>>
TraceAccepted == TLCGet("stats").diameter = Len(Trace) + 1
=============================================================================
