------------------------------ MODULE MCCoins ------------------------------
EXTENDS Coins
CONSTANT SimDepth
MCAmtsT == -2..3
MCAmtsQ == -1..2
MCSeqT  == -1..2
MCSeqQ  == -1..1
MCSeqS  == 0..1
NextCover == Next /\ PrintT(ToJson(hist'))
EmitSim   == EmitAtDepth(SimDepth)
HistBound == Len(hist) <= SimDepth
=============================================================================
