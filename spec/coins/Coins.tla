------------------------------- MODULE Coins -------------------------------
(***************************************************************************)
(* Design model of types.Coins (C41, coin-set part).                       *)
(*                                                                         *)
(* State: `acc`, a coin list held by a caller (think: an account balance). *)
(* Load(L) puts any well-formed list there - sorted, one entry per         *)
(* denomination, amounts possibly zero or negative, which is what a        *)
(* Coins{...} literal or a decoded message can contain.  Every other       *)
(* action is one API call with `acc` as receiver.  Add / SafeSub / Sub     *)
(* store their result in `acc`; the rest only observe.                     *)
(* NewCoins / the predicates on arbitrary (unsorted, duplicated) sequences *)
(* do not depend on `acc` and are enabled in the initial state only.       *)
(*                                                                         *)
(* The comparison predicates are judged on valid coin sets only (sorted,   *)
(* strictly positive): that is the domain on which their documentation     *)
(* defines them.                                                            *)
(***************************************************************************)
EXTENDS CoinsOps

CONSTANTS Denoms,      \* 1..ND
          Amts,        \* amounts of loadable / argument lists
          SeqAmts,     \* amounts of the arbitrary sequences given to NewCoins
          RecordHist

VARIABLES acc, hist
vars == <<acc, hist>>
view == <<acc>>

Rec(r) == IF RecordHist THEN Append(hist, r) ELSE hist

\* all well-formed lists: per denomination absent or an amount
NONE == 1000000      \* "this denomination has no entry"
ListOf(f) == SetToSortSeq({<<d, f[d]>> : d \in {x \in Denoms : f[x] # NONE}}, LAMBDA a, b : a[1] < b[1])
Lists      == {ListOf(f) : f \in [Denoms -> Amts \cup {NONE}]}
ValidLists == {L \in Lists : Valid(L)}
\* arbitrary sequences of up to |Denoms| coins
AnySeqs == UNION {[1..n -> Denoms \X SeqAmts] : n \in 0..Cardinality(Denoms)}

InRange(L) == \A k \in 1..Len(L) : L[k][2] \in Amts

Init == acc = <<>> /\ hist = <<>>

TypeOK == WellFormed(acc)

-----------------------------------------------------------------------------
Load(L) ==
    /\ acc' = L
    /\ hist' = Rec([op |-> "Load", a |-> Flat(L)])

Add(B) ==
    /\ acc' = AddSpec(acc, B, Denoms)
    /\ hist' = Rec([op |-> "Add", b |-> Flat(B), ret |-> AddRet(acc, B, Denoms)])

SafeSub(B) ==
    /\ acc' = DiffSpec(acc, B, Denoms)
    /\ hist' = Rec([op |-> "SafeSub", b |-> Flat(B), ret |-> SafeSubRet(acc, B, Denoms)])

\* Sub panics instead of returning a negative amount; the receiver is unchanged then
Sub(B) ==
    /\ acc' = IF HasNeg(DiffSpec(acc, B, Denoms)) THEN acc ELSE DiffSpec(acc, B, Denoms)
    /\ hist' = Rec([op |-> "Sub", b |-> Flat(B), ret |-> SubRet(acc, B, Denoms)])

Cmp(op, B) ==
    /\ Valid(acc) /\ Valid(B)
    /\ UNCHANGED acc
    /\ hist' = Rec([op |-> op, b |-> Flat(B), ret |-> CmpRet(op, acc, B, Denoms)])

Pred ==
    /\ UNCHANGED acc
    /\ hist' = Rec([op |-> "Pred", ret |-> PredRet(acc)])

AmountOf(d) ==
    /\ UNCHANGED acc
    /\ hist' = Rec([op |-> "AmountOf", d |-> d, ret |-> AmountOfRet(acc, d)])

NewCoins(S) ==
    /\ acc = <<>> /\ hist = <<>>
    /\ acc' = IF NewCoinsPanics(S) THEN acc ELSE NewCoinsSpec(S, Denoms)
    /\ hist' = Rec([op |-> "NewCoins", a |-> Flat(S), ret |-> NewCoinsRet(S, Denoms)])

PredSeq(S) ==
    /\ acc = <<>> /\ hist = <<>>
    /\ UNCHANGED acc
    /\ hist' = Rec([op |-> "PredSeq", a |-> Flat(S), ret |-> PredRet(S)])

Next ==
    \/ \E L \in Lists : Load(L) \/ Add(L) \/ SafeSub(L) \/ Sub(L)
    \/ \E op \in CmpOps, B \in ValidLists : Cmp(op, B)
    \/ Pred
    \/ \E d \in Denoms : AmountOf(d)
    \/ \E S \in AnySeqs : NewCoins(S) \/ PredSeq(S)

\* states whose amounts left the loadable range are not expanded further
Bounded == InRange(acc)

Spec == Init /\ [][Next]_vars

-----------------------------------------------------------------------------
\* C41 at design level: the code's algorithms (Part 2 of CoinsOps) against multiset arithmetic,
\* for the receiver `acc` and every argument list.

\* the sorted merge adds per denomination and its result is canonical
C41_AddIsMultisetSum ==
    \A B \in Lists : /\ Merge(acc, B) = AddSpec(acc, B, Denoms)
                     /\ Canonical(Merge(acc, B))
                     /\ AsMap(Merge(acc, B), Denoms) = [d \in Denoms |-> AmountIn(acc, d) + AmountIn(B, d)]

\* subtraction subtracts per denomination and reports a negative amount instead of hiding it
C41_SubReportsNegative ==
    \A B \in Lists :
        LET r == SafeSubImpl(acc, B)
        IN /\ r[1] = DiffSpec(acc, B, Denoms)
           /\ Canonical(r[1])
           /\ r[2] <=> (\E d \in Denoms : AmountIn(acc, d) - AmountIn(B, d) < 0)

\* the binary search finds the amount of every denomination in a well-formed list
C41_AmountOfExact == \A d \in Denoms : AmountOfImpl(acc, d) = AmountIn(acc, d)

\* on valid coin sets the predicates as written mean what their documentation says
C41_ComparisonsAsDocumented ==
    Valid(acc) => \A B \in ValidLists, op \in CmpOps : CompareImpl(op, acc, B) = Compare(op, acc, B, Denoms)

\* a valid set stays valid under Add; under Sub when no panic
C41_ValidPreserved ==
    Valid(acc) => \A B \in ValidLists :
        /\ Valid(AddSpec(acc, B, Denoms))
        /\ ~HasNeg(DiffSpec(acc, B, Denoms)) => Valid(DiffSpec(acc, B, Denoms))

-----------------------------------------------------------------------------
EmitAtDepth(D) == Len(hist) = D => PrintT(ToJson(hist))
=============================================================================
