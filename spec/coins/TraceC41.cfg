CONSTANTS Denoms = {1, 2, 3, 4, 5, 6}  P = 100
INIT TraceInit
NEXT TraceNext
INVARIANTS C41_ObservationsMatch
POSTCONDITION TraceAccepted
CHECK_DEADLOCK FALSE
