\* transition cover + design-level invariants (the algorithms as written = multiset arithmetic)
CONSTANTS Denoms = {1, 2, 3}  Amts <- MCAmtsT  SeqAmts <- MCAmtsQ  RecordHist = TRUE  SimDepth = 0
INIT Init
NEXT NextCover
VIEW view
CONSTRAINT Bounded
INVARIANTS TypeOK C41_AddIsMultisetSum C41_SubReportsNegative C41_AmountOfExact C41_ComparisonsAsDocumented C41_ValidPreserved
