------------------------------ MODULE CoinsOps ------------------------------
(***************************************************************************)
(* Coin sets (types/coin.go) against multiset arithmetic (C41).            *)
(*                                                                         *)
(* A coin list is a sequence of <<denom, amount>>; denominations are the   *)
(* integers 1..ND in the order of their names (the harness maps d to a     *)
(* lower-case name, keeping the order).  The multiset view of a list is    *)
(* the function Denom -> Int that sums the amounts per denomination.       *)
(*                                                                         *)
(* Part 1: what C41 states (arithmetic in the map, canonical results).     *)
(* Part 2: what the code does (the sorted merge of safeAdd, SafeSub as     *)
(* merge with the negated list, NewCoins' sanitisation, the comparison     *)
(* predicates), so that TLC can check Part 2 against Part 1.               *)
(***************************************************************************)
EXTENDS Integers, Sequences, FiniteSets, SequencesExt, TLC, Json

-----------------------------------------------------------------------------
\* Part 1: multisets

RECURSIVE AmountIn(_, _)
AmountIn(L, d) == IF L = <<>> THEN 0 ELSE (IF Head(L)[1] = d THEN Head(L)[2] ELSE 0) + AmountIn(Tail(L), d)

DenomsOf(L) == {L[k][1] : k \in 1..Len(L)}
AsMap(L, D) == [d \in D |-> AmountIn(L, d)]

\* canonical list of a map: sorted by denomination, no zero entry, one entry per denomination
Canon(m) ==
    SetToSortSeq({<<d, m[d]>> : d \in {x \in DOMAIN m : m[x] # 0}}, LAMBDA a, b : a[1] < b[1])

StrictlySorted(L) == \A k \in 1..(Len(L) - 1) : L[k][1] < L[k + 1][1]
\* what the API takes: sorted by denomination, one entry per denomination (entries may be zero or negative)
WellFormed(L) == StrictlySorted(L)
\* what every result must be
Canonical(L) == StrictlySorted(L) /\ \A k \in 1..Len(L) : L[k][2] # 0
\* Coins.IsValid: canonical and strictly positive
Valid(L) == StrictlySorted(L) /\ \A k \in 1..Len(L) : L[k][2] > 0

AddSpec(A, B, D)  == Canon([d \in D |-> AmountIn(A, d) + AmountIn(B, d)])
DiffSpec(A, B, D) == Canon([d \in D |-> AmountIn(A, d) - AmountIn(B, d)])
HasNeg(L)         == \E k \in 1..Len(L) : L[k][2] < 0

\* comparison predicates on valid coin sets, by their documented meaning
\* (absent denomination = amount 0; an empty receiver is never "all greater")
AllGT(A, B, D)  == A # <<>> /\ \A d \in DenomsOf(B) : AmountIn(A, d) > AmountIn(B, d)
AllGTE(A, B, D) == \A d \in DenomsOf(B) : AmountIn(A, d) >= AmountIn(B, d)
AnyGT(A, B, D)  == \E d \in DenomsOf(A) \cap DenomsOf(B) : AmountIn(A, d) > AmountIn(B, d)
AnyGTE(A, B, D) == \E d \in DenomsOf(A) \cap DenomsOf(B) : AmountIn(A, d) >= AmountIn(B, d)
Compare(op, A, B, D) ==
    CASE op = "IsAllGT"  -> AllGT(A, B, D)
      [] op = "IsAllGTE" -> AllGTE(A, B, D)
      [] op = "IsAllLT"  -> AllGT(B, A, D)
      [] op = "IsAllLTE" -> AllGTE(B, A, D)
      [] op = "IsAnyGT"  -> AnyGT(A, B, D)
      [] op = "IsAnyGTE" -> AnyGTE(A, B, D)
CmpOps == {"IsAllGT", "IsAllGTE", "IsAllLT", "IsAllLTE", "IsAnyGT", "IsAnyGTE"}

\* NewCoins(S) for an arbitrary sequence S (any order, duplicates, zero / negative amounts):
\* zero coins are dropped, the rest is sorted; a duplicate denomination or a non-positive amount
\* among the rest is refused (panic)
NonZero(L) == SelectSeq(L, LAMBDA c : c[2] # 0)
NewCoinsPanics(S) ==
    LET R == NonZero(S)
    IN \/ \E j, k \in 1..Len(R) : j # k /\ R[j][1] = R[k][1]
       \/ \E k \in 1..Len(R) : R[k][2] < 0
NewCoinsSpec(S, D) == Canon([d \in D |-> AmountIn(S, d)])

-----------------------------------------------------------------------------
\* observations: flat integer sequences
RECURSIVE Flat(_)
Flat(L) == IF L = <<>> THEN <<>> ELSE <<L[1][1], L[1][2]>> \o Flat(Tail(L))
B2I(b) == IF b THEN 1 ELSE 0

\* ret = <<0>> \o result, or <<1>> when the call panics
AddRet(A, B, D)     == <<0>> \o Flat(AddSpec(A, B, D))
SafeSubRet(A, B, D) == LET r == DiffSpec(A, B, D) IN <<0, B2I(HasNeg(r))>> \o Flat(r)
SubRet(A, B, D)     == LET r == DiffSpec(A, B, D) IN IF HasNeg(r) THEN <<1>> ELSE <<0>> \o Flat(r)
CmpRet(op, A, B, D) == <<0, B2I(Compare(op, A, B, D))>>
NewCoinsRet(S, D)   == IF NewCoinsPanics(S) THEN <<1>> ELSE <<0>> \o Flat(NewCoinsSpec(S, D))
\* IsValid, IsZero, IsAnyNegative, IsAllPositive, Empty of a list (any sequence)
PredRet(L) == <<0, B2I(Valid(L)),
                   B2I(\A k \in 1..Len(L) : L[k][2] = 0),
                   B2I(\E k \in 1..Len(L) : L[k][2] < 0),
                   B2I(L # <<>> /\ \A k \in 1..Len(L) : L[k][2] > 0),
                   B2I(L = <<>>)>>
AmountOfRet(L, d) == <<0, AmountIn(L, d)>>

-----------------------------------------------------------------------------
\* Part 2: the mechanism

\* Coins.safeAdd: merge of two lists sorted by denomination
RECURSIVE Merge(_, _)
Merge(A, B) ==
    IF A = <<>> THEN NonZero(B)
    ELSE IF B = <<>> THEN NonZero(A)
    ELSE LET a == Head(A)
             b == Head(B)
         IN IF a[1] < b[1] THEN (IF a[2] # 0 THEN <<a>> ELSE <<>>) \o Merge(Tail(A), B)
            ELSE IF a[1] = b[1]
                 THEN (IF a[2] + b[2] # 0 THEN << <<a[1], a[2] + b[2]>> >> ELSE <<>>) \o Merge(Tail(A), Tail(B))
            ELSE (IF b[2] # 0 THEN <<b>> ELSE <<>>) \o Merge(A, Tail(B))

Negate(L) == [k \in 1..Len(L) |-> <<L[k][1], 0 - L[k][2]>>]
\* Coins.SafeSub
SafeSubImpl(A, B) == LET r == Merge(A, Negate(B)) IN <<r, HasNeg(r)>>

\* Coins.AmountOf: binary search
RECURSIVE AmountOfImpl(_, _)
AmountOfImpl(L, d) ==
    IF Len(L) = 0 THEN 0
    ELSE IF Len(L) = 1 THEN (IF L[1][1] = d THEN L[1][2] ELSE 0)
    ELSE LET mid == Len(L) \div 2 + 1      \* coins[len/2], 1-based
         IN IF d < L[mid][1] THEN AmountOfImpl(SubSeq(L, 1, mid - 1), d)
            ELSE IF d = L[mid][1] THEN L[mid][2]
            ELSE AmountOfImpl(SubSeq(L, mid + 1, Len(L)), d)

\* Coins.IsAllGT / IsAllGTE / IsAnyGT / IsAnyGTE as written
DenomsSubsetOfImpl(A, B) == Len(A) <= Len(B) /\ \A k \in 1..Len(A) : AmountOfImpl(B, A[k][1]) # 0
AllGTImpl(A, B) ==
    IF Len(A) = 0 THEN FALSE
    ELSE IF Len(B) = 0 THEN TRUE
    ELSE IF ~DenomsSubsetOfImpl(B, A) THEN FALSE
    ELSE \A k \in 1..Len(B) : AmountOfImpl(A, B[k][1]) > B[k][2]
AllGTEImpl(A, B) ==
    IF Len(B) = 0 THEN TRUE
    ELSE IF Len(A) = 0 THEN FALSE
    ELSE \A k \in 1..Len(B) : ~(B[k][2] > AmountOfImpl(A, B[k][1]))
AnyGTImpl(A, B) ==
    IF Len(B) = 0 THEN FALSE
    ELSE \E k \in 1..Len(A) : LET amt == AmountOfImpl(B, A[k][1]) IN A[k][2] > amt /\ amt # 0
AnyGTEImpl(A, B) ==
    IF Len(B) = 0 THEN FALSE
    ELSE \E k \in 1..Len(A) : LET amt == AmountOfImpl(B, A[k][1]) IN A[k][2] >= amt /\ amt # 0
CompareImpl(op, A, B) ==
    CASE op = "IsAllGT"  -> AllGTImpl(A, B)
      [] op = "IsAllGTE" -> AllGTEImpl(A, B)
      [] op = "IsAllLT"  -> AllGTImpl(B, A)
      [] op = "IsAllLTE" -> AllGTEImpl(B, A)
      [] op = "IsAnyGT"  -> AnyGTImpl(A, B)
      [] op = "IsAnyGTE" -> AnyGTEImpl(A, B)
=============================================================================
