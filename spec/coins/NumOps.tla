------------------------------- MODULE NumOps -------------------------------
(***************************************************************************)
(* Bounded integers and fixed-point decimals (types/int.go,                *)
(* types/decimal.go) for C41: "integer and decimal operations either       *)
(* return the exact (or documented rounded) value or fail on overflow".    *)
(*                                                                         *)
(* TLC's integers are 32 bit wide, the code's bounds are 2^255 (BigInt)    *)
(* and 2^315 (BigDec's underlying integer).  Two abstractions:             *)
(*                                                                         *)
(* (1) LIMB NUMBERS for the overflow boundary.  A number is                *)
(*     <<c2, c1, c0>> = c2*V^2 + c1*V + c0 with small coefficients and a   *)
(*     base V that is never evaluated: V is only assumed to be larger than *)
(*     twice any coefficient sum that occurs, so sign and order are        *)
(*     lexicographic, and the bound is MAX = 2*V^2 - 1 (|x| <= MAX         *)
(*     representable, |x| >= 2*V^2 overflows).  The harness instantiates   *)
(*     V = 2^127 for BigInt (2*V^2 = 2^255) and V = 2^157 for the integer  *)
(*     under a BigDec (2*V^2 = 2^315 = 2^(255+DecimalPrecisionBits)).      *)
(*     Addition, subtraction, negation and multiplication of limb numbers  *)
(*     are exact polynomial arithmetic in V.                               *)
(*                                                                         *)
(* (2) SCALED DECIMALS for rounding.  A decimal is an integer number of    *)
(*     "ulps"; ONE = P ulps.  The specification evaluates the code's       *)
(*     formulas with P = 100; the code has P = 10^18.  The harness maps    *)
(*     operands so that the real computation goes through the same         *)
(*     quotient / remainder decisions (see DecMul / DecQuo below), hence   *)
(*     the real result in real ulps equals the specified result in         *)
(*     specification ulps.  Numeric accuracy on full-width operands is     *)
(*     outside this model.                                                 *)
(***************************************************************************)
EXTENDS Integers, Sequences, FiniteSets, TLC

-----------------------------------------------------------------------------
\* (1) limb numbers

SgnI(n) == IF n > 0 THEN 1 ELSE IF n < 0 THEN -1 ELSE 0
AbsI(n) == IF n < 0 THEN 0 - n ELSE n
LSign(x) == IF x[1] # 0 THEN SgnI(x[1]) ELSE IF x[2] # 0 THEN SgnI(x[2]) ELSE SgnI(x[3])
LNeg(x)    == <<0 - x[1], 0 - x[2], 0 - x[3]>>
LAdd(x, y) == <<x[1] + y[1], x[2] + y[2], x[3] + y[3]>>
LSub(x, y) == <<x[1] - y[1], x[2] - y[2], x[3] - y[3]>>
LAbs(x)    == IF LSign(x) < 0 THEN LNeg(x) ELSE x
LLess(x, y) == LSign(LSub(x, y)) < 0

\* |x| >= 2*V^2, i.e. the bit length exceeds the bound
Overflows(x) == LSign(LSub(LAbs(x), <<2, 0, 0>>)) >= 0

\* exact product as coefficients of V^4 .. V^0
LMul5(x, y) == << x[1] * y[1],
                  x[1] * y[2] + x[2] * y[1],
                  x[1] * y[3] + x[2] * y[2] + x[3] * y[1],
                  x[2] * y[3] + x[3] * y[2],
                  x[3] * y[3] >>
MulOverflows(p) == p[1] # 0 \/ p[2] # 0 \/ Overflows(<<p[3], p[4], p[5]>>)

\* observations: <<0, c2, c1, c0>> exact result, <<1>> the call fails (panics / reports not ok)
OK3(x) == <<0, x[1], x[2], x[3]>>
FAIL   == <<1>>

NumAddRet(x, y) == IF Overflows(LAdd(x, y)) THEN FAIL ELSE OK3(LAdd(x, y))
NumSubRet(x, y) == IF Overflows(LSub(x, y)) THEN FAIL ELSE OK3(LSub(x, y))
NumNegRet(x)    == OK3(LNeg(x))
NumMulRet(x, y) == LET p == LMul5(x, y) IN IF MulOverflows(p) THEN FAIL ELSE OK3(<<p[3], p[4], p[5]>>)
\* parsing a decimal string of a limb number: refused exactly when out of range
NumFromStringRet(x) == IF Overflows(x) THEN FAIL ELSE OK3(x)
\* comparison of two representable numbers: <<0, -1 | 0 | 1>>
NumCmpRet(x, y) == <<0, LSign(LSub(x, y))>>

\* integer division (big.Int.Quo: truncated towards zero; divisor zero fails), on plain small
\* integers, and coefficient-wise when a small divisor divides every coefficient
TruncDiv(a, b) == SgnI(a) * SgnI(b) * (AbsI(a) \div AbsI(b))
Small(x) == x[1] = 0 /\ x[2] = 0
QuoDefined(x, y) ==
    /\ Small(y)
    /\ IF y[3] = 0 \/ Small(x) THEN TRUE
       ELSE x[1] % AbsI(y[3]) = 0 /\ x[2] % AbsI(y[3]) = 0 /\ x[3] % AbsI(y[3]) = 0
NumQuoRet(x, y) ==
    IF y[3] = 0 THEN FAIL
    ELSE IF Small(x) THEN OK3(<<0, 0, TruncDiv(x[3], y[3])>>)
    ELSE OK3(<<TruncDiv(x[1], y[3]), TruncDiv(x[2], y[3]), TruncDiv(x[3], y[3])>>)

-----------------------------------------------------------------------------
\* (2) scaled decimals


\* chopPrecisionAndRound: n / d rounded half to even, on the absolute value (sign put back)
RoundHalfEven(n, d) ==
    LET a == AbsI(n)
        q == a \div d
        r == a % d
        up == IF 2 * r < d THEN q
              ELSE IF 2 * r > d THEN q + 1
              ELSE IF q % 2 = 0 THEN q ELSE q + 1
    IN SgnI(n) * up
\* chopPrecisionAndTruncate: big.Int.Quo, towards zero
Trunc(n, d) == TruncDiv(n, d)
\* chopPrecisionAndRoundUp: away from zero for positive numbers, towards zero for negative ones
RoundUp(n, d) ==
    IF n < 0 THEN 0 - (AbsI(n) \div d)
    ELSE IF n % d = 0 THEN n \div d ELSE n \div d + 1

\* BigDec.Mul / MulTruncate with precision P (operands and result in ulps)
DecMul(x, y, P)      == RoundHalfEven(x * y, P)
DecMulTrunc(x, y, P) == Trunc(x * y, P)
\* BigDec.Quo / QuoTruncate / QuoRoundUp: (x * P * P) quo y first (truncated), then chopped by P
DecQuo(x, y, P)        == RoundHalfEven(TruncDiv(x * P * P, y), P)
DecQuoTrunc(x, y, P)   == Trunc(TruncDiv(x * P * P, y), P)
DecQuoRoundUp(x, y, P) == RoundUp(TruncDiv(x * P * P, y), P)
\* the first division is exact: the class of operands on which P = 100 and P = 10^18 take the
\* same decisions under the harness' operand mapping
QuoExact(x, y, P) == IF y = 0 THEN FALSE ELSE (x * P * P) % AbsI(y) = 0
\* RoundInt64 / TruncateInt64 of a decimal given in ulps
DecRoundInt(x, P) == RoundHalfEven(x, P)
DecTruncInt(x, P) == Trunc(x, P)

DecOps == {"DecMul", "DecMulTruncate", "DecQuo", "DecQuoTruncate", "DecQuoRoundUp"}
DecRet(op, x, y, P) ==
    CASE op = "DecMul"         -> <<0, DecMul(x, y, P)>>
      [] op = "DecMulTruncate" -> <<0, DecMulTrunc(x, y, P)>>
      [] op = "DecQuo"         -> IF y = 0 THEN <<1>> ELSE <<0, DecQuo(x, y, P)>>
      [] op = "DecQuoTruncate" -> IF y = 0 THEN <<1>> ELSE <<0, DecQuoTrunc(x, y, P)>>
      [] op = "DecQuoRoundUp"  -> IF y = 0 THEN <<1>> ELSE <<0, DecQuoRoundUp(x, y, P)>>
DecRoundRet(x, P) == <<0, DecRoundInt(x, P), DecTruncInt(x, P)>>
=============================================================================
