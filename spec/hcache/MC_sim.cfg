\* random deep histories: 4 keys, empty + two ordinary values, capacity 3, up to 12 blocks, restarts
CONSTANTS NK = 4  Cap = 3  MaxH = 12  Restarts = TRUE  RecordHist = TRUE  SimDepth = 40
CONSTANT Vals <- VE12
CONSTANT Dev <- DevNone
INIT Init
NEXT Next
INVARIANTS TypeOK CurrentMirrorsWork SnapshotsExact CurrentHeightNotServed SlotsDistinct NewestKept EmitSim
CONSTRAINT HistBound
CHECK_DEADLOCK FALSE
