\* thorough: the repaired cache is transparent; 3 keys, capacity 3, 4 blocks (eviction), restarts
CONSTANTS NK = 3  Cap = 3  MaxH = 4  Restarts = TRUE  RecordHist = FALSE  SimDepth = 0
CONSTANT Vals <- V1
CONSTANT Dev <- DevNone
INIT Init
NEXT Next
VIEW view
INVARIANTS TypeOK CurrentMirrorsWork SnapshotsExact CurrentHeightNotServed SlotsDistinct NewestKept C10_CacheTransparent
