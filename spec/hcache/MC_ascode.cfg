\* the cache as the pinned tree has it: C10 is violated by the design model itself
CONSTANTS NK = 3  NV = 2  Cap = 2  MaxH = 3  RecordHist = TRUE  SimDepth = 0
CONSTANT Dev <- AllDev
INIT Init
NEXT Next
VIEW view
INVARIANTS TypeOK CurrentMirrorsWork SnapshotsExact CurrentHeightNotServed SlotsDistinct NewestKept C10_CacheTransparent_Witness
