\* the cache as the pinned tree has it (all named deviations on): the design model itself violates C10
CONSTANTS NK = 2  Cap = 2  MaxH = 2  Restarts = TRUE  RecordHist = TRUE  SimDepth = 0
CONSTANT Vals <- VE1
CONSTANT Dev <- AllDev
INIT Init
NEXT Next
VIEW view
INVARIANTS TypeOK CurrentMirrorsWork SnapshotsExact CurrentHeightNotServed SlotsDistinct NewestKept C10_CacheTransparent_Witness
