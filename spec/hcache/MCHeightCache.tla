--------------------------- MODULE MCHeightCache ---------------------------
(* Model-checking / behaviour-generation instances of HeightCache.          *)
EXTENDS HeightCache
CONSTANT SimDepth

\* Transition cover (see ENGINE-GUIDE): with VIEW view every distinct abstract state is
\* expanded once from its shortest history and every outgoing transition is printed.
NextCover == Next /\ PrintT(ToJson(hist'))

\* Random deep behaviours (tlc -simulate)
EmitSim   == Len(hist) = SimDepth => PrintT(ToJson(hist))
HistBound == Len(hist) <= SimDepth

\* Candidate counterexamples, one named deviation at a time: in every reachable state and for
\* every deviation d, if the cache with exactly {d} switched on disagrees with the tree on some
\* read, print the history that reached the state plus one witness read (a behaviour the harness
\* replays on the two real stores).  Always TRUE: the run enumerates, it does not stop.
EmitWitnesses ==
    \A d \in Deviation :
        LET bad == {r \in ServedReads : ReadA(St, r, {d}) # ReadB(St, r)} IN
        \/ bad = {}
        \/ LET r == CHOOSE x \in bad : TRUE IN
           PrintT(ToJson(Append(hist, [op |-> "Read", dev |-> d, read |-> r])))

DevNone == {}
\* value sets
V1  == {1}
VE1 == {EMPTY, 1}
V12 == {1, 2}
VE12 == {EMPTY, 1, 2}
=============================================================================
