CONSTANTS NK = 12
INIT TraceInit
NEXT TraceNext
INVARIANTS C10_CacheTransparent OracleIsReference ServedAsModelled ModelFitsCode
POSTCONDITION TraceAccepted
CHECK_DEADLOCK FALSE
