\* quick: every transition; 3 keys present/absent, 3 blocks, capacity 2 (eviction), no restarts
CONSTANTS NK = 3  Cap = 2  MaxH = 3  Restarts = FALSE  RecordHist = TRUE  SimDepth = 0
CONSTANT Vals <- V1
CONSTANT Dev <- DevNone
INIT Init
NEXT NextCover
VIEW view
INVARIANTS TypeOK CurrentMirrorsWork SnapshotsExact CurrentHeightNotServed SlotsDistinct NewestKept
