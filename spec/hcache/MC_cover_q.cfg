\* quick tier: every transition of the bounded state graph (3 keys, present/absent, 3 blocks, capacity 2)
CONSTANTS NK = 3  NV = 1  Cap = 2  MaxH = 3  RecordHist = TRUE  SimDepth = 0
CONSTANT Dev <- DevNone
INIT Init
NEXT NextCover
VIEW view
INVARIANTS TypeOK CurrentMirrorsWork SnapshotsExact CurrentHeightNotServed SlotsDistinct NewestKept
