--------------------------- MODULE HeightCacheOps ---------------------------
(***************************************************************************)
(* Pure operators of the height cache of one IAVL substore, transcribed    *)
(* from                                                                    *)
(*   store/rootmulti/heightcache/memorycache.go          (MemoryCache)     *)
(*   store/rootmulti/heightcache/memoryheightiterator.go (the iterator)    *)
(*   store/iavl/store.go  (Get/Has/Iterator/ReverseIterator consult the    *)
(*                         cache first and fall through to the tree)       *)
(* next to the plain reference semantics of a versioned ordered map.       *)
(*                                                                         *)
(* Vocabulary (shared with the Go harness):                                *)
(*   keys    1..NK in byte order; 0 = the empty string "" (Go's            *)
(*           string(nil)): it is both "nil bound" and the spurious key     *)
(*   values  0 = nil / absent, -1 = EMPTY = the empty NON-nil byte string, *)
(*           1, 2, ... ordinary values                                     *)
(*   results flat integer sequences: Get -> <<v>>, Has -> <<0|1>>,         *)
(*           iteration -> <<k1,v1,k2,v2,...>> and a trailing PANIC if the  *)
(*           iterator panicked                                             *)
(*                                                                         *)
(* The places where the code deviates from a transparent cache are named   *)
(* (Deviation); every operator takes the set D of deviations that are      *)
(* switched ON.  D = AllDev is the pinned tree; D = {} is the cache with   *)
(* all of /verif/fixes/C10-*.diff applied.                                 *)
(***************************************************************************)
EXTENDS Integers, Sequences, FiniteSets

CONSTANTS NK

Key   == 1..NK
NIL   == 0
EMPTY == -1
EKEY  == 0
PANIC == -9
NOH   == -1                       \* height of an unused slot (NewStoreAtHeight)

Deviation == {
  "AbsentReadsEmpty",        \* F-C10-a  Get: []byte(data[key]) without the ok test
  "OrderedKeysPadded",       \* F-C10-b  Commit: make([]string, n) then append
  "ReverseStartsAtEndBound", \* F-C10-c  endIdx scan stops at key <= end (end is exclusive)
  "NilEndSwapped",           \* F-C10-d  `if start > end {swap}` also fires for end = "" (nil)
  "ReverseIndexUnderflow" }  \* F-C10-e  Valid() indexes sortedKeys[curIdx] before the range test
AllDev == Deviation

EmptyMap == [k \in Key |-> NIL]

-----------------------------------------------------------------------------
\* Reference semantics: a map and a range [lo,hi) with 0 = unbounded

InRange(k, lo, hi) == (lo = 0 \/ k >= lo) /\ (hi = 0 \/ k < hi)

RECURSIVE AscPairs(_, _, _, _)
AscPairs(m, k, lo, hi) ==
    IF k > NK THEN <<>>
    ELSE (IF InRange(k, lo, hi) /\ m[k] # NIL THEN <<k, m[k]>> ELSE <<>>) \o AscPairs(m, k + 1, lo, hi)

RECURSIVE DescPairs(_, _, _, _)
DescPairs(m, k, lo, hi) ==
    IF k < 1 THEN <<>>
    ELSE (IF InRange(k, lo, hi) /\ m[k] # NIL THEN <<k, m[k]>> ELSE <<>>) \o DescPairs(m, k - 1, lo, hi)

RefGet(m, k) == <<m[k]>>
RefHas(m, k) == <<IF m[k] # NIL THEN 1 ELSE 0>>
RefIter(m, lo, hi, asc) == IF asc THEN AscPairs(m, 1, lo, hi) ELSE DescPairs(m, NK, lo, hi)

-----------------------------------------------------------------------------
\* MemoryCache: c = [cur |-> [height, data], past |-> <<[height, data], ... capacity slots>>]
\* (StoreAtHeight.orderedKeys is a function of data and of the deviation, see OrderedKeys)

FreshSlot == [height |-> NOH, data |-> EmptyMap]

\* NewMemoryCache(cap) followed by InitializeStoreCache(-1) (MultiStoreMemoryCache.GetSingleStoreCache)
NewCache(cap) == [cur |-> FreshSlot, past |-> [i \in 1..cap |-> FreshSlot]]

Capacity(c) == Len(c.past)

\* Initialize(currentData, version): iavl.LoadStore warms the cache from the loaded tree
CacheInitialize(c, data, version) == [c EXCEPT !.cur = [height |-> version, data |-> data]]

CacheSet(c, k, v)  == [c EXCEPT !.cur.data[k] = v]
CacheRemove(c, k)  == [c EXCEPT !.cur.data[k] = NIL]

\* Commit(height): the slot with the lowest height (first such slot) is overwritten by a copy of current
RECURSIVE LowestFrom(_, _, _, _)
LowestFrom(past, i, bestIdx, bestH) ==
    IF i > Len(past) THEN bestIdx
    ELSE IF bestIdx = 0 \/ past[i].height < bestH
         THEN LowestFrom(past, i + 1, i, past[i].height)
         ELSE LowestFrom(past, i + 1, bestIdx, bestH)
LowestIdx(c) == LowestFrom(c.past, 1, 0, 0)

CacheCommit(c, height) ==
    [cur  |-> [c.cur EXCEPT !.height = height],
     past |-> [c.past EXCEPT ![LowestIdx(c)] = [height |-> height, data |-> c.cur.data]]]

\* isHeightSafeToRead(height)
SafeToRead(c, h) ==
    /\ h # c.cur.height
    /\ h > c.cur.height - (1 + Capacity(c))
    /\ \E i \in 1..Capacity(c) : c.past[i].height = h

\* the first slot holding height h (Get / Iterator scan pastHeights in slot order)
SlotOf(c, h) == c.past[CHOOSE i \in 1..Capacity(c) :
                        c.past[i].height = h /\ \A j \in 1..(i - 1) : c.past[j].height # h]

\* Get(height, key) on a readable height
CacheGet(data, k, D) ==
    IF data[k] # NIL THEN <<data[k]>>
    ELSE IF "AbsentReadsEmpty" \in D THEN <<EMPTY>> ELSE <<NIL>>

-----------------------------------------------------------------------------
\* Commit's orderedKeys, and NewMemoryHeightIterator / Valid / Next / Key / Value

RECURSIVE SortedFrom(_, _)
SortedFrom(data, k) ==
    IF k > NK THEN <<>> ELSE (IF data[k] # NIL THEN <<k>> ELSE <<>>) \o SortedFrom(data, k + 1)
SortedKeys(data) == SortedFrom(data, 1)

OrderedKeys(data, D) ==
    LET s == SortedKeys(data) IN
    IF "OrderedKeysPadded" \in D THEN [i \in 1..Len(s) |-> EKEY] \o s ELSE s

\* 0-based indexing as in the Go code
At(keys, i) == keys[i + 1]

\* for ; startIdx < len(sortedKeys)-1; startIdx++ { if sortedKeys[startIdx] >= start { break } }
RECURSIVE ScanStart(_, _, _)
ScanStart(keys, start, i) ==
    IF i < Len(keys) - 1 /\ ~(At(keys, i) >= start) THEN ScanStart(keys, start, i + 1) ELSE i

\* for ; endIdx > 0 && endIdx > startIdx; endIdx-- { if sortedKeys[endIdx] <= end { break } }
RECURSIVE ScanEnd(_, _, _, _, _)
ScanEnd(keys, end, s, i, D) ==
    LET stop == IF "ReverseStartsAtEndBound" \in D THEN At(keys, i) <= end ELSE At(keys, i) < end IN
    IF i > 0 /\ i > s /\ ~stop THEN ScanEnd(keys, end, s, i - 1, D) ELSE i

DeadIter == [keys |-> <<>>, data |-> EmptyMap, cur |-> 0, s |-> 1, e |-> -1, start |-> 0, end |-> 0, asc |-> TRUE]

NewIter(data, start0, end0, asc, D) ==
    IF start0 # 0 /\ end0 # 0 /\ start0 > end0 THEN DeadIter
    ELSE
    LET swap  == "NilEndSwapped" \in D /\ start0 > end0       \* start > "" : the nil end becomes the start
        start == IF swap THEN end0 ELSE start0
        end   == IF swap THEN start0 ELSE end0
        ok    == OrderedKeys(data, D)
        keys  == IF Len(ok) = 0 THEN SortedKeys(data) ELSE ok
        s     == IF start # 0 THEN ScanStart(keys, start, 0) ELSE 0
        e     == IF end # 0 THEN ScanEnd(keys, end, s, Len(keys) - 1, D) ELSE Len(keys) - 1
    IN [keys |-> keys, data |-> data, cur |-> IF asc THEN s ELSE e, s |-> s, e |-> e,
        start |-> start, end |-> end, asc |-> asc]

\* Valid(): "yes", "no" or "panic" (index out of range)
IterValid(it, D) ==
    IF it.e < it.s \/ it.cur > it.e THEN "no"
    ELSE IF "ReverseIndexUnderflow" \notin D /\ it.cur < it.s THEN "no"      \* (the repaired Valid)
    ELSE IF (it.end # 0 \/ it.start # 0) /\ (it.cur < 0 \/ it.cur > Len(it.keys) - 1) THEN "panic"
    ELSE IF it.cur < 0 \/ it.cur > Len(it.keys) - 1 THEN "no"
    ELSE IF (it.end # 0 /\ At(it.keys, it.cur) >= it.end) \/ (it.start # 0 /\ At(it.keys, it.cur) < it.start) THEN "no"
    ELSE "yes"

\* Value(): []byte(dataset[key]) -- a key that is not in the map reads as the empty string
IterValue(it) == LET k == At(it.keys, it.cur) IN
                 IF k = EKEY \/ it.data[k] = NIL THEN EMPTY ELSE it.data[k]

RECURSIVE IterItems(_, _)
IterItems(it, D) ==
    LET v == IterValid(it, D) IN
    IF v = "panic" THEN <<PANIC>>
    ELSE IF v = "no" THEN <<>>
    ELSE <<At(it.keys, it.cur), IterValue(it)>>
         \o IterItems([it EXCEPT !.cur = IF it.asc THEN @ + 1 ELSE @ - 1], D)

CacheIter(data, lo, hi, asc, D) == IterItems(NewIter(data, lo, hi, asc, D), D)

-----------------------------------------------------------------------------
\* A read as the application issues it.
\*   r.via : "lazy"  store of LoadLazyVersion(h)            (direct iavl.Store)
\*           "cms"   CacheMultiStoreWithVersion(h)          (cachekv over the iavl.Store; Has == Get # nil)
\*           "work"  the working store of the root multistore (h = last committed height)
\*           "workc" CacheMultiStore() over the working stores
\*   r.kind: "Get" / "Has" (r.k)   "Iter" (r.lo, r.hi, r.asc)
\* tree = the content of the IAVL tree the store object reads (saved[h] or the working tree)

Wrapped(via) == via \in {"cms", "workc"}

\* node B: cache disabled (InvalidCache: every cache call fails, the tree answers)
TreeRead(tree, r) ==
    CASE r.kind = "Get"  -> RefGet(tree, r.k)
      [] r.kind = "Has"  -> RefHas(tree, r.k)
      [] r.kind = "Iter" -> RefIter(tree, r.lo, r.hi, r.asc)

\* node A: cache enabled.  iavl.Store.Has asks cache.Has, which is "not implemented" => the tree;
\* a cachekv wrapper answers Has from Get.
CachedRead(c, tree, r, D) ==
    IF ~SafeToRead(c, r.h) THEN TreeRead(tree, r)
    ELSE LET data == SlotOf(c, r.h).data IN
         CASE r.kind = "Get"  -> CacheGet(data, r.k, D)
           [] r.kind = "Has"  -> IF Wrapped(r.via)
                                   THEN <<IF CacheGet(data, r.k, D) # <<NIL>> THEN 1 ELSE 0>>
                                   ELSE RefHas(tree, r.k)
           [] r.kind = "Iter" -> CacheIter(data, r.lo, r.hi, r.asc, D)

-----------------------------------------------------------------------------
\* One substore of a node: s = [work, saved, cache].  work / saved are the IAVL tree (identical on
\* both nodes); cache is node A's MemoryCache.  The *Result operators are the actions of the design
\* model (HeightCache) and of the trace specification (TraceHeightCache).

\* rootmulti.LoadVersion on a fresh Store: iavl.LoadStore loads the tree and warms the cache
\* (Initialize(dataset, tree.Version())); all past slots are empty.
Loaded(cap, tree, version) == CacheInitialize(NewCache(cap), tree, version)

NodeInit(cap) == [work |-> EmptyMap, saved |-> <<>>, cache |-> Loaded(cap, EmptyMap, 0)]
HeightOf(s)   == Len(s.saved)

\* iavl.Store.Set: tree.Set then cache.Set
SetResult(s, k, v) == [s EXCEPT !.work[k] = v, !.cache = CacheSet(s.cache, k, v)]
\* iavl.Store.Delete: tree.Remove then cache.Remove (also for a key that is not there)
RemoveResult(s, k) == [s EXCEPT !.work[k] = NIL, !.cache = CacheRemove(s.cache, k)]
\* iavl.Store.Commit: tree.SaveVersion() then cache.Commit(version)
CommitResult(s) == [s EXCEPT !.saved = Append(s.saved, s.work),
                             !.cache = CacheCommit(s.cache, HeightOf(s) + 1)]
\* process restart: a new rootmulti.Store over the same database; uncommitted writes are lost
ReloadResult(s) == LET t == IF HeightOf(s) = 0 THEN EmptyMap ELSE s.saved[HeightOf(s)] IN
                   [s EXCEPT !.work = t, !.cache = Loaded(Capacity(s.cache), t, HeightOf(s))]

\* the tree a read is answered from when the cache does not serve it
TreeOf(s, r) == IF r.via \in {"work", "workc"} THEN s.work ELSE s.saved[r.h]
ReadA(s, r, D) == CachedRead(s.cache, TreeOf(s, r), r, D)     \* node A with deviations D
ReadB(s, r)    == TreeRead(TreeOf(s, r), r)                   \* node B, the oracle (cache off)
=============================================================================
