-------------------------- MODULE TraceHeightCache --------------------------
(***************************************************************************)
(* code -> spec for C10.  The harness drives two real rootmulti.Stores     *)
(* (node A: cache on, node B: cache off) with the same blocks and logs     *)
(* every read with both real results (a = node A, b = node B).  TLC        *)
(* re-executes the block events with the specification's own *Result       *)
(* operators (HeightCacheOps) and judges every logged read:                *)
(*                                                                         *)
(*  C10_CacheTransparent   a = b, or the value a is exactly what the cache *)
(*        model returns with a subset of the KNOWN-open named deviations   *)
(*        switched on (known_findings.json, status open; passed through    *)
(*        the environment).  Anything else is a violation on real code.    *)
(*  OracleIsReference      b (cache off) equals the reference semantics.   *)
(*  ModelFitsCode          some deviation set S explains all values of a:  *)
(*        the real cache behaves exactly as HeightCacheOps with S on.      *)
(*  ServedAsModelled       the real store served a read from the cache     *)
(*        exactly when the model's isHeightSafeToRead says so.             *)
(*                                                                         *)
(* Traces are concatenated; {"op":"reset","cap":c} starts a fresh pair.    *)
(***************************************************************************)
EXTENDS HeightCacheOps, TLC, IOUtils, Json

Trace == ndJsonDeserialize(IOEnv.TRACE_FILE)

EnvOn(name) == name \in DOMAIN IOEnv /\ IOEnv[name] = "1"
\* named deviations with an OPEN known finding
KnownOpen == {d \in Deviation : EnvOn("C10_KNOWN_" \o d)}

VARIABLES st,         \* [work, saved, cache] of the substore (HeightCacheOps)
          l,          \* next line
          err,        \* C10: <<line, kind>> of the first unexplained disagreement
          errRef,     \* first line where node B differs from the reference semantics
          errServed,  \* first line where "served from the cache" differs from the model
          fit,        \* deviation sets that explain every node-A value seen so far
          hits        \* known deviations that explained at least one disagreement

tvars == <<st, l, err, errRef, errServed, fit, hits>>

TraceInit ==
    /\ st = NodeInit(1) /\ l = 1 /\ err = <<>> /\ errRef = <<>> /\ errServed = <<>>
    /\ fit = SUBSET Deviation /\ hits = {}

ReadOf(e) == IF e.kind = "Iter"
               THEN [via |-> e.via, h |-> e.h, kind |-> e.kind, lo |-> e.lo, hi |-> e.hi, asc |-> e.asc]
               ELSE [via |-> e.via, h |-> e.h, kind |-> e.kind, k |-> e.k]

Smallest(X) == CHOOSE S \in X : \A T \in X : Cardinality(S) <= Cardinality(T)

Keep(x, line, what) == IF x # <<>> THEN x ELSE <<line, what>>

ReadStep(e) ==
    LET r     == ReadOf(e)
        ref   == ReadB(st, r)
        fitN  == {S \in fit : ReadA(st, r, S) = e.a}
        dis   == e.a # e.b
        \* fast path: a deviation set that explains the whole trace so far is known-open and has
        \* nothing new to report; otherwise search all subsets of the known-open deviations
        fast  == \E S \in fitN : S \subseteq KnownOpen /\ S \subseteq hits
        expl  == IF ~dis \/ fast THEN {} ELSE {S \in SUBSET KnownOpen : ReadA(st, r, S) = e.a}
        why   == IF expl = {} THEN {} ELSE Smallest(expl)
    IN
    /\ errRef' = IF e.b # ref THEN Keep(errRef, l, e.kind) ELSE errRef
    /\ err' = IF dis /\ ~fast /\ expl = {} THEN Keep(err, l, e.kind) ELSE err
    /\ hits' = hits \cup why
    /\ \A d \in why \ hits : PrintT(<<"KNOWN-HIT", d, e.kind, l>>)
    /\ fit' = fitN
    /\ errServed' = IF "served" \in DOMAIN e /\ (e.served = 1) # SafeToRead(st.cache, e.h)
                      THEN Keep(errServed, l, e.kind) ELSE errServed
    /\ UNCHANGED st

Quiet == UNCHANGED <<err, errRef, errServed, fit, hits>>

TraceNext ==
    /\ l <= Len(Trace)
    /\ l' = l + 1
    /\ LET e == Trace[l] IN
       IF "fail" \in DOMAIN e
         THEN \* the harness could not perform the step on the real stores
              /\ err' = Keep(err, l, e.op) /\ UNCHANGED <<st, errRef, errServed, fit, hits>>
         ELSE CASE e.op = "reset"  -> st' = NodeInit(e.cap) /\ Quiet
                [] e.op = "Set"    -> st' = SetResult(st, e.k, e.v) /\ Quiet
                [] e.op = "Remove" -> st' = RemoveResult(st, e.k) /\ Quiet
                [] e.op = "Commit" -> e.h = HeightOf(st) + 1 /\ st' = CommitResult(st) /\ Quiet
                [] e.op = "Reload" -> e.h = HeightOf(st) /\ st' = ReloadResult(st) /\ Quiet
                [] e.op = "Read"   -> ReadStep(e)
    /\ TLCSet(7, fit')

TraceSpec == TraceInit /\ [][TraceNext]_tvars

\* The verdict: checked at every line.
C10_CacheTransparent == err = <<>>
\* Binding of the model to the code and of the oracle to the reference semantics: evaluated once
\* the whole file has been read, so that they never pre-empt the verdict on a later line.
AtEnd == l = Len(Trace) + 1
OracleIsReference    == AtEnd => errRef = <<>>
ModelFitsCode        == AtEnd => fit # {}
ServedAsModelled     == AtEnd => errServed = <<>>

\* the whole file was consumed; also reports which deviation sets explain the real cache
TraceAccepted ==
    /\ PrintT(<<"FIT", TLCGet(7)>>)
    /\ TLCGet("stats").diameter = Len(Trace) + 1
=============================================================================
