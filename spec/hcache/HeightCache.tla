----------------------------- MODULE HeightCache -----------------------------
(***************************************************************************)
(* C10 -- enabling the state cache never changes what any read returns.    *)
(*                                                                         *)
(* Two full nodes receive the same blocks (Set / Remove on an IAVL         *)
(* substore, Commit, process restart).  Node A was built with              *)
(* rootmulti.NewStore(db, cache = true, ..), node B with cache = false.    *)
(* Both keep the same IAVL tree (`work`, `saved`); node A additionally     *)
(* keeps the MemoryCache of the substore (`cache`), modelled AS THE CODE   *)
(* HAS IT (HeightCacheOps, deviations Dev switched on).                    *)
(*                                                                         *)
(* The property is an invariant over the pair: every read the application  *)
(* can issue (HeightCacheOps!CachedRead: via LoadLazyVersion,              *)
(* CacheMultiStoreWithVersion, or the working store) returns on A what it  *)
(* returns on B.  Because the cache is transcribed, TLC exhibits the       *)
(* disagreements of the code itself; the check replays each on the real    *)
(* stores (a TLC counterexample alone is never a verdict).                 *)
(***************************************************************************)
EXTENDS HeightCacheOps, TLC, Json

CONSTANTS Vals,         \* value codes blocks may write (subset of {EMPTY, 1, 2, ...})
          Cap,          \* capacity of the MemoryCache (rootmulti.MemoryCacheCapacity; small here so eviction happens)
          MaxH,         \* blocks per history
          Dev,          \* deviations of the code that are switched on (subset of Deviation)
          Restarts,     \* BOOLEAN: process restarts (Reload) are part of the instance
          RecordHist

VARIABLES work,     \* [Key -> Vals \cup {NIL}]  working IAVL tree of the substore (both nodes)
          saved,    \* Seq([Key -> Vals \cup {NIL}]); saved[h] = tree version h (both nodes; nothing is pruned)
          cache,    \* node A only: [cur, past]  (HeightCacheOps)
          hist      \* generation only

vars == <<work, saved, cache, hist>>
view == <<work, saved, cache>>

Height == Len(saved)
Rec(r) == IF RecordHist THEN Append(hist, r) ELSE hist

\* the substore as one record, and "the substore becomes n" (actions are the pure
\* *Result operators of HeightCacheOps, shared with the trace specification)
St == [work |-> work, saved |-> saved, cache |-> cache]
Becomes(n) == work' = n.work /\ saved' = n.saved /\ cache' = n.cache

Init ==
    /\ work = NodeInit(Cap).work
    /\ saved = NodeInit(Cap).saved
    /\ cache = NodeInit(Cap).cache
    /\ hist = <<>>

Set(k, v) ==
    /\ Becomes(SetResult(St, k, v))
    /\ hist' = Rec([op |-> "Set", k |-> k, v |-> v])

Remove(k) ==
    /\ Becomes(RemoveResult(St, k))
    /\ hist' = Rec([op |-> "Remove", k |-> k])

Commit ==
    /\ Height < MaxH
    /\ Becomes(CommitResult(St))
    /\ hist' = Rec([op |-> "Commit", h |-> Height + 1, view |-> work])

\* A restart discards uncommitted writes, so a restart in the middle of a block reaches the same
\* state as a restart at the last block boundary: modelled at block boundaries only.
Reload ==
    /\ Restarts
    /\ work = (IF Height = 0 THEN EmptyMap ELSE saved[Height])
    /\ Becomes(ReloadResult(St))
    /\ hist' = Rec([op |-> "Reload", h |-> Height])

Next ==
    \/ \E k \in Key, v \in Vals : Set(k, v)
    \/ \E k \in Key : Remove(k)
    \/ Commit
    \/ Reload

Spec == Init /\ [][Next]_vars

-----------------------------------------------------------------------------
\* Every read of the bounded instance.  Heights 1..Height through a historical view,
\* the last committed height also through the working store.
PointReads(via, h) == {[via |-> via, h |-> h, kind |-> kd, k |-> k] : kd \in {"Get", "Has"}, k \in Key}
RangeReads(via, h) == {[via |-> via, h |-> h, kind |-> "Iter", lo |-> lo, hi |-> hi, asc |-> asc] :
                          lo \in 0..NK, hi \in 0..NK, asc \in BOOLEAN}
Reads == UNION {PointReads(via, h) \cup RangeReads(via, h) : via \in {"lazy", "cms"}, h \in 1..Height}
         \cup UNION {PointReads(via, Height) \cup RangeReads(via, Height) : via \in {"work", "workc"}}

NodeA(r) == ReadA(St, r, Dev)      \* node A: cache on, as the code has it
NodeB(r) == ReadB(St, r)           \* node B: cache off (the oracle)

\* A read that the cache does not serve is answered by the tree on both nodes (CachedRead), so only
\* reads at served heights can disagree; ServedReads is Reads restricted to them (cheaper for TLC).
Served(r) == SafeToRead(cache, r.h)
ServedHeights == {h \in 0..Height : SafeToRead(cache, h)}
ServedReads ==
    UNION {PointReads(via, h) \cup RangeReads(via, h) : via \in {"lazy", "cms"}, h \in ServedHeights \ {0}}
    \cup (IF Height \in ServedHeights
           THEN UNION {PointReads(via, Height) \cup RangeReads(via, Height) : via \in {"work", "workc"}}
           ELSE {})
Disagreements == {r \in ServedReads : NodeA(r) # NodeB(r)}

\* ---- the property ----
C10_CacheTransparent == Disagreements = {}

\* same statement; on violation prints the history plus one witness read as a behaviour
\* the harness can replay on the two real stores
C10_CacheTransparent_Witness ==
    \/ Disagreements = {}
    \/ LET r == CHOOSE x \in Disagreements : TRUE IN
       /\ PrintT(ToJson(Append(hist, [op |-> "Read", read |-> r])))
       /\ FALSE

\* ---- supporting invariants (the cache as a data structure) ----
TypeOK ==
    /\ work \in [Key -> Vals \cup {NIL}]
    /\ \A h \in 1..Height : saved[h] \in [Key -> Vals \cup {NIL}]
    /\ Len(cache.past) = Cap
    /\ cache.cur.height \in 0..MaxH

\* current mirrors the working tree; a readable slot holds exactly the committed tree of its height
CurrentMirrorsWork == cache.cur.data = work /\ cache.cur.height = Height
SnapshotsExact == \A h \in 1..Height : SafeToRead(cache, h) => SlotOf(cache, h).data = saved[h]
\* the height being built is never served; a slot never holds a height twice
CurrentHeightNotServed == ~SafeToRead(cache, Height)
SlotsDistinct == \A i, j \in 1..Cap : i # j /\ cache.past[i].height # NOH => cache.past[i].height # cache.past[j].height
\* eviction keeps the newest Cap heights committed since the last restart
NewestKept == \A i \in 1..Cap : cache.past[i].height # NOH => cache.past[i].height > Height - Cap
=============================================================================
