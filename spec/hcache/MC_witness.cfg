\* enumerate candidate counterexamples per named deviation (tiny instance, all states)
CONSTANTS NK = 2  NV = 1  Cap = 2  MaxH = 2  RecordHist = TRUE  SimDepth = 0
CONSTANT Dev <- DevNone
INIT Init
NEXT Next
VIEW view
INVARIANTS EmitWitnesses
