\* enumerate candidate counterexamples per named deviation (tiny instance, all states)
CONSTANTS NK = 2  Cap = 2  MaxH = 2  Restarts = TRUE  RecordHist = TRUE  SimDepth = 0
CONSTANT Vals <- V1
CONSTANT Dev <- DevNone
INIT Init
NEXT Next
VIEW view
INVARIANTS EmitWitnesses
