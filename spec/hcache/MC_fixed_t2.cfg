\* thorough: the repaired cache is transparent; 2 keys, empty + two ordinary values, capacity 2, 3 blocks, restarts
CONSTANTS NK = 2  Cap = 2  MaxH = 3  Restarts = TRUE  RecordHist = FALSE  SimDepth = 0
CONSTANT Vals <- VE12
CONSTANT Dev <- DevNone
INIT Init
NEXT Next
VIEW view
INVARIANTS TypeOK CurrentMirrorsWork SnapshotsExact CurrentHeightNotServed SlotsDistinct NewestKept C10_CacheTransparent
