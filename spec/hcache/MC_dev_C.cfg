\* design model with exactly one named deviation of the code switched on:
\* TLC must violate C10 and print the shortest history plus a witness read
CONSTANTS NK = 3  NV = 2  Cap = 2  MaxH = 3  RecordHist = TRUE  SimDepth = 0
CONSTANT Dev <- DevC
INIT Init
NEXT Next
VIEW view
INVARIANTS TypeOK CurrentMirrorsWork SnapshotsExact CurrentHeightNotServed SlotsDistinct NewestKept C10_CacheTransparent_Witness
