\* thorough: every transition; 2 keys present/absent, 5 blocks, capacity 3 (eviction at blocks 4 and 5), no restarts
CONSTANTS NK = 2  Cap = 3  MaxH = 5  Restarts = FALSE  RecordHist = TRUE  SimDepth = 0
CONSTANT Vals <- V1
CONSTANT Dev <- DevNone
INIT Init
NEXT NextCover
VIEW view
INVARIANTS TypeOK CurrentMirrorsWork SnapshotsExact CurrentHeightNotServed SlotsDistinct NewestKept
