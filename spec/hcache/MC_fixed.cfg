\* the cache with every named deviation repaired is transparent (exhaustive, bounded)
CONSTANTS NK = 3  NV = 1  Cap = 2  MaxH = 3  RecordHist = FALSE  SimDepth = 0
CONSTANT Dev <- DevNone
INIT Init
NEXT Next
VIEW view
INVARIANTS TypeOK CurrentMirrorsWork SnapshotsExact CurrentHeightNotServed SlotsDistinct NewestKept C10_CacheTransparent
