\* quick: the cache with every named deviation repaired is transparent (exhaustive): 3 keys, capacity 2, 3 blocks, no restarts
CONSTANTS NK = 3  Cap = 2  MaxH = 3  Restarts = FALSE  RecordHist = FALSE  SimDepth = 0
CONSTANT Vals <- V1
CONSTANT Dev <- DevNone
INIT Init
NEXT Next
VIEW view
INVARIANTS TypeOK CurrentMirrorsWork SnapshotsExact CurrentHeightNotServed SlotsDistinct NewestKept C10_CacheTransparent
