\* quick: every transition; 2 keys, two values (overwrites), 2 blocks, capacity 2, restarts
CONSTANTS NK = 2  Cap = 2  MaxH = 2  Restarts = TRUE  RecordHist = TRUE  SimDepth = 0
CONSTANT Vals <- V12
CONSTANT Dev <- DevNone
INIT Init
NEXT NextCover
VIEW view
INVARIANTS TypeOK CurrentMirrorsWork SnapshotsExact CurrentHeightNotServed SlotsDistinct NewestKept
