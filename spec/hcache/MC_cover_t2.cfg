\* thorough: every transition; 3 keys present/absent, 4 blocks, capacity 3 (eviction at block 4), no restarts
CONSTANTS NK = 3  Cap = 3  MaxH = 4  Restarts = FALSE  RecordHist = TRUE  SimDepth = 0
CONSTANT Vals <- V1
CONSTANT Dev <- DevNone
INIT Init
NEXT NextCover
VIEW view
INVARIANTS TypeOK CurrentMirrorsWork SnapshotsExact CurrentHeightNotServed SlotsDistinct NewestKept
