\* thorough: every transition; 2 keys, empty and ordinary value, 3 blocks, capacity 2, restarts
CONSTANTS NK = 2  Cap = 2  MaxH = 3  Restarts = TRUE  RecordHist = TRUE  SimDepth = 0
CONSTANT Vals <- VE1
CONSTANT Dev <- DevNone
INIT Init
NEXT NextCover
VIEW view
INVARIANTS TypeOK CurrentMirrorsWork SnapshotsExact CurrentHeightNotServed SlotsDistinct NewestKept
