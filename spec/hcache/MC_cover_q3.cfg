\* quick: every transition; 2 keys present/absent, 4 blocks, capacity 2 (a re-used slot becomes readable at block 4), no restarts
CONSTANTS NK = 2  Cap = 2  MaxH = 4  Restarts = FALSE  RecordHist = TRUE  SimDepth = 0
CONSTANT Vals <- V1
CONSTANT Dev <- DevNone
INIT Init
NEXT NextCover
VIEW view
INVARIANTS TypeOK CurrentMirrorsWork SnapshotsExact CurrentHeightNotServed SlotsDistinct NewestKept
