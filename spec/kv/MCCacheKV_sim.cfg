CONSTANTS NK = 4  NV = 2  MaxDepth = 3  MaxIters = 4  RecordHist = TRUE  SimDepth = 40
INIT Init
NEXT Next
INVARIANTS TypeOK IterWellFormed OverlayInv EmitSim
CONSTRAINT HistBound
CHECK_DEADLOCK FALSE
