----------------------------- MODULE PrefixView -----------------------------
(* Design model of prefix-scoped views over a fixed key pool; operators in PrefixOps. *)
EXTENDS PrefixOps

-----------------------------------------------------------------------------
CONSTANTS Pool,      \* parent key universe of the design model (set of byte strings)
          Pfxs,  \* prefixes of the views
          Bounds,    \* iteration bounds (suffixes) besides NILB
          NV, RecordHist

VARIABLES parent, hist
vars == <<parent, hist>>
view == <<parent>>

Rec(r) == IF RecordHist THEN Append(hist, r) ELSE hist

Init == parent = [k \in Pool |-> NIL] /\ hist = <<>>

\* suffixes s such that p \o s is a pool key
SfxOf(p) == {Strip(k, p) : k \in {x \in Pool : HasPrefix(x, p)}}

VGet(p, s) ==
    /\ UNCHANGED parent
    /\ hist' = Rec([op |-> "VGet", p |-> p, s |-> s, ret |-> parent[p \o s]])
VHas(p, s) ==
    /\ UNCHANGED parent
    /\ hist' = Rec([op |-> "VHas", p |-> p, s |-> s, ret |-> (parent[p \o s] # NIL)])
VSet(p, s, v) ==
    /\ parent' = [parent EXCEPT ![p \o s] = v]
    /\ hist' = Rec([op |-> "VSet", p |-> p, s |-> s, v |-> v, all |-> ParentItems(parent')])
VDelete(p, s) ==
    /\ parent' = [parent EXCEPT ![p \o s] = NIL]
    /\ hist' = Rec([op |-> "VDelete", p |-> p, s |-> s, all |-> ParentItems(parent')])
PSet(k, v) ==
    /\ parent' = [parent EXCEPT ![k] = v]
    /\ hist' = Rec([op |-> "PSet", k |-> k, v |-> v])
PDelete(k) ==
    /\ parent' = [parent EXCEPT ![k] = NIL]
    /\ hist' = Rec([op |-> "PDelete", k |-> k])
VIter(p, lo, hi, asc) ==
    /\ UNCHANGED parent
    /\ hist' = Rec([op |-> "VIter", p |-> p, lo |-> B(lo), hi |-> B(hi), asc |-> asc,
                    ret |-> ViewItems(parent, p, lo, hi, asc)])

Next ==
    \/ \E p \in Pfxs : \E s \in SfxOf(p) :
          VGet(p, s) \/ VHas(p, s) \/ VDelete(p, s) \/ (\E v \in 1..NV : VSet(p, s, v))
    \/ \E k \in Pool : PDelete(k) \/ (\E v \in 1..NV : PSet(k, v))
    \/ \E p \in Pfxs, lo \in Bounds \cup {NILB}, hi \in Bounds \cup {NILB}, asc \in BOOLEAN :
          VIter(p, lo, hi, asc)

Spec == Init /\ [][Next]_vars

-----------------------------------------------------------------------------
\* Design-level statements of C02
\* (1) a view write touches exactly the one parent key p \o s
Isolation ==
    [][\A p \in Pfxs : \A s \in SfxOf(p) :
         ((\E v \in 1..NV : VSet(p, s, v)) \/ VDelete(p, s))
            => \A k \in Pool : k # p \o s => parent'[k] = parent[k]]_vars
\* (2) unbounded iteration returns exactly the keys under the prefix, stripped
FullIterExact ==
    \A p \in Pfxs :
        LET it == ViewItems(parent, p, NILB, NILB, TRUE) IN
        /\ {p \o it[i][1] : i \in 1..Len(it)} = {k \in Pool : parent[k] # NIL /\ HasPrefix(k, p)}
        /\ \A i \in 1..(Len(it) - 1) : Less(it[i][1], it[i + 1][1])
\* (3) the range [p, PrefixEnd(p)) of the parent is exactly the prefix keyspace
PrefixEndExact ==
    \A p \in Pfxs : \A k \in Pool :
        HasPrefix(k, p) <=> (~Less(k, p) /\ (PrefixEnd(p) = NILB \/ Less(k, PrefixEnd(p))))
\* (4) reverse = forward reversed
ReverseIsReverse ==
    \A p \in Pfxs :
        LET f == ViewItems(parent, p, NILB, NILB, TRUE)
            r == ViewItems(parent, p, NILB, NILB, FALSE)
        IN Len(f) = Len(r) /\ \A i \in 1..Len(f) : f[i] = r[Len(f) + 1 - i]
=============================================================================
