----------------------------- MODULE PrefixOps -----------------------------
(***************************************************************************)
(* Prefix-scoped views of a KV store (store/prefix.Store, prefixIterator,  *)
(* types.PrefixEndBytes).  Keys are sequences of bytes (integers 0..255),  *)
(* ordered lexicographically like bytes.Compare.                           *)
(*                                                                         *)
(* `parent` is a function from byte strings to 0..NV (0 = absent); its     *)
(* domain is fixed (Pool) in the design model and grows in the trace model.*)
(***************************************************************************)
EXTENDS Integers, Sequences, FiniteSets, SequencesExt, TLC, Json

NIL  == 0
NILB == <<-1>>          \* a nil bound (no start / no end)

RECURSIVE Less(_, _)
Less(a, b) ==
    IF a = <<>> THEN b # <<>>
    ELSE IF b = <<>> THEN FALSE
    ELSE IF a[1] # b[1] THEN a[1] < b[1]
    ELSE Less(Tail(a), Tail(b))

HasPrefix(k, p) == Len(k) >= Len(p) /\ SubSeq(k, 1, Len(p)) = p
Strip(k, p)     == SubSeq(k, Len(p) + 1, Len(k))

\* the end of the half-open range of all strings with prefix p (NILB = unbounded):
\* increment the last byte that is not 0xFF, dropping the 0xFF tail.
RECURSIVE PrefixEnd(_)
PrefixEnd(p) ==
    IF p = <<>> THEN NILB
    ELSE IF p[Len(p)] # 255 THEN [p EXCEPT ![Len(p)] = @ + 1]
    ELSE PrefixEnd(SubSeq(p, 1, Len(p) - 1))

InRange(s, lo, hi) == (lo = NILB \/ ~Less(s, lo)) /\ (hi = NILB \/ Less(s, hi))

\* what iteration through the view with prefix p over [lo,hi) must return
ViewItems(par, p, lo, hi, asc) ==
    LET ks  == {k \in DOMAIN par : par[k] # NIL /\ HasPrefix(k, p) /\ InRange(Strip(k, p), lo, hi)}
        ord == SetToSortSeq(ks, LAMBDA a, b : IF asc THEN Less(a, b) ELSE Less(b, a))
    IN [i \in 1..Len(ord) |-> <<Strip(ord[i], p), par[ord[i]]>>]

\* the same read directly on the parent (for isolation: keys without the prefix)
ParentItems(par) ==
    LET ks  == {k \in DOMAIN par : par[k] # NIL}
        ord == SetToSortSeq(ks, LAMBDA a, b : Less(a, b))
    IN [i \in 1..Len(ord) |-> <<ord[i], par[ord[i]]>>]

B(b) == b
=============================================================================
