\* thorough tier, second instance: three keys, nesting 2
CONSTANTS NK = 3  NV = 1  MaxDepth = 2  MaxIters = 1  RecordHist = TRUE  SimDepth = 0
INIT Init
NEXT NextCover
VIEW view
INVARIANTS TypeOK IterWellFormed OverlayInv
PROPERTIES WriteExact DiscardExact TopOnly
