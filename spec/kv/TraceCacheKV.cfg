CONSTANTS NK = 12  NV = 3  MaxDepth = 3  MaxIters = 100000  RecordHist = FALSE
INIT TraceInit
NEXT TraceNext
INVARIANTS C01_ObservationsMatch IterWellFormed
POSTCONDITION TraceAccepted
CHECK_DEADLOCK FALSE
