CONSTANTS Pool <- MCPool  Pfxs <- MCPrefixes  Bounds <- MCBounds  NV = 1  RecordHist = TRUE
INIT Init
NEXT NextCover
VIEW view
INVARIANTS FullIterExact PrefixEndExact ReverseIsReverse
PROPERTIES Isolation
