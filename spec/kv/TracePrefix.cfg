INIT TraceInit
NEXT TraceNext
INVARIANTS C02_ObservationsMatch
POSTCONDITION TraceAccepted
CHECK_DEADLOCK FALSE
