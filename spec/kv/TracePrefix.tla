---------------------------- MODULE TracePrefix ----------------------------
(***************************************************************************)
(* Trace validation of store/prefix against PrefixView's operators over an *)
(* unbounded key space: `par` is a function whose domain grows with every  *)
(* key the recorded run touches.                                           *)
(***************************************************************************)
EXTENDS PrefixOps, IOUtils

Trace == ndJsonDeserialize(IOEnv.TRACE_FILE)

VARIABLES par, l, err
tvars == <<par, l, err>>

Bnd(b) == b
At(f, k) == IF k \in DOMAIN f THEN f[k] ELSE NIL
Put(f, k, v) == [x \in DOMAIN f \cup {k} |-> IF x = k THEN v ELSE f[x]]

TraceInit == par = <<>> /\ l = 1 /\ err = <<>>

\* expected return value of an observer event in state par
Expected(e) ==
    CASE e.op = "VGet"  -> At(par, e.p \o e.s)
      [] e.op = "VHas"  -> At(par, e.p \o e.s) # NIL
      [] e.op = "VIter" -> ViewItems(par, e.p, Bnd(e.lo), Bnd(e.hi), e.asc)
      [] e.op = "PAll"  -> ParentItems(par)

Observers == {"VGet", "VHas", "VIter", "PAll"}

TraceNext ==
    /\ l <= Len(Trace)
    /\ l' = l + 1
    /\ LET e == Trace[l] IN
       /\ par' = CASE e.op = "reset"   -> <<>>
                   [] e.op = "VSet"    -> Put(par, e.p \o e.s, e.v)
                   [] e.op = "VDelete" -> Put(par, e.p \o e.s, NIL)
                   [] e.op = "PSet"    -> Put(par, e.k, e.v)
                   [] e.op = "PDelete" -> Put(par, e.k, NIL)
                   [] OTHER            -> par
       /\ err' = IF err # <<>> THEN err
                 ELSE IF "fail" \in DOMAIN e THEN <<l, e.op>>
                 ELSE IF e.op \in Observers /\ Expected(e) # e.ret THEN <<l, e.op>>
                 ELSE <<>>

TraceSpec == TraceInit /\ [][TraceNext]_tvars

C02_ObservationsMatch == err = <<>>
TraceAccepted == TLCGet("stats").diameter = Len(Trace) + 1
=============================================================================
