----------------------------- MODULE CacheKV -----------------------------
(***************************************************************************)
(* Stack of cache-wrapped KV stores over a base store, as implemented by   *)
(* store/cachekv (Store, memIterator, cacheMergeIterator).                 *)
(*                                                                         *)
(* Keys are 1..NK (the harness maps them to an ordered universe of byte    *)
(* strings), values 1..NV, NIL = 0 (absent / deleted), UNSET = -1 (layer   *)
(* has no pending entry for the key).                                      *)
(*                                                                         *)
(* Supported usage modelled (everything else is disabled, not "allowed to  *)
(* fail"): mutations only on the top layer; Write/Discard only when no     *)
(* iterator is open.  Writes to the top layer while iterators are open ARE *)
(* modelled: an iterator yields the view at its creation (snapshot).       *)
(***************************************************************************)
EXTENDS Integers, Sequences, FiniteSets, TLC, Json

CONSTANTS NK, NV, MaxDepth, MaxIters, RecordHist

Key   == 1..NK
Val   == 1..NV
NIL   == 0
UNSET == -1
NOEND == NK + 1          \* "hi = nil"

VARIABLES base,     \* [Key -> 0..NV]
          layers,   \* Seq([Key -> -1..NV]); Len = number of live cache wraps
          iters,    \* Seq([d, asc, items, open]); items = remaining <<k,v>> pairs
          ret,      \* return value of the last operation, always a flat sequence of integers
          hist      \* history (generation only)

vars == <<base, layers, iters, ret, hist>>
view == <<base, layers, iters>>

Depth == Len(layers)
EmptyLayer == [k \in Key |-> UNSET]

RECURSIVE ViewAt(_, _, _)
ViewAt(b, ls, d) ==
    IF d = 0 THEN b
    ELSE LET below == ViewAt(b, ls, d - 1)
         IN [k \in Key |-> IF ls[d][k] = UNSET THEN below[k] ELSE ls[d][k]]

View(d) == ViewAt(base, layers, d)

InDomain(k, lo, hi) == (lo = 0 \/ k >= lo) /\ (hi = NOEND \/ k < hi)

\* ordered list of <<k,v>> of a map restricted to [lo,hi), ascending or descending
RECURSIVE AscItems(_, _, _, _)
AscItems(m, k, lo, hi) ==
    IF k > NK THEN <<>>
    ELSE (IF InDomain(k, lo, hi) /\ m[k] # NIL THEN << <<k, m[k]>> >> ELSE <<>>)
         \o AscItems(m, k + 1, lo, hi)

Reverse(s) == [i \in 1..Len(s) |-> s[Len(s) + 1 - i]]

RangeItems(m, lo, hi, asc) ==
    IF asc THEN AscItems(m, 1, lo, hi) ELSE Reverse(AscItems(m, 1, lo, hi))

OpenIters == {i \in 1..Len(iters) : iters[i].open}

Rec(r) == IF RecordHist THEN Append(hist, r) ELSE hist

-----------------------------------------------------------------------------
Init ==
    /\ base = [k \in Key |-> NIL]
    /\ layers = <<>>
    /\ iters = <<>>
    /\ ret = <<>>
    /\ hist = <<>>

\* ---- observers (any layer 0..Depth) ----
Get(d, k) ==
    /\ d \in 0..Depth
    /\ ret' = <<View(d)[k]>>
    /\ UNCHANGED <<base, layers, iters>>
    /\ hist' = Rec([op |-> "Get", d |-> d, k |-> k, ret |-> View(d)[k]])

Has(d, k) ==
    /\ d \in 0..Depth
    /\ ret' = <<IF View(d)[k] # NIL THEN 1 ELSE 0>>
    /\ UNCHANGED <<base, layers, iters>>
    /\ hist' = Rec([op |-> "Has", d |-> d, k |-> k, ret |-> (View(d)[k] # NIL)])

\* full read-out of a layer (the harness reads it forwards, backwards and by key)
Dump(d) ==
    /\ d \in 0..Depth
    /\ ret' = [k \in Key |-> View(d)[k]]
    /\ UNCHANGED <<base, layers, iters>>
    /\ hist' = Rec([op |-> "Dump", d |-> d, ret |-> ret'])

\* ---- mutations (top layer only; depth 0 = directly on the base store) ----
SetTopCore(k, v) ==
    /\ IF Depth = 0
         THEN base' = [base EXCEPT ![k] = v] /\ UNCHANGED layers
         ELSE layers' = [layers EXCEPT ![Depth][k] = v] /\ UNCHANGED base
    /\ Depth = 0 => OpenIters = {}      \* writing under an open base iterator: backend specific
    /\ UNCHANGED iters
SetTop(k, v) ==
    /\ SetTopCore(k, v)
    /\ ret' = <<>>
    /\ hist' = Rec([op |-> "Set", d |-> Depth, k |-> k, v |-> v,
                    view |-> ViewAt(base', layers', Depth)])

DeleteTopCore(k) ==
    /\ IF Depth = 0
         THEN base' = [base EXCEPT ![k] = NIL] /\ UNCHANGED layers
         ELSE layers' = [layers EXCEPT ![Depth][k] = NIL] /\ UNCHANGED base
    /\ Depth = 0 => OpenIters = {}
    /\ UNCHANGED iters
DeleteTop(k) ==
    /\ DeleteTopCore(k)
    /\ ret' = <<>>
    /\ hist' = Rec([op |-> "Delete", d |-> Depth, k |-> k,
                    view |-> ViewAt(base', layers', Depth)])

Wrap ==
    /\ Depth < MaxDepth
    /\ layers' = Append(layers, EmptyLayer)
    /\ ret' = <<>>
    /\ UNCHANGED <<base, iters>>
    /\ hist' = Rec([op |-> "Wrap", d |-> Depth + 1])

\* Write the top layer into the store below; the (now empty) top layer stays usable.
WriteTopCore ==
    /\ Depth > 0
    /\ OpenIters = {}
    /\ LET below == View(Depth - 1)
           merged == [k \in Key |-> IF layers[Depth][k] = UNSET THEN below[k] ELSE layers[Depth][k]]
       IN IF Depth = 1
            THEN /\ base' = merged
                 /\ layers' = <<EmptyLayer>>
            ELSE /\ base' = base
                 /\ layers' = [layers EXCEPT
                       ![Depth - 1] = [k \in Key |-> IF layers[Depth][k] = UNSET
                                                     THEN layers[Depth - 1][k]
                                                     ELSE layers[Depth][k]],
                       ![Depth] = EmptyLayer]
    /\ UNCHANGED iters
WriteTop ==
    /\ WriteTopCore
    /\ ret' = <<>>
    /\ hist' = Rec([op |-> "Write", d |-> Depth,
                    view |-> ViewAt(base', layers', Depth),
                    below |-> ViewAt(base', layers', Depth - 1)])

\* Drop the top layer without writing it.
DiscardTopCore ==
    /\ Depth > 0
    /\ OpenIters = {}
    /\ layers' = SubSeq(layers, 1, Depth - 1)
    /\ UNCHANGED <<base, iters>>
DiscardTop ==
    /\ DiscardTopCore
    /\ ret' = <<>>
    /\ hist' = Rec([op |-> "Discard", d |-> Depth,
                    view |-> ViewAt(base, layers', Depth - 1)])

\* ---- iteration ----
IterOpen(d, lo, hi, asc) ==
    /\ d \in 0..Depth
    /\ Len(iters) < MaxIters
    /\ lo \in 0..NK /\ hi \in 1..NOEND
    /\ iters' = Append(iters, [d |-> d, asc |-> asc, open |-> TRUE,
                               items |-> RangeItems(View(d), lo, hi, asc)])
    /\ ret' = <<Len(iters) + 1>>
    /\ UNCHANGED <<base, layers>>
    /\ hist' = Rec([op |-> "IterOpen", d |-> d, lo |-> lo, hi |-> hi, asc |-> asc,
                    i |-> Len(iters) + 1])

\* One observation of an iterator: invalid (<<>>) or current pair, then advance.
IterStep(i) ==
    /\ i \in OpenIters
    /\ IF iters[i].items = <<>>
         THEN ret' = <<>> /\ UNCHANGED iters
         ELSE /\ ret' = Head(iters[i].items)
              /\ iters' = [iters EXCEPT ![i].items = Tail(@)]
    /\ UNCHANGED <<base, layers>>
    /\ hist' = Rec([op |-> "IterStep", i |-> i, ret |-> ret'])

IterClose(i) ==
    /\ i \in OpenIters
    /\ iters' = [iters EXCEPT ![i].open = FALSE, ![i].items = <<>>]
    /\ ret' = <<>>
    /\ UNCHANGED <<base, layers>>
    /\ hist' = Rec([op |-> "IterClose", i |-> i])

Next ==
    \/ \E d \in 0..MaxDepth, k \in Key : Get(d, k) \/ Has(d, k)
    \/ \E k \in Key, v \in Val : SetTop(k, v)
    \/ \E k \in Key : DeleteTop(k)
    \/ Wrap \/ WriteTop \/ DiscardTop
    \/ \E d \in 0..MaxDepth, lo \in 0..NK, hi \in 1..NOEND, asc \in BOOLEAN : IterOpen(d, lo, hi, asc)
    \/ \E i \in 1..MaxIters : IterStep(i) \/ IterClose(i)

Spec == Init /\ [][Next]_vars

-----------------------------------------------------------------------------
\* Design-level invariants (C01)

TypeOK ==
    /\ base \in [Key -> 0..NV]
    /\ \A d \in 1..Depth : layers[d] \in [Key -> -1..NV]
    /\ Depth <= MaxDepth

\* An open iterator's remaining items are strictly ordered in its direction,
\* never contain a deleted key, and only keys of the key space.
IterWellFormed ==
    \A i \in OpenIters :
        LET it == iters[i].items IN
        /\ \A j \in 1..Len(it) : it[j][1] \in Key /\ it[j][2] \in Val
        /\ \A j \in 1..(Len(it) - 1) :
              IF iters[i].asc THEN it[j][1] < it[j + 1][1] ELSE it[j][1] > it[j + 1][1]

\* Overlay: the view of layer d is the view below shadowed by the pending entries.
OverlayInv ==
    \A d \in 1..Depth : \A k \in Key :
        View(d)[k] = IF layers[d][k] = UNSET THEN View(d - 1)[k] ELSE layers[d][k]

\* Write applies exactly the net pending changes; Discard leaves lower layers untouched.
WriteExact ==
    [][WriteTopCore => /\ ViewAt(base', layers', Depth) = View(Depth)
                   /\ ViewAt(base', layers', Depth - 1) = View(Depth)
                   /\ layers'[Depth] = EmptyLayer
                   /\ \A d \in 0..(Depth - 2) : ViewAt(base', layers', d) = View(d)]_vars
DiscardExact ==
    [][DiscardTopCore => \A d \in 0..(Depth - 1) : ViewAt(base', layers', d) = View(d)]_vars
\* Mutations on the top layer never change what lower layers show.
TopOnly ==
    [][(\E k \in Key, v \in Val : SetTopCore(k, v)) \/ (\E k \in Key : DeleteTopCore(k))
        => \A d \in 0..(Depth - 1) : ViewAt(base', layers', d) = View(d)]_vars

-----------------------------------------------------------------------------
\* Behaviour emission (see lib/vf.py): one JSON line per emitted history.
EmitAtDepth(D) == Len(hist) = D => PrintT(ToJson(hist))
=============================================================================
