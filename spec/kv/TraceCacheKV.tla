---------------------------- MODULE TraceCacheKV ----------------------------
(***************************************************************************)
(* Trace validation for the kv engine: every event recorded from the real  *)
(* stores (store/cachekv over dbadapter / iavl) is re-executed by the      *)
(* CacheKV specification's own actions, and the logged result must be the  *)
(* result the specification computes.  Traces are concatenated; a "reset"  *)
(* event starts a fresh world.                                             *)
(***************************************************************************)
EXTENDS CacheKV, IOUtils

Trace == ndJsonDeserialize(IOEnv.TRACE_FILE)

VARIABLES l,      \* next line to consume
          err     \* <<line, op>> of the first disagreement, or <<>>

tvars == <<vars, l, err>>

TraceInit == Init /\ l = 1 /\ err = <<>>

Observers == {"Get", "Has", "IterStep", "Dump"}
\* the logged result in the shape of the specification's `ret` (flat integer sequence)
RetOf(e) == CASE e.op = "Get" -> <<e.ret>>
              [] e.op = "Has" -> <<IF e.ret THEN 1 ELSE 0>>
              [] OTHER        -> e.ret

Reset ==
    /\ base' = [k \in Key |-> NIL] /\ layers' = <<>> /\ iters' = <<>> /\ ret' = 0 /\ hist' = hist

Step(e) ==
    CASE e.op = "reset"     -> Reset
      [] e.op = "Get"       -> Get(e.d, e.k)
      [] e.op = "Has"       -> Has(e.d, e.k)
      [] e.op = "Dump"      -> Dump(e.d)
      [] e.op = "Set"       -> e.d = Depth /\ SetTop(e.k, e.v)
      [] e.op = "Delete"    -> e.d = Depth /\ DeleteTop(e.k)
      [] e.op = "Wrap"      -> Wrap
      [] e.op = "Write"     -> e.d = Depth /\ WriteTop
      [] e.op = "Discard"   -> e.d = Depth /\ DiscardTop
      [] e.op = "IterOpen"  -> e.i = Len(iters) + 1 /\ IterOpen(e.d, e.lo, e.hi, e.asc)
      [] e.op = "IterStep"  -> IterStep(e.i)
      [] e.op = "IterClose" -> IterClose(e.i)

TraceNext ==
    /\ l <= Len(Trace)
    /\ l' = l + 1
    /\ LET e == Trace[l] IN
       IF "fail" \in DOMAIN e
         THEN \* the real store panicked or contradicted itself (forward / reverse / Get / Has)
              /\ err' = IF err # <<>> THEN err ELSE <<l, e.op>>
              /\ UNCHANGED vars
         ELSE /\ Step(e)
              /\ err' = IF err # <<>> THEN err
                        ELSE IF e.op \in Observers /\ ret' # RetOf(e) THEN <<l, e.op>>
                        ELSE <<>>

TraceSpec == TraceInit /\ [][TraceNext]_tvars

\* C01: every observation of the real stores equals the overlay model's
C01_ObservationsMatch == err = <<>>
\* the whole file was consumed (a disabled step = the driver did something the
\* specification does not allow, or the specification cannot explain the event)
TraceConsumed == l = Len(Trace) + 1
TraceAccepted == TLCGet("stats").diameter = Len(Trace) + 1
=============================================================================
