---------------------------- MODULE MCCacheKV ----------------------------
(* Model-checking / behaviour-generation instance of CacheKV.              *)
EXTENDS CacheKV
CONSTANT SimDepth

\* Transition cover: with VIEW view every distinct abstract state is expanded once,
\* from the first (shortest, BFS) history that reached it, and every outgoing
\* transition is printed as that history extended by one step.
NextCover == Next /\ PrintT(ToJson(hist'))

\* Random deep behaviours (tlc -simulate): print each history when it reaches SimDepth.
EmitSim   == EmitAtDepth(SimDepth)
HistBound == Len(hist) <= SimDepth
=============================================================================
