\* the unrepaired design checked against the property: TLC must find a counterexample
CONSTANTS MaxBlocks = 3  MaxTx = 2  MaxOff = 2  QueryCtxNotPrev = TRUE  SimulateRunsMsgOnRoot = TRUE  OffChainMayTrustSig = TRUE
INIT Init
NEXT Next
VIEW view
INVARIANTS C11_C13_NoDivergence
CHECK_DEADLOCK FALSE
