INIT TraceInit
NEXT TraceNext
INVARIANTS C12_Deterministic
POSTCONDITION TraceAccepted
CHECK_DEADLOCK FALSE
