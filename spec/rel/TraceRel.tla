------------------------------ MODULE TraceRel ------------------------------
(***************************************************************************)
(* Validation of the relational traces recorded by vh-rel.  Each event is  *)
(* the outcome of comparing REAL nodes that executed the same chain:       *)
(*   block  : node A (served off-chain requests of the listed kinds)       *)
(*            vs node B (served none): same result codes, data, app hash   *)
(*   run    : repeat run / delayed (wall-clock) run vs first run            *)
(*   export : projection at the export height vs projection after          *)
(*            initialising a new chain from the exported genesis           *)
(***************************************************************************)
EXTENDS Integers, Sequences, FiniteSets, TLC, Json, IOUtils

Trace == ndJsonDeserialize(IOEnv.TRACE_FILE)

VARIABLES l, errs
tvars == <<l, errs>>
TraceInit == l = 1 /\ errs = <<>>

Put(f, k, v) == [x \in DOMAIN f \cup {k} |-> IF x = k THEN v ELSE f[x]]
At(f, k, d)  == IF k \in DOMAIN f THEN f[k] ELSE d

Known == LET k == JsonDeserialize(IOEnv.KNOWN_FILE) IN {k[i] : i \in 1..Len(k)}   \* ids of OPEN known findings

NODEPOOL == "staked_tokens_pool"
APPPOOL  == "application_staked_tokens_pool"
DAO      == "dao"

\* C43, as the property states it: accounts and balances, supply, nodes, applications,
\* parameters and pending claims are reproduced.
ExportFields == {"bal", "supply", "val", "app", "claims", "nodeParams", "appParams", "pcParams", "acl", "daoOwner", "upgrade"}
DiffFields(e) == {f \in ExportFields : e.src[f] # e.dst[f]}

\* ---- the listed (known) ways in which the unchanged tree breaks C43 ----------------
\* F-C43-c: the DAO's tokens are minted again on import and the staking pools / DAO are added to the supply again;
\*          accounts holding no coins are not exported
BalKnown(e) ==
    \A k \in DOMAIN e.src.bal \cup DOMAIN e.dst.bal :
        \/ (k \in DOMAIN e.src.bal /\ k \in DOMAIN e.dst.bal /\ e.src.bal[k] = e.dst.bal[k])
        \/ (k = DAO /\ k \in DOMAIN e.dst.bal /\ e.dst.bal[k] = 2 * e.src.bal[k])
        \/ (k \in DOMAIN e.src.bal /\ e.src.bal[k] = 0 /\ k \notin DOMAIN e.dst.bal)
SupplyKnown(e) ==
    \/ e.dst.supply = e.src.supply
    \/ e.dst.supply = e.src.supply + At(e.src.bal, NODEPOOL, 0) + At(e.src.bal, APPPOOL, 0) + At(e.src.bal, DAO, 0)
\* F-C43-d: a node's output address and reward delegators are lost (records are re-encoded with the pre-upgrade layout at height 0)
ValKnown(e) ==
    /\ DOMAIN e.src.val = DOMAIN e.dst.val
    /\ \A n \in DOMAIN e.src.val :
          [e.src.val[n] EXCEPT !.output = "", !.delegators = <<>>] = [e.dst.val[n] EXCEPT !.output = "", !.delegators = <<>>]

\* the exported document itself lists exactly the pending claims of the exported state (judged even when
\* the import does not go through)
SeqSet(q) == {q[i] : i \in DOMAIN q}
DocumentOK(e) == "expClaims" \in DOMAIN e /\ "claims" \in DOMAIN e.src =>
                    /\ SeqSet(e.expClaims) = SeqSet(e.src.claims)
                    /\ Len(e.expClaims) = Len(e.src.claims)

\* class of an export event: "" = reproduced; an open known-finding id; or "C43" (unlisted violation)
ExportClass(e) ==
    IF ~DocumentOK(e) THEN "C43"
    ELSE IF ~e.ok
      THEN IF e.reason = "pool-mismatch" /\ e.unstaking /\ "F-C43-a" \in Known THEN "F-C43-a"
           ELSE IF e.reason = "acl-unknown-param" /\ ~e.noParamFeatures /\ "F-C43-b" \in Known THEN "F-C43-b"
           ELSE "C43"
      ELSE IF DiffFields(e) = {} THEN ""
      ELSE IF /\ DiffFields(e) \subseteq {"bal", "supply", "val"}
              /\ BalKnown(e) /\ SupplyKnown(e) /\ ValKnown(e)
              /\ ("bal" \in DiffFields(e) \/ "supply" \in DiffFields(e) => "F-C43-c" \in Known)
              /\ ("val" \in DiffFields(e) => "F-C43-d" \in Known)
             THEN (IF "val" \in DiffFields(e) /\ DiffFields(e) = {"val"} THEN "F-C43-d" ELSE "F-C43-c")
      ELSE "C43"

Tag(e) ==
    CASE e.ev = "block"  -> IF e.same THEN "" ELSE "C11C13"
      [] e.ev = "run"    -> IF e.same THEN "" ELSE "C12"
      [] e.ev = "export" -> ExportClass(e)
      [] OTHER           -> ""

TraceNext ==
    /\ l <= Len(Trace)
    /\ l' = l + 1
    /\ (Tag(Trace[l]) \in Known => PrintT(<<"KNOWN-FINDING-SEEN", Tag(Trace[l]), l>>))
    \* listed findings are reported above, never stored: they must not crowd out other tags
    /\ errs' = IF Tag(Trace[l]) # "" /\ Tag(Trace[l]) \notin Known /\ Len(errs) < 400
               THEN Append(errs, <<l, Tag(Trace[l])>>) ELSE errs

Tagged(t) == \E i \in 1..Len(errs) : errs[i][2] = t
C11_C13_OffChainNeverChangesBlocks == ~Tagged("C11C13")
C12_Deterministic                  == ~Tagged("C12")
C43_ExportReproducesState          == ~Tagged("C43")
\* known findings that reproduced in this trace are reported (never silently accepted)
TraceAccepted == TLCGet("stats").diameter = Len(Trace) + 1
=============================================================================
