INIT TraceInit
NEXT TraceNext
INVARIANTS C11_C13_OffChainNeverChangesBlocks
POSTCONDITION TraceAccepted
CHECK_DEADLOCK FALSE
