------------------------------ MODULE ChainRel ------------------------------
(***************************************************************************)
(* Two nodes executing the same blocks.  Node "A" additionally serves      *)
(* off-chain requests (CheckTx, simulation, ABCI queries at any committed  *)
(* height, RPC queries through historical contexts) before a block,        *)
(* between its DeliverTx calls and before its Commit; node "B" never does.   C11 / C13: every block result and every    *)
(* committed state must be identical on both.                              *)
(*                                                                         *)
(* The model follows one keeper-cached record X (an application record:    *)
(* x/apps keeper GetApplication / SetApplication / DeleteApplication with  *)
(* the process-global ApplicationCache, types/lru.go) through the code's   *)
(* read paths:                                                             *)
(*   consensus read  : cache first (context not "previous"), fill on miss  *)
(*   RPC read        : Context.PrevCtx(h) - marked previous: bypasses and  *)
(*                     never fills the cache                               *)
(*   ABCI custom query: context over the store at height h NOT marked      *)
(*                     previous (baseapp.handleQueryCustom): cache first,  *)
(*                     fill on miss  <- deviation QueryCtxNotPrev          *)
(*   simulate        : ante on a cache-wrapped store, message handler on   *)
(*                     the ROOT store (baseapp.runTx/txContext)            *)
(*                     <- deviation SimulateRunsMsgOnRoot                  *)
(* Both deviations are switches so that the repaired behaviour can be      *)
(* model-checked too.                                                      *)
(*                                                                         *)
(* A second node-local memory is followed next to the LRU: what the node   *)
(* believes about the signature of a FORGED transaction F (well-formed,    *)
(* junk signature).  CheckTx verifies signatures, simulation skips the     *)
(* verification by design; neither may leave the node believing that F is  *)
(* properly signed.  OffChainMayTrustSig = TRUE is the pessimistic         *)
(* generator (an off-chain request with F makes node A trust it), FALSE    *)
(* the design that holds.  A trusted F delivered in a block takes effect.  *)
(***************************************************************************)
EXTENDS Integers, Sequences, FiniteSets, TLC, Json

CONSTANTS MaxBlocks,             \* blocks after the warm-up
          MaxTx,                 \* transactions per block
          MaxOff,                \* off-chain requests per behaviour
          QueryCtxNotPrev,       \* TRUE = as the unrepaired code
          SimulateRunsMsgOnRoot, \* TRUE = as the unrepaired code
          OffChainMayTrustSig    \* TRUE = pessimistic: off-chain handling of a forged transaction may be remembered

Node == {"A", "B"}
ABSENT == 0          \* record values: 0 absent, 1 staked (2 POKT), 2 staked (3 POKT)
NONE   == -1         \* cache holds nothing for X

VARIABLES pool,       \* [Node -> Nat]    POKT moved into the application pool on behalf of X (and its transferees)
          root,       \* [Node -> 0..2]   X in the working (root) store
          cache,      \* [Node -> -1..2]  X in the process-global LRU
          committed,  \* [Node -> Seq(0..2)]  X at each committed height (index = block number)
          nblocks, noff,
          trust,      \* [Node -> BOOLEAN] the node believes the signature of the forged transaction F is valid
          inblk,      \* transactions delivered in the block that is being executed (0 = between blocks)
          diverged,   \* some block result or committed state differed so far
          hist

vars == <<pool, root, cache, trust, committed, nblocks, noff, inblk, diverged, hist>>
view == <<pool, root, cache, trust, committed, nblocks, noff, inblk, diverged>>

Init ==
    /\ pool = [n \in Node |-> 0]
    /\ root = [n \in Node |-> ABSENT] /\ cache = [n \in Node |-> NONE]
    /\ committed = [n \in Node |-> <<>>] /\ trust = [n \in Node |-> FALSE]
    /\ nblocks = 0 /\ noff = 0 /\ inblk = 0 /\ diverged = FALSE /\ hist = <<>>

\* what a consensus-path read of X returns on node n (cache first, then the root store)
Eff(n) == IF cache[n] # NONE THEN cache[n] ELSE root[n]
\* cache after such a read (filled on a miss when the record exists)
Filled(n) == IF cache[n] # NONE THEN cache[n] ELSE IF root[n] # ABSENT THEN root[n] ELSE NONE

\* ---- the message handlers, as functions of the node they run on -------------------
\* app_stake of X with level lvl: new stake when the read finds nothing, edit-stake otherwise
StakeClass(n, lvl) == IF Eff(n) = ABSENT THEN "new" ELSE IF lvl >= Eff(n) THEN "edit" ELSE "fail"
StakeRoot(n, lvl)  == IF StakeClass(n, lvl) = "fail" THEN root[n] ELSE lvl
StakeCache(n, lvl) == IF StakeClass(n, lvl) = "fail" THEN Filled(n) ELSE lvl
\* coins the stake handler moves into the pool: level 1 = 2 POKT, level 2 = 3 POKT;
\* an edit-stake moves the difference to the level the READ reported
Amount(v) == IF v = ABSENT THEN 0 ELSE v + 1
StakePool(n, lvl)  == IF StakeClass(n, lvl) = "fail" THEN pool[n] ELSE pool[n] + Amount(lvl) - Amount(Eff(n))
Ok(cls) == cls # "fail"
\* transfer of X to a new key: needs X staked (ante and handler read X); removes X
XferClass(n)  == IF Eff(n) = ABSENT THEN "fail" ELSE "ok"
XferRoot(n)   == IF XferClass(n) = "ok" THEN ABSENT ELSE root[n]
XferCache(n)  == IF XferClass(n) = "ok" THEN NONE ELSE Filled(n)

\* ---- consensus, on both nodes: DeliverTx inside a block, then EndBlock + Commit --------
\* (off-chain requests may come between any two of these ABCI calls)
Deliver(kind, lvl) ==
    /\ nblocks < MaxBlocks /\ inblk < MaxTx
    /\ LET cls == [n \in Node |-> IF kind = "stake" THEN StakeClass(n, lvl) ELSE XferClass(n)]
           r   == [n \in Node |-> IF kind = "stake" THEN StakeRoot(n, lvl) ELSE XferRoot(n)]
           ch  == [n \in Node |-> IF kind = "stake" THEN StakeCache(n, lvl) ELSE XferCache(n)]
           p   == [n \in Node |-> IF kind = "stake" THEN StakePool(n, lvl) ELSE pool[n]]
           d   == Ok(cls["A"]) # Ok(cls["B"])          \* observable at once: the result code
       IN /\ root' = r /\ cache' = ch /\ pool' = p
          /\ diverged' = (diverged \/ d)
          /\ hist' = Append(hist, [a |-> "tx", kind |-> kind, lvl |-> lvl, clsA |-> cls["A"], clsB |-> cls["B"], div |-> d])
    /\ inblk' = inblk + 1 /\ UNCHANGED <<committed, nblocks, noff, trust>>

\* the forged transaction F in a block: refused by a node that verifies its signature, executed (a
\* transfer: one more POKT on the pool side of the ledger) by a node that believes it verified
DeliverForged ==
    /\ nblocks < MaxBlocks /\ inblk < MaxTx
    /\ LET cls == [n \in Node |-> IF trust[n] THEN "ok" ELSE "fail"]
           d   == cls["A"] # cls["B"]
       IN /\ pool' = [n \in Node |-> IF trust[n] THEN pool[n] + 1 ELSE pool[n]]
          /\ diverged' = (diverged \/ d)
          /\ hist' = Append(hist, [a |-> "tx", kind |-> "forged", lvl |-> 0, clsA |-> cls["A"], clsB |-> cls["B"], div |-> d])
    /\ inblk' = inblk + 1 /\ UNCHANGED <<root, cache, trust, committed, nblocks, noff>>

Commit ==
    /\ inblk >= 1
    /\ LET d == root["A"] # root["B"] \/ pool["A"] # pool["B"] IN     \* observable: the app hash
       /\ committed' = [n \in Node |-> Append(committed[n], root[n])]
       /\ diverged' = (diverged \/ d)
       /\ hist' = Append(hist, [a |-> "commit", div |-> d])
    /\ nblocks' = nblocks + 1 /\ inblk' = 0 /\ UNCHANGED <<root, cache, pool, noff, trust>>

\* ---- off-chain requests, node A only -------------------------------------------
Off(rec) == noff < MaxOff /\ noff' = noff + 1 /\ hist' = Append(hist, rec) /\ UNCHANGED <<committed, nblocks, inblk, diverged>>
OffX(rec) == Off(rec) /\ UNCHANGED trust      \* requests that do not carry the forged transaction

\* RPC query through Context.PrevCtx(h): no effect on consensus-visible state
RpcQuery(h) ==
    /\ h \in 1..Len(committed["A"])
    /\ OffX([a |-> "rpc", h |-> h]) /\ UNCHANGED <<root, cache, pool>>

\* ABCI custom query at committed height h
AbciQuery(h) ==
    /\ h \in 1..Len(committed["A"])
    /\ OffX([a |-> "abci", h |-> h])
    /\ UNCHANGED <<root, pool>>
    /\ cache' = IF QueryCtxNotPrev /\ cache["A"] = NONE /\ committed["A"][h] # ABSENT
                  THEN [cache EXCEPT !["A"] = committed["A"][h]] ELSE cache

\* CheckTx of a stake transaction: the ante handler runs on a cache-wrapped store and is
\* discarded; keeper reads during it may fill the LRU with the CURRENT value (harmless)
CheckTx(lvl) ==
    /\ OffX([a |-> "checktx", lvl |-> lvl])
    /\ UNCHANGED <<root, pool>>
    /\ cache' = [cache EXCEPT !["A"] = Filled("A")]

\* simulation of a stake transaction
Simulate(lvl) ==
    /\ OffX([a |-> "simulate", lvl |-> lvl])
    /\ IF SimulateRunsMsgOnRoot
         THEN /\ root'  = [root EXCEPT !["A"] = StakeRoot("A", lvl)]
              /\ cache' = [cache EXCEPT !["A"] = StakeCache("A", lvl)]
              /\ pool'  = [pool EXCEPT !["A"] = StakePool("A", lvl)]
         ELSE UNCHANGED <<root, pool>> /\ cache' = [cache EXCEPT !["A"] = Filled("A")]

\* CheckTx / simulation of the forged transaction F on node A (lvl 0 marks F in the history)
OffForged(how) ==
    /\ Off([a |-> how, lvl |-> 0])
    /\ trust' = [trust EXCEPT !["A"] = @ \/ OffChainMayTrustSig]
    /\ UNCHANGED <<root, cache, pool>>

Next ==
    \/ DeliverForged
    \/ OffForged("checktx") \/ OffForged("simulate")
    \/ \E lvl \in 1..2 : Deliver("stake", lvl)
    \/ Deliver("transfer", 0)
    \/ Commit
    \/ \E h \in 1..MaxBlocks : RpcQuery(h) \/ AbciQuery(h)
    \/ \E lvl \in 1..2 : CheckTx(lvl) \/ Simulate(lvl)

NextCover == Next /\ PrintT(ToJson(hist'))
Spec == Init /\ [][Next]_vars

-----------------------------------------------------------------------------
\* C11 / C13 at design level: off-chain activity never makes a block differ
C11_C13_NoDivergence == ~diverged
\* stronger, state-based: what the next consensus read sees is the same on both nodes
SameEffective == Eff("A") = Eff("B") /\ root["A"] = root["B"] /\ pool["A"] = pool["B"] /\ trust["A"] = trust["B"]
=============================================================================
