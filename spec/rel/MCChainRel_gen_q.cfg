\* the model as the unrepaired code behaves: used to GENERATE behaviours (no invariant)
CONSTANTS MaxBlocks = 2  MaxTx = 2  MaxOff = 2  QueryCtxNotPrev = TRUE  SimulateRunsMsgOnRoot = TRUE  OffChainMayTrustSig = TRUE
INIT Init
NEXT NextCover
VIEW view
CHECK_DEADLOCK FALSE
