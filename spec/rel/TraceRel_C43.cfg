INIT TraceInit
NEXT TraceNext
INVARIANTS C43_ExportReproducesState
POSTCONDITION TraceAccepted
CHECK_DEADLOCK FALSE
