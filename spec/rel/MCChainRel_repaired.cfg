\* the repaired design: the property holds in every reachable state
CONSTANTS MaxBlocks = 3  MaxTx = 2  MaxOff = 3  QueryCtxNotPrev = FALSE  SimulateRunsMsgOnRoot = FALSE  OffChainMayTrustSig = FALSE
INIT Init
NEXT Next
VIEW view
INVARIANTS C11_C13_NoDivergence SameEffective
CHECK_DEADLOCK FALSE
