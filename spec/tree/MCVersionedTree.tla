------------------------- MODULE MCVersionedTree -------------------------
(* Model-checking / behaviour-generation instances of VersionedTree.       *)
EXTENDS VersionedTree
CONSTANTS SimDepth,      \* length of the simulated histories
          CoverDepth,    \* transition cover: only states whose shortest history is <= CoverDepth
          ObsCover,      \* transition cover: include the Get / Has / ByIndex observer instances
          RangeCover     \* transition cover: include the Range observer instances

\* Transition cover: with VIEW view every distinct abstract state (tree SHAPES included)
\* is expanded once, from the first (shortest, BFS) history that reached it, and every
\* outgoing transition is printed as that history extended by one step.
\* (every mutation's history entry carries the whole expected state, which the harness compares
\* through all observers; the explicit observer instances add the bounded range reads)
CoverObservation ==
    \/ ObsCover /\ \E t \in 0..MaxVersion, k \in KeyS : Get(t, k) \/ Has(t, k)
    \/ ObsCover /\ \E t \in 0..MaxVersion, i \in -1..NK : ByIndex(t, i)
    \/ RangeCover /\ \E t \in 0..MaxVersion, lo \in 0..NK, hi \in 0..NK, asc \in BOOLEAN, incl \in BOOLEAN :
          Range(t, lo, hi, asc, incl)
    \/ VersionsObs
NextCover  == (Mutation \/ CoverObservation) /\ PrintT(ToJson(hist'))
CoverBound == Len(hist) <= CoverDepth

\* Random deep behaviours (tlc -simulate): print each history when it reaches SimDepth.
EmitSim   == EmitAtDepth(SimDepth)
HistBound == Len(hist) <= SimDepth
=============================================================================
