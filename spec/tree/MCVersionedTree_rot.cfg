\* every transition of the working tree's state graph (all reachable AVL shapes over 5 keys):
\* every rotation case of insert and remove, every observer instance on every shape
CONSTANTS NK = 5  NV = 1  MaxVersion = 0  WithDelete = FALSE  WithOverwrite = FALSE
          RecordHist = TRUE  KeepStates = FALSE  SimDepth = 0  CoverDepth = 100  RangeCover = TRUE
INIT Init
NEXT NextCover
VIEW view
CONSTRAINT CoverBound
INVARIANTS TypeOK C03_VersionsConsistent C03_WellFormed C03_NodeVersions C03_ReadPathsAreTheMap
PROPERTIES C03_MutationsAreTheMap C03_SavedVersionsImmutable
