\* the verifier as the code is: sound except for the named known forgeries
CONSTANTS NK = 4  NV = 1  MaxVersion = 2  WithDelete = FALSE  WithOverwrite = FALSE
          RecordHist = TRUE  KeepStates = FALSE  CoverDepth = 8
          RejectBothChildren = FALSE  RequireLeftmostInner = FALSE  RejectDuplicateStore = FALSE
INIT Init
NEXT ProofNext
VIEW pview
CONSTRAINT CoverBound
INVARIANTS C05_Completeness C05_Soundness C05_NoFalseReject C05_KnownAreAccepted
