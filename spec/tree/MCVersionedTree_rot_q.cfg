\* quick: every transition of the working tree's state graph over 6 keys -- all reachable AVL
\* shapes, hence every rotation case of insert and remove -- and every observer instance
\* (all range bounds, both directions, inclusive / exclusive) on every shape
CONSTANTS NK = 6  NV = 1  MaxVersion = 0  WithDelete = FALSE  WithOverwrite = FALSE
          RecordHist = TRUE  KeepStates = FALSE  SimDepth = 0  CoverDepth = 100  ObsCover = TRUE  RangeCover = TRUE
INIT Init
NEXT NextCover
VIEW view
CONSTRAINT CoverBound
INVARIANTS TypeOK C03_VersionsConsistent C03_WellFormed C03_NodeVersions C03_ReadPathsAreTheMap
PROPERTIES C03_MutationsAreTheMap C03_SavedVersionsImmutable
