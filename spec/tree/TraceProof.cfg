CONSTANTS NK = 100000  NV = 3  MaxVersion = 100000  WithDelete = FALSE  WithOverwrite = FALSE
          RecordHist = FALSE  KeepStates = FALSE
INIT TraceInit
NEXT TraceNext
INVARIANTS C05_AnswersAndVerdicts
POSTCONDITION TraceAccepted
CHECK_DEADLOCK FALSE
