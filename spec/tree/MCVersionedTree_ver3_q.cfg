\* quick: versions -- every transition (Set / Remove / SaveVersion incl. empty trees / DeleteVersion /
\* Rollback / reload / LoadVersionForOverwriting) between the states reachable by histories of <= 9
\* steps over 2 keys, <= 3 saved versions (deleting a middle version); the whole state is compared after every transition
CONSTANTS NK = 2  NV = 1  MaxVersion = 3  WithDelete = TRUE  WithOverwrite = TRUE
          RecordHist = TRUE  KeepStates = FALSE  SimDepth = 0  CoverDepth = 9  ObsCover = FALSE  RangeCover = FALSE
INIT Init
NEXT NextCover
VIEW view
CONSTRAINT CoverBound
INVARIANTS TypeOK C03_VersionsConsistent C03_WellFormed C03_NodeVersions C03_ReadPathsAreTheMap
PROPERTIES C03_MutationsAreTheMap C03_SavedVersionsImmutable
