\* the verifier with the three missing checks: sound and complete without exception
\* (design-level evidence for fixes/C05-*.diff; nothing is replayed from this run)
CONSTANTS NK = 5  NV = 1  MaxVersion = 2  WithDelete = FALSE  WithOverwrite = FALSE
          RecordHist = FALSE  KeepStates = FALSE  CoverDepth = 100
          RejectBothChildren = TRUE  RequireLeftmostInner = TRUE  RejectDuplicateStore = TRUE
INIT Init
NEXT ProofNext
VIEW wview
INVARIANTS C05_Completeness C05_Soundness C05_NoFalseReject
