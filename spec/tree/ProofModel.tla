----------------------------- MODULE ProofModel -----------------------------
(***************************************************************************)
(* C05: a store query with prove=true on a committed version returns a     *)
(* witness that verifies against that version's app hash (completeness),   *)
(* and nothing but the honest witness of a true claim verifies             *)
(* (soundness), under ideal hashing.                                       *)
(*                                                                         *)
(* The world is a rootmulti.Store with two IAVL substores: store 1 is the  *)
(* VersionedTree (Set / Remove / SaveVersion = Commit), store 2 is a       *)
(* sibling holding one key written before the first commit.  Commit v has  *)
(* the store infos Infos(v) and the app hash AppRoot(v).                   *)
(*                                                                         *)
(* Prove(v, k) is the query "/1/key" for key k at height v.  Its history   *)
(* entry lists every mutation of the returned witness / of the claim being *)
(* verified (Mutations) with the verdict the property demands (exp, see     *)
(* Demands) and the verdict of the verifier model as the code is (asis).   *)
(***************************************************************************)
EXTENDS VersionedTree, ProofOps

Tree2  == Leaf(1, 1, 1)             \* store 2: key 1 -> value 1 written at version 1, never touched
BADVAL == NV + 1                    \* a value no store ever holds
NOSTORE == 3                        \* a store name that is not mounted

StoreTree(v, s) == IF s = 1 THEN saved[v] ELSE Tree2
Infos(v)   == <<[name |-> 1, hash |-> RootHash(saved[v]), ver |-> v],
                [name |-> 2, hash |-> RootHash(Tree2),    ver |-> v]>>
AppRoot(v) == AppHash(Infos(v))

HonestW(v, s, k) == HonestWitness(StoreTree(v, s), s, Infos(v), k)
Claim(v, s, k)   == TrueClaim(StoreTree(v, s), s, AppRoot(v), k)

\* a claim is true if it states what some retained version holds, against that version's app hash
ClaimTrue(c) ==
    \E v \in versions : c.root = AppRoot(v) /\ c.store \in {1, 2} /\ c = Claim(v, c.store, c.key)
\* the pair is exactly what an honest node answers for a true claim
Honest(w, c) ==
    \E v \in versions : c.root = AppRoot(v) /\ c.store \in {1, 2}
                        /\ c = Claim(v, c.store, c.key) /\ w = HonestW(v, c.store, c.key)

-----------------------------------------------------------------------------
\* Mutations.  m = [c (class), p (0 = LeftPath, j = InnerNodes[j]), i (index), x (parameter)]
M(c, p, i, x) == [c |-> c, p |-> p, i |-> i, x |-> x]

PathOf(pr, p)    == IF p = 0 THEN pr.lp ELSE pr.inn[p]
SetPath(pr, p, q) == IF p = 0 THEN [pr EXCEPT !.lp = q] ELSE [pr EXCEPT !.inn[p] = q]
DropAt(s, i)     == SubSeq(s, 1, i - 1) \o SubSeq(s, i + 1, Len(s))
DupAt(s, i)      == SubSeq(s, 1, i) \o SubSeq(s, i, Len(s))
SwapAt(s, i)     == [j \in 1..Len(s) |-> IF j = i THEN s[i + 1] ELSE IF j = i + 1 THEN s[i] ELSE s[j]]

\* the "skip" attack: claim that the PRESENT key k is absent, showing its predecessor
\* and a later key `far` with far's genuine path inside the right sibling
SkipProof(t, k, far) ==
    LET pred == Neighbours(t, k)[1]
        P == GetWithProof(t, pred)
        S == GetWithProof(t, far)
        turns == {i \in 1..Len(P.lp) : P.lp[i].right # NOHASH}
        d == CHOOSE i \in turns : \A j \in turns : j <= i
    IN [nil |-> FALSE, lp |-> P.lp, inn |-> <<SubSeq(S.lp, d + 1, Len(S.lp))>>, lv |-> <<P.lv[1], S.lv[1]>>]
SkipPossible(t, k, far) ==
    /\ k \in KeysOf(t) /\ far \in KeysOf(t) /\ far > k /\ Neighbours(t, k)[1] # 0
    /\ LET P == GetWithProof(t, Neighbours(t, k)[1])
           S == GetWithProof(t, far)
           turns == {i \in 1..Len(P.lp) : P.lp[i].right # NOHASH}
       IN /\ turns # {}
          /\ LET d == CHOOSE i \in turns : \A j \in turns : j <= i
             IN /\ Len(S.lp) >= d /\ S.lp[d].left # NOHASH
                /\ \A j \in 1..(d - 1) : (S.lp[j].left = NOHASH) = (P.lp[j].left = NOHASH)

Mutations(v, k) ==
    LET t  == saved[v]
        w  == HonestW(v, 1, k)
        c  == Claim(v, 1, k)
        pr == w.proof
        paths == IF pr.nil THEN {} ELSE 0..Len(pr.inn)
        sites == {<<p, i>> \in paths \X (1..NK) : i <= Len(PathOf(pr, p))}
    IN  {M("none", 0, 0, 0)}
        \* --- the claim being verified
        \cup {M("key", 0, 0, x) : x \in KeyS \ {k}}            \* other key (op key follows)
        \cup {M("claimkey", 0, 0, x) : x \in KeyS \ {k}}       \* other key (op key unchanged)
        \cup {M("value", 0, 0, x) : x \in IF c.kind = 1 THEN (1..BADVAL) \ {c.val} ELSE {}}
        \cup {M("kind", 0, 0, 0), M("optype", 0, 0, 0), M("kind_optype", 0, 0, 0)}
        \cup {M("root", 0, 0, x) : x \in {0} \cup (versions \ {v})}
        \cup {M("store", 0, 0, x) : x \in {2, NOSTORE}}
        \cup {M("claimstore", 0, 0, 2), M("mskey", 0, 0, 2)}
        \* --- proof inner nodes
        \cup {M(cl, s[1], s[2], x) : cl \in {"pin_h", "pin_s", "pin_ver"}, s \in sites, x \in {-1, 1}}
        \cup {M(cl, s[1], s[2], x) : cl \in {"pin_left", "pin_right"}, s \in sites, x \in {1, 2}}
        \cup {M("pin_left", s[1], s[2], 0) : s \in {q \in sites : PathOf(pr, q[1])[q[2]].left # NOHASH}}
        \cup {M("pin_right", s[1], s[2], 0) : s \in {q \in sites : PathOf(pr, q[1])[q[2]].right # NOHASH}}
        \cup {M(cl, s[1], s[2], 0) : cl \in {"path_drop", "path_dup"}, s \in sites}
        \cup {M("path_swap", s[1], s[2], 0) : s \in {q \in sites : q[2] < Len(PathOf(pr, q[1]))}}
        \* --- proof leaves / structure
        \cup UNION {{M("leaf_key", 0, j, x) : x \in KeyS \ {pr.lv[j].key}} : j \in 1..Len(pr.lv)}
        \cup {M(cl, 0, j, x) : cl \in {"leaf_ver"}, j \in 1..Len(pr.lv), x \in {-1, 1}}
        \cup {M(cl, 0, j, 0) : cl \in {"leaf_vh", "leaf_drop", "leaf_dup"}, j \in 1..Len(pr.lv)}
        \cup (IF Len(pr.lv) = 2 THEN {M("leaf_swap", 0, 0, 0), M("inn_drop", 0, 0, 0)} ELSE {})
        \cup (IF pr.nil THEN {} ELSE {M("proof_nil", 0, 0, 0)})
        \* --- forgeries
        \cup {M("graft", 0, i, x) : i \in {j \in 1..Len(pr.lp) : Len(pr.lv) = 1 /\ pr.lp[j].left # NOHASH},
                                     x \in KeyS}
        \cup {M("skip", 0, 0, x) : x \in {f \in KeyS : SkipPossible(t, k, f)}}
        \* --- multistore operator
        \cup {M(cl, 0, 0, x) : cl \in {"ms_hash", "ms_name", "ms_drop", "ms_ver"}, x \in {1, 2}}
        \cup {M("ms_dup", 0, 0, 0)}

\* classes whose alteration the property does not name (the store version in a store
\* info is carried along but not hashed): reported, never judged
Neutral(m) == m.c = "ms_ver"

MutPin(pin, m, t) ==
    CASE m.c = "pin_h"     -> [pin EXCEPT !.h = @ + m.x]
      [] m.c = "pin_s"     -> [pin EXCEPT !.s = @ + m.x]
      [] m.c = "pin_ver"   -> [pin EXCEPT !.ver = @ + m.x]
      [] m.c = "pin_left"  -> [pin EXCEPT !.left  = IF m.x = 0 THEN NOHASH ELSE IF m.x = 1 THEN JUNK ELSE RootHash(t)]
      [] m.c = "pin_right" -> [pin EXCEPT !.right = IF m.x = 0 THEN NOHASH ELSE IF m.x = 1 THEN JUNK ELSE RootHash(t)]

\* the mutated [w, c]
Apply(v, k, m) ==
    LET t  == saved[v]
        w  == HonestW(v, 1, k)
        c  == Claim(v, 1, k)
        pr == w.proof
        q  == PathOf(pr, m.p)
        flipK == 3 - c.kind
    IN CASE m.c = "none"        -> [w |-> w, c |-> c]
         [] m.c = "key"         -> [w |-> [w EXCEPT !.opkey = m.x], c |-> [c EXCEPT !.key = m.x]]
         [] m.c = "claimkey"    -> [w |-> w, c |-> [c EXCEPT !.key = m.x]]
         [] m.c = "value"       -> [w |-> w, c |-> [c EXCEPT !.val = m.x]]
         [] m.c = "kind"        -> [w |-> w, c |-> [c EXCEPT !.kind = flipK, !.val = IF flipK = 1 THEN 1 ELSE 0]]
         [] m.c = "optype"      -> [w |-> [w EXCEPT !.typ = 3 - @], c |-> c]
         [] m.c = "kind_optype" -> [w |-> [w EXCEPT !.typ = 3 - @],
                                    c |-> [c EXCEPT !.kind = flipK, !.val = IF flipK = 1 THEN 1 ELSE 0]]
         [] m.c = "root"        -> [w |-> w, c |-> [c EXCEPT !.root = IF m.x = 0 THEN JUNK ELSE AppRoot(m.x)]]
         [] m.c = "store"       -> [w |-> [w EXCEPT !.mskey = m.x], c |-> [c EXCEPT !.store = m.x]]
         [] m.c = "claimstore"  -> [w |-> w, c |-> [c EXCEPT !.store = m.x]]
         [] m.c = "mskey"       -> [w |-> [w EXCEPT !.mskey = m.x], c |-> c]
         [] m.c \in {"pin_h", "pin_s", "pin_ver", "pin_left", "pin_right"} ->
               [w |-> [w EXCEPT !.proof = SetPath(pr, m.p, [q EXCEPT ![m.i] = MutPin(@, m, t)])], c |-> c]
         [] m.c = "path_drop"   -> [w |-> [w EXCEPT !.proof = SetPath(pr, m.p, DropAt(q, m.i))], c |-> c]
         [] m.c = "path_dup"    -> [w |-> [w EXCEPT !.proof = SetPath(pr, m.p, DupAt(q, m.i))], c |-> c]
         [] m.c = "path_swap"   -> [w |-> [w EXCEPT !.proof = SetPath(pr, m.p, SwapAt(q, m.i))], c |-> c]
         [] m.c = "leaf_key"    -> [w |-> [w EXCEPT !.proof.lv[m.i].key = m.x], c |-> c]
         [] m.c = "leaf_ver"    -> [w |-> [w EXCEPT !.proof.lv[m.i].ver = @ + m.x], c |-> c]
         [] m.c = "leaf_vh"     -> [w |-> [w EXCEPT !.proof.lv[m.i].vh = @ + 100], c |-> c]
         [] m.c = "leaf_drop"   -> [w |-> [w EXCEPT !.proof.lv = DropAt(@, m.i), !.proof.inn = <<>>], c |-> c]
         [] m.c = "leaf_dup"    -> [w |-> [w EXCEPT !.proof.lv = DupAt(@, m.i), !.proof.inn = Append(@, <<>>)], c |-> c]
         [] m.c = "leaf_swap"   -> [w |-> [w EXCEPT !.proof.lv = SwapAt(@, 1)], c |-> c]
         [] m.c = "inn_drop"    -> [w |-> [w EXCEPT !.proof.inn = <<>>], c |-> c]
         [] m.c = "proof_nil"   -> [w |-> [w EXCEPT !.proof = NilProof], c |-> c]
         [] m.c = "graft"       ->
               LET forged == [key |-> m.x, vh |-> VH(BADVAL), ver |-> 1]
               IN [w |-> [w EXCEPT !.typ = 1, !.opkey = m.x,
                                   !.proof.lp[m.i].right = LeafHash(forged.key, forged.vh, forged.ver),
                                   !.proof.inn = << <<>> >>, !.proof.lv = Append(@, forged)],
                   c |-> [c EXCEPT !.key = m.x, !.kind = 1, !.val = BADVAL]]
         [] m.c = "skip"        -> [w |-> [w EXCEPT !.typ = 2, !.proof = SkipProof(t, k, m.x)],
                                    c |-> [c EXCEPT !.kind = 2, !.val = 0]]
         [] m.c = "ms_hash"     -> [w |-> [w EXCEPT !.infos[m.x].hash = JUNK], c |-> c]
         [] m.c = "ms_name"     -> [w |-> [w EXCEPT !.infos[m.x].name = NOSTORE], c |-> c]
         [] m.c = "ms_ver"      -> [w |-> [w EXCEPT !.infos[m.x].ver = @ + 1], c |-> c]
         [] m.c = "ms_drop"     -> [w |-> [w EXCEPT !.infos = DropAt(@, m.x)], c |-> c]
         [] m.c = "ms_dup"      ->
               LET fake == [nil |-> FALSE, lp |-> <<>>, inn |-> <<>>,
                            lv |-> <<[key |-> k, vh |-> VH(BADVAL), ver |-> 1]>>]
               IN [w |-> [w EXCEPT !.typ = 1, !.proof = fake,
                                   !.infos = <<[name |-> 1, hash |-> LeafHash(k, VH(BADVAL), 1), ver |-> v]>> \o @],
                   c |-> [c EXCEPT !.kind = 1, !.val = BADVAL]]

Accepts(v, k, m) == LET a == Apply(v, k, m) IN Verify(a.w, a.c)

\* What C05 demands of the verifier for the mutated pair: 1 = must accept, 0 = must reject,
\* 2 = not constrained.
\*   - the pair the honest node returned, unchanged: accept (completeness);
\*   - a false claim, whatever the witness: reject (soundness);
\*   - the true claim with an altered witness: reject ("any altered proof node ... fails");
\*   - another true claim: accept if the pair is again the honest answer for it, else free
\*     (e.g. the absence witness for k also proves the absence of other keys in the same gap).
Demands(v, k, m) ==
    LET a == Apply(v, k, m)
        w == HonestW(v, 1, k)
        c == Claim(v, 1, k)
    IN IF a.w = w /\ a.c = c THEN 1
       ELSE IF ~ClaimTrue(a.c) THEN 0
       ELSE IF a.c = c THEN 0
       ELSE IF Honest(a.w, a.c) THEN 1 ELSE 2

-----------------------------------------------------------------------------
\* The query, as a history entry for the harness.

\* the honest proof without its hashes: per node <<height, size, version, side>> (side 0 =
\* the path continues to the left child), leaves <<key, version>>
PinShape(pin) == <<pin.h, pin.s, pin.ver, IF pin.left = NOHASH THEN 0 ELSE 1>>
PathShape(q)  == [i \in 1..Len(q) |-> PinShape(q[i])]
ProofShape(pr) == [nil |-> B(pr.nil), lp |-> PathShape(pr.lp),
                   inn |-> [j \in 1..Len(pr.inn) |-> PathShape(pr.inn[j])],
                   lv |-> [j \in 1..Len(pr.lv) |-> <<pr.lv[j].key, pr.lv[j].ver>>]]

MutSeq(v, k) == SetAsSeq(Mutations(v, k))
Cases(v, k)  == LET ms == MutSeq(v, k)
                IN [i \in 1..Len(ms) |->
                      [m |-> ms[i],
                       exp  |-> IF Neutral(ms[i]) THEN 2 ELSE Demands(v, k, ms[i]),
                       asis |-> B(Accepts(v, k, ms[i]))]]

Prove(v, k) ==
    /\ v \in versions
    /\ UNCHANGED <<working, saved, versions, latest>>
    /\ LET c == Claim(v, 1, k) IN
       /\ ret' = <<c.kind, c.val>>
       /\ hist' = Rec([op |-> "Prove", ver |-> v, k |-> k, kind |-> c.kind, val |-> c.val,
                       nbr |-> Neighbours(saved[v], k), shape |-> ProofShape(HonestW(v, 1, k).proof),
                       cases |-> Cases(v, k)])

ProofNext ==
    \/ \E k \in KeyS, v \in ValS : Set(k, v)
    \/ \E k \in KeyS : Remove(k)
    \/ SaveVersion
    \/ \E v \in 1..MaxVersion, k \in KeyS : Prove(v, k)

-----------------------------------------------------------------------------
\* C05 on the design level

\* every query on a retained version yields a witness that verifies; existence iff present,
\* and an absence witness shows exactly the adjacent keys
C05_Completeness ==
    \A v \in versions, k \in KeyS :
        LET w == HonestW(v, 1, k)
            c == Claim(v, 1, k)
            n == Neighbours(saved[v], k)
        IN /\ Verify(w, c)
           /\ (w.typ = 1) = (k \in KeysOf(saved[v]))
           /\ w.typ = 1 => Len(w.proof.lv) = 1 /\ w.proof.lv[1].key = k /\ w.proof.lv[1].vh = VH(c.val)
           /\ w.typ = 2 /\ ~w.proof.nil =>
                 {w.proof.lv[j].key : j \in 1..Len(w.proof.lv)} = {n[1], n[2]} \ {0}
           /\ w.proof.nil = (saved[v] = EMPTY)

\* the forgeries the code as it is accepts (see known_findings.json); each is closed by
\* the corresponding Reject* / Require* check
Known_C05_both_children(v, k, m) ==        \* right hash of a node that hashes its left hash
    ~RejectBothChildren /\
    \/ m.c = "graft"
    \/ m.c = "pin_right" /\ m.x # 0 /\ PathOf(HonestW(v, 1, k).proof, m.p)[m.i].left # NOHASH
Known_C05_skip(v, k, m)      == ~RequireLeftmostInner /\ m.c = "skip"
Known_C05_dup_store(v, k, m) == ~RejectDuplicateStore /\ m.c = "ms_dup"
Known(v, k, m) == Known_C05_both_children(v, k, m) \/ Known_C05_skip(v, k, m) \/ Known_C05_dup_store(v, k, m)

\* no false claim and no altered witness of the queried claim is accepted
C05_Soundness ==
    \A v \in versions, k \in KeyS : \A m \in Mutations(v, k) :
        Neutral(m) \/ Known(v, k, m) \/ (Demands(v, k, m) = 0 => ~Accepts(v, k, m))
\* ... and honest answers are accepted (including mutations that land on one)
C05_NoFalseReject ==
    \A v \in versions, k \in KeyS : \A m \in Mutations(v, k) :
        Neutral(m) \/ (Demands(v, k, m) = 1 => Accepts(v, k, m))
\* the known forgeries are real in the model of the code as it is (so the list is not stale)
C05_KnownAreAccepted ==
    \A v \in versions, k \in KeyS : \A m \in Mutations(v, k) :
        Known(v, k, m) /\ m.c # "graft" => Accepts(v, k, m)
=============================================================================
