----------------------------- MODULE ProofModel -----------------------------
(***************************************************************************)
(* C05: a store query with prove=true on a committed version returns a     *)
(* witness that verifies against that version's app hash (completeness),   *)
(* and nothing but the honest witness of a true claim verifies             *)
(* (soundness), under ideal hashing.                                       *)
(*                                                                         *)
(* The world is a rootmulti.Store with two IAVL substores: store 1 is the  *)
(* VersionedTree (Set / Remove / SaveVersion = Commit), store 2 is a       *)
(* sibling holding one key written before the first commit.  Commit v has  *)
(* the store infos Infos(v) and the app hash AppRoot(v).                   *)
(*                                                                         *)
(* Prove(v, k) is the query "/1/key" for key k at height v.  Its history   *)
(* entry lists every mutation of the returned witness / of the claim being *)
(* verified (Mutations) with the verdict the property demands (exp, see    *)
(* Demands) and the verdict of the verifier model as the code is (asis).   *)
(***************************************************************************)
EXTENDS VersionedTree, ProofOps

Tree2  == Leaf(1, 1, 1)             \* store 2: key 1 -> value 1 written at version 1, never touched
BADVAL == NV + 1                    \* a value no store ever holds
NOSTORE == 3                        \* a store name that is not mounted

StoreTree(v, s) == IF s = 1 THEN saved[v] ELSE Tree2
Infos(v)   == <<[name |-> 1, hash |-> RootHash(saved[v]), ver |-> v],
                [name |-> 2, hash |-> RootHash(Tree2),    ver |-> v]>>
AppRoot(v) == AppHash(Infos(v))

HonestW(v, s, k) == HonestWitness(StoreTree(v, s), s, Infos(v), k)
Claim(v, s, k)   == TrueClaim(StoreTree(v, s), s, AppRoot(v), k)

\* Everything about one query "/1/key" for key k at height v, computed once:
\* the tree, the honest witness, the true claim, the app hashes of all retained versions.
Query(v, k) == [v |-> v, k |-> k, t |-> saved[v], w |-> HonestW(v, 1, k), c |-> Claim(v, 1, k),
                roots |-> [u \in versions |-> AppRoot(u)]]

\* a claim is true if it states what some retained version holds, against that version's app hash
ClaimTrue(q, c) ==
    \E u \in DOMAIN q.roots : c.root = q.roots[u] /\ c.store \in {1, 2} /\ c = Claim(u, c.store, c.key)
\* the pair is exactly what an honest node answers for a true claim
Honest(q, w, c) ==
    \E u \in DOMAIN q.roots : c.root = q.roots[u] /\ c.store \in {1, 2}
                              /\ c = Claim(u, c.store, c.key) /\ w = HonestW(u, c.store, c.key)

-----------------------------------------------------------------------------
\* Mutations.  m = [c (class), p (0 = LeftPath, j = InnerNodes[j]), i (index), x (parameter)]
M(c, p, i, x) == [c |-> c, p |-> p, i |-> i, x |-> x]

PathOf(pr, p)    == IF p = 0 THEN pr.lp ELSE pr.inn[p]
SetPath(pr, p, q) == IF p = 0 THEN [pr EXCEPT !.lp = q] ELSE [pr EXCEPT !.inn[p] = q]
DropAt(s, i)     == SubSeq(s, 1, i - 1) \o SubSeq(s, i + 1, Len(s))
DupAt(s, i)      == SubSeq(s, 1, i) \o SubSeq(s, i, Len(s))
SwapAt(s, i)     == [j \in 1..Len(s) |-> IF j = i THEN s[i + 1] ELSE IF j = i + 1 THEN s[i] ELSE s[j]]
Deepest(S)       == CHOOSE i \in S : \A j \in S : j <= i

\* the "skip" forgery: claim that the PRESENT key k is absent, showing its predecessor and
\* a later key `far` together with far's genuine path inside the predecessor's right sibling
SkipProof(t, k, far) ==
    LET P == GetWithProof(t, Neighbours(t, k)[1])
        S == GetWithProof(t, far)
        d == Deepest({i \in 1..Len(P.lp) : P.lp[i].right # NOHASH})
    IN [nil |-> FALSE, lp |-> P.lp, inn |-> <<SubSeq(S.lp, d + 1, Len(S.lp))>>, lv |-> <<P.lv[1], S.lv[1]>>]
SkipPossible(t, k, far) ==
    /\ k \in KeysOf(t) /\ far \in KeysOf(t) /\ far > k /\ Neighbours(t, k)[1] # 0
    /\ LET P == GetWithProof(t, Neighbours(t, k)[1])
           S == GetWithProof(t, far)
           turns == {i \in 1..Len(P.lp) : P.lp[i].right # NOHASH}
       IN /\ turns # {}
          /\ Len(S.lp) >= Deepest(turns) /\ S.lp[Deepest(turns)].left # NOHASH
          /\ \A j \in 1..(Deepest(turns) - 1) : (S.lp[j].left = NOHASH) = (P.lp[j].left = NOHASH)

Mutations(q) ==
    LET pr == q.w.proof
        paths == IF pr.nil THEN {} ELSE 0..Len(pr.inn)
        sites == {s \in paths \X (1..NK) : s[2] <= Len(PathOf(pr, s[1]))}
    IN  {M("none", 0, 0, 0)}
        \* --- the claim being verified
        \cup {M("key", 0, 0, x) : x \in KeyS \ {q.k}}          \* other key (the op key follows)
        \cup {M("claimkey", 0, 0, x) : x \in KeyS \ {q.k}}     \* other key (the op key stays)
        \cup {M("value", 0, 0, x) : x \in IF q.c.kind = 1 THEN (1..BADVAL) \ {q.c.val} ELSE {}}
        \cup {M("kind", 0, 0, 0), M("optype", 0, 0, 0), M("kind_optype", 0, 0, 0)}
        \cup {M("root", 0, 0, x) : x \in {0} \cup (versions \ {q.v})}
        \cup {M("store", 0, 0, x) : x \in {2, NOSTORE}}
        \cup {M("claimstore", 0, 0, 2), M("mskey", 0, 0, 2)}
        \* --- proof inner nodes
        \cup {M(cl, s[1], s[2], x) : cl \in {"pin_h", "pin_s", "pin_ver"}, s \in sites, x \in {-1, 1}}
        \cup {M(cl, s[1], s[2], x) : cl \in {"pin_left", "pin_right"}, s \in sites, x \in {1, 2}}
        \cup {M("pin_left", s[1], s[2], 0) : s \in {z \in sites : PathOf(pr, z[1])[z[2]].left # NOHASH}}
        \cup {M("pin_right", s[1], s[2], 0) : s \in {z \in sites : PathOf(pr, z[1])[z[2]].right # NOHASH}}
        \cup {M(cl, s[1], s[2], 0) : cl \in {"path_drop", "path_dup"}, s \in sites}
        \cup {M("path_swap", s[1], s[2], 0) : s \in {z \in sites : z[2] < Len(PathOf(pr, z[1]))}}
        \* --- proof leaves / structure
        \cup UNION {{M("leaf_key", 0, j, x) : x \in KeyS \ {pr.lv[j].key}} : j \in 1..Len(pr.lv)}
        \cup {M("leaf_ver", 0, j, x) : j \in 1..Len(pr.lv), x \in {-1, 1}}
        \cup {M(cl, 0, j, 0) : cl \in {"leaf_vh", "leaf_drop", "leaf_dup"}, j \in 1..Len(pr.lv)}
        \cup (IF Len(pr.lv) = 2 THEN {M("leaf_swap", 0, 0, 0), M("inn_drop", 0, 0, 0)} ELSE {})
        \cup (IF pr.nil THEN {} ELSE {M("proof_nil", 0, 0, 0)})
        \* --- forgeries
        \cup {M("graft", 0, i, x) : i \in {j \in 1..Len(pr.lp) : Len(pr.lv) = 1 /\ pr.lp[j].left # NOHASH},
                                     x \in KeyS}
        \cup {M("skip", 0, 0, x) : x \in {f \in KeyS : SkipPossible(q.t, q.k, f)}}
        \* --- multistore operator
        \cup {M(cl, 0, 0, x) : cl \in {"ms_hash", "ms_name", "ms_drop", "ms_ver"}, x \in {1, 2}}
        \cup {M("ms_dup", 0, 0, 0)}

\* the newest version gets every mutation; older retained versions the claim-level ones
\* (their witnesses have the same structure as some newest-version witness of another state)
OldVersionClasses == {"none", "key", "value", "kind", "root", "store"}
MutationsFor(q) == IF q.v = latest THEN Mutations(q) ELSE {m \in Mutations(q) : m.c \in OldVersionClasses}

\* classes whose alteration the property does not name (the store version in a store
\* info is carried along but not hashed): reported, never judged
Neutral(m) == m.c = "ms_ver"

MutPin(pin, m, t) ==
    CASE m.c = "pin_h"     -> [pin EXCEPT !.h = @ + m.x]
      [] m.c = "pin_s"     -> [pin EXCEPT !.s = @ + m.x]
      [] m.c = "pin_ver"   -> [pin EXCEPT !.ver = @ + m.x]
      [] m.c = "pin_left"  -> [pin EXCEPT !.left  = IF m.x = 0 THEN NOHASH ELSE IF m.x = 1 THEN JUNK ELSE RootHash(t)]
      [] m.c = "pin_right" -> [pin EXCEPT !.right = IF m.x = 0 THEN NOHASH ELSE IF m.x = 1 THEN JUNK ELSE RootHash(t)]

\* the mutated pair [w, c]
Apply(q, m) ==
    LET w  == q.w
        c  == q.c
        pr == w.proof
        pth == PathOf(pr, m.p)
        flipK == 3 - c.kind
    IN CASE m.c = "none"        -> [w |-> w, c |-> c]
         [] m.c = "key"         -> [w |-> [w EXCEPT !.opkey = m.x], c |-> [c EXCEPT !.key = m.x]]
         [] m.c = "claimkey"    -> [w |-> w, c |-> [c EXCEPT !.key = m.x]]
         [] m.c = "value"       -> [w |-> w, c |-> [c EXCEPT !.val = m.x]]
         [] m.c = "kind"        -> [w |-> w, c |-> [c EXCEPT !.kind = flipK, !.val = IF flipK = 1 THEN 1 ELSE 0]]
         [] m.c = "optype"      -> [w |-> [w EXCEPT !.typ = 3 - @], c |-> c]
         [] m.c = "kind_optype" -> [w |-> [w EXCEPT !.typ = 3 - @],
                                    c |-> [c EXCEPT !.kind = flipK, !.val = IF flipK = 1 THEN 1 ELSE 0]]
         [] m.c = "root"        -> [w |-> w, c |-> [c EXCEPT !.root = IF m.x = 0 THEN JUNK ELSE q.roots[m.x]]]
         [] m.c = "store"       -> [w |-> [w EXCEPT !.mskey = m.x], c |-> [c EXCEPT !.store = m.x]]
         [] m.c = "claimstore"  -> [w |-> w, c |-> [c EXCEPT !.store = m.x]]
         [] m.c = "mskey"       -> [w |-> [w EXCEPT !.mskey = m.x], c |-> c]
         [] m.c \in {"pin_h", "pin_s", "pin_ver", "pin_left", "pin_right"} ->
               [w |-> [w EXCEPT !.proof = SetPath(pr, m.p, [pth EXCEPT ![m.i] = MutPin(@, m, q.t)])], c |-> c]
         [] m.c = "path_drop"   -> [w |-> [w EXCEPT !.proof = SetPath(pr, m.p, DropAt(pth, m.i))], c |-> c]
         [] m.c = "path_dup"    -> [w |-> [w EXCEPT !.proof = SetPath(pr, m.p, DupAt(pth, m.i))], c |-> c]
         [] m.c = "path_swap"   -> [w |-> [w EXCEPT !.proof = SetPath(pr, m.p, SwapAt(pth, m.i))], c |-> c]
         [] m.c = "leaf_key"    -> [w |-> [w EXCEPT !.proof.lv[m.i].key = m.x], c |-> c]
         [] m.c = "leaf_ver"    -> [w |-> [w EXCEPT !.proof.lv[m.i].ver = @ + m.x], c |-> c]
         [] m.c = "leaf_vh"     -> [w |-> [w EXCEPT !.proof.lv[m.i].vh = @ + 100], c |-> c]
         [] m.c = "leaf_drop"   -> [w |-> [w EXCEPT !.proof.lv = DropAt(@, m.i), !.proof.inn = <<>>], c |-> c]
         [] m.c = "leaf_dup"    -> [w |-> [w EXCEPT !.proof.lv = DupAt(@, m.i), !.proof.inn = Append(@, <<>>)], c |-> c]
         [] m.c = "leaf_swap"   -> [w |-> [w EXCEPT !.proof.lv = SwapAt(@, 1)], c |-> c]
         [] m.c = "inn_drop"    -> [w |-> [w EXCEPT !.proof.inn = <<>>], c |-> c]
         [] m.c = "proof_nil"   -> [w |-> [w EXCEPT !.proof = NilProof], c |-> c]
         [] m.c = "graft"       ->      \* forged leaf (key x, BADVAL) hung below path node i
               [w |-> [w EXCEPT !.typ = 1, !.opkey = m.x,
                                !.proof.lp[m.i].right = LeafHash(m.x, VH(BADVAL), 1),
                                !.proof.inn = << <<>> >>,
                                !.proof.lv = Append(@, [key |-> m.x, vh |-> VH(BADVAL), ver |-> 1])],
                c |-> [c EXCEPT !.key = m.x, !.kind = 1, !.val = BADVAL]]
         [] m.c = "skip"        -> [w |-> [w EXCEPT !.typ = 2, !.proof = SkipProof(q.t, q.k, m.x)],
                                    c |-> [c EXCEPT !.kind = 2, !.val = 0]]
         [] m.c = "ms_hash"     -> [w |-> [w EXCEPT !.infos[m.x].hash = JUNK], c |-> c]
         [] m.c = "ms_name"     -> [w |-> [w EXCEPT !.infos[m.x].name = NOSTORE], c |-> c]
         [] m.c = "ms_ver"      -> [w |-> [w EXCEPT !.infos[m.x].ver = @ + 1], c |-> c]
         [] m.c = "ms_drop"     -> [w |-> [w EXCEPT !.infos = DropAt(@, m.x)], c |-> c]
         [] m.c = "ms_dup"      ->      \* a made-up one-leaf store (k, BADVAL), named like store 1, put first
               [w |-> [w EXCEPT !.typ = 1,
                                !.proof = [nil |-> FALSE, lp |-> <<>>, inn |-> <<>>,
                                           lv |-> <<[key |-> q.k, vh |-> VH(BADVAL), ver |-> 1]>>],
                                !.infos = <<[name |-> 1, hash |-> LeafHash(q.k, VH(BADVAL), 1), ver |-> q.v]>> \o @],
                c |-> [c EXCEPT !.kind = 1, !.val = BADVAL]]

\* What C05 demands of the verifier for the mutated pair a: 1 = must accept, 0 = must
\* reject, 2 = not constrained.
\*   - the pair the honest node returned, unchanged: accept (completeness);
\*   - a false claim, whatever the witness: reject (soundness);
\*   - the queried (true) claim with an altered witness: reject ("any altered proof node fails");
\*   - another true claim: accept if the pair is again the honest answer for it, else free
\*     (e.g. the absence witness for k also proves the absence of other keys in the same gap).
Demands(q, a) ==
    IF a.w = q.w /\ a.c = q.c THEN 1
    ELSE IF ~ClaimTrue(q, a.c) THEN 0
    ELSE IF a.c = q.c THEN 0
    ELSE IF Honest(q, a.w, a.c) THEN 1 ELSE 2

\* [exp: what the property demands, asis: what the verifier (as modelled) answers]
Verdicts(q, m) ==
    LET a == Apply(q, m)
    IN [exp |-> IF Neutral(m) THEN 2 ELSE Demands(q, a), asis |-> B(Verify(a.w, a.c))]

-----------------------------------------------------------------------------
\* The query, as a history entry for the harness.

\* the honest proof without its hashes: per node <<height, size, version, side>> (side 0 =
\* the path continues to the left child), leaves <<key, version>>
PinShape(pin) == <<pin.h, pin.s, pin.ver, IF pin.left = NOHASH THEN 0 ELSE 1>>
PathShape(q)  == [i \in 1..Len(q) |-> PinShape(q[i])]
ProofShape(pr) == [nil |-> B(pr.nil), lp |-> PathShape(pr.lp),
                   inn |-> [j \in 1..Len(pr.inn) |-> PathShape(pr.inn[j])],
                   lv |-> [j \in 1..Len(pr.lv) |-> <<pr.lv[j].key, pr.lv[j].ver>>]]

Cases(q) == LET ms == SetAsSeq(MutationsFor(q))
            IN [i \in 1..Len(ms) |-> LET r == Verdicts(q, ms[i])
                                     IN [m |-> ms[i], exp |-> r.exp, asis |-> r.asis]]

\* (queries are answered from committed versions only, so they are generated in the states
\* right after a commit; the uncommitted working tree plays no part)
Prove(v, k) ==
    /\ v \in versions
    /\ working = saved[latest]
    /\ UNCHANGED <<working, saved, versions, latest>>
    /\ LET q == Query(v, k) IN
       /\ ret' = <<q.c.kind, q.c.val>>
       /\ hist' = Rec([op |-> "Prove", ver |-> v, k |-> k, kind |-> q.c.kind, val |-> q.c.val,
                       nbr |-> Neighbours(q.t, k), shape |-> ProofShape(q.w.proof), cases |-> Cases(q)])

ProofNext ==
    \/ \E k \in KeyS, v \in ValS : Set(k, v)
    \/ \E k \in KeyS : Remove(k)
    \/ SaveVersion
    \/ \E v \in 1..MaxVersion, k \in KeyS : Prove(v, k)

-----------------------------------------------------------------------------
\* C05 on the design level

\* (evaluated in the states right after a commit: saved versions do not change in between)
Clean          == latest > 0 /\ working = saved[latest]
Queries        == IF Clean THEN {Query(v, k) : v \in versions, k \in KeyS} ELSE {}

\* every query on a retained version yields a witness that verifies; existence iff present,
\* and an absence witness shows exactly the adjacent keys
C05_Completeness ==
    \A q \in Queries :
        LET w == q.w
            c == q.c
            v == q.v
            k == q.k
            n == Neighbours(q.t, q.k)
        IN /\ Verify(w, c)
           /\ (w.typ = 1) = (k \in KeysOf(saved[v]))
           /\ w.typ = 1 => Len(w.proof.lv) = 1 /\ w.proof.lv[1].key = k /\ w.proof.lv[1].vh = VH(c.val)
           /\ w.typ = 2 /\ ~w.proof.nil =>
                 {w.proof.lv[j].key : j \in 1..Len(w.proof.lv)} = {n[1], n[2]} \ {0}
           /\ w.proof.nil = (saved[v] = EMPTY)

\* the forgeries the code as it is accepts (see known_findings.json); each is closed by
\* the corresponding Reject* / Require* check
Known_C05_both_children(q, m) ==           \* right hash of a node that hashes its left hash
    ~RejectBothChildren /\
    \/ m.c = "graft"
    \/ /\ m.c = "pin_right" /\ m.x # 0 /\ m.p = 0 /\ q.w.proof.lp[m.i].left # NOHASH
       \* ... provided the verifier never gets to look at it: there is no second leaf, or the
       \* node lies above the turn that the second leaf hangs from
       /\ \/ Len(q.w.proof.lv) = 1 /\ q.w.typ = 1      \* (a lone absence leaf must be rightmost)
          \/ Len(q.w.proof.lv) = 2 /\ m.i < Deepest({i \in 1..Len(q.w.proof.lp) : q.w.proof.lp[i].right # NOHASH})
Known_C05_skip(q, m)      == ~RequireLeftmostInner /\ m.c = "skip"
Known_C05_dup_store(q, m) == ~RejectDuplicateStore /\ m.c = "ms_dup"
Known(q, m) == Known_C05_both_children(q, m) \/ Known_C05_skip(q, m) \/ Known_C05_dup_store(q, m)

\* per query and mutation: is the modelled verifier's verdict wrong?
Judge(q, m) ==
    LET r == Verdicts(q, m)
    IN [unsound     |-> ~Known(q, m) /\ r.exp = 0 /\ r.asis = 1,
        falseReject |-> r.exp = 1 /\ r.asis = 0,
        stale       |-> Known(q, m) /\ m.c # "graft" /\ r.asis = 0]

\* no false claim and no altered witness of the queried claim is accepted
C05_Soundness == \A q \in Queries : \A m \in MutationsFor(q) : ~Judge(q, m).unsound
\* ... honest answers are accepted (including mutations that land on one)
C05_NoFalseReject == \A q \in Queries : \A m \in MutationsFor(q) : ~Judge(q, m).falseReject
\* ... and the known forgeries are real in the model of the code as it is (the list is not stale)
C05_KnownAreAccepted == \A q \in Queries : \A m \in MutationsFor(q) : ~Judge(q, m).stale
\* the three together, in one pass over the mutations (used by the case-generation runs)
C05_Verdicts ==
    \A q \in Queries : \A m \in MutationsFor(q) :
        LET j == Judge(q, m) IN ~j.unsound /\ ~j.falseReject /\ ~j.stale
=============================================================================
