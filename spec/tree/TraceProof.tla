------------------------------ MODULE TraceProof ------------------------------
(***************************************************************************)
(* Trace validation for C05 on arbitrary byte-string keys: a seeded driver *)
(* commits random histories through rootmulti.Store, queries random keys   *)
(* with prove=true at random retained versions, verifies the answers with  *)
(* the real proof runtime and verifies randomly mutated witnesses.  This   *)
(* module replays the writes with the VersionedTree specification and      *)
(* judges every logged answer and verdict:                                 *)
(*   Query  - existence with the stored value iff the key is in the        *)
(*            version, else absence showing the adjacent keys; the answer  *)
(*            verifies against that version's app hash;                    *)
(*   Tamper - an altered witness / value / root / forged claim is rejected.*)
(* The named predicates Known_C05_* exclude exactly the patterns listed in *)
(* known_findings.json (for them either verdict is accepted here; the      *)
(* check reports them as KNOWN-FINDING).                                   *)
(***************************************************************************)
EXTENDS VersionedTree, IOUtils

Trace == ndJsonDeserialize(IOEnv.TRACE_FILE)

VARIABLES l, err
tvars == <<vars, l, err>>

TraceInit == Init /\ l = 1 /\ err = <<>>

Reset ==
    /\ working' = EMPTY /\ saved' = <<>> /\ versions' = {} /\ latest' = 0
    /\ ret' = <<>> /\ hist' = hist

\* the keys an honest witness shows: the key itself, or its neighbours
Shown(t, k) ==
    IF k \in KeysOf(t) THEN <<k>>
    ELSE LET lo == {j \in KeysOf(t) : j < k}
             hi == {j \in KeysOf(t) : j > k}
         IN (IF lo = {} THEN <<>> ELSE <<CHOOSE j \in lo : \A o \in lo : o <= j>>) \o
            (IF hi = {} THEN <<>> ELSE <<CHOOSE j \in hi : \A o \in hi : j <= o>>)

\* the witness shows the key itself, or (at least) the adjacent keys, and only keys of the version
\* (when the queried key is a byte-prefix of the first key the code adds one more leaf: harmless)
ShowsEnough(t, e) ==
    LET shown == {e.leaves[i] : i \in 1..Len(e.leaves)}
        need  == {Shown(t, e.k)[i] : i \in 1..Len(Shown(t, e.k))}
    IN /\ need \subseteq shown /\ shown \subseteq KeysOf(t)
       /\ e.k \in KeysOf(t) => e.leaves = <<e.k>>

\* Known finding: the leaf after the landing leaf is looked up from cpIncr(leaf key), which
\* skips / misses keys that extend the leaf key (logged by the driver as quirk = 1)
Known_C05_incr(e) == e.quirk = 1
\* Known findings of the verifier (ProofModel.tla): unhashed right hash, duplicate store name
Known_C05_tamper(e) == e.c \in {"graft", "ms_dup"} \/ (e.c = "pin_right" /\ e.lb = 1)

QueryOK(e) ==
    LET t == saved[e.ver]
        present == e.k \in KeysOf(t)
    IN /\ e.ver \in versions
       /\ \/ Known_C05_incr(e) /\ e.kind = 0                 \* (no answer at all: the query panicked)
          \/ /\ e.kind = IF present THEN 1 ELSE 2
             /\ e.val = IF present THEN MapOf(t)[e.k] ELSE 0
             /\ Known_C05_incr(e) \/ (e.ok = 1 /\ ShowsEnough(t, e))

\* Not an alteration that matters: for a key below the first key of the store the code shows a
\* second leaf although the first (leftmost) one already proves the absence whenever the queried
\* key is a byte-prefix of the first key; dropping that superfluous leaf yields the canonical witness
SuperfluousLeaf(e) ==
    e.c = "leaf_drop" /\ e.i = 2 /\ \A j \in KeysOf(saved[e.ver]) : e.k < j

TamperOK(e) == e.ok = 0 \/ Known_C05_tamper(e) \/ SuperfluousLeaf(e)

Step(e) ==
    CASE e.op = "reset"  -> Reset
      [] e.op = "Set"    -> Set(e.k, e.v)
      [] e.op = "Remove" -> Remove(e.k)
      [] e.op = "Save"   -> SaveVersion
      [] OTHER           -> UNCHANGED vars

Agrees(e) ==
    CASE e.op = "Save"   -> e.ret = ret'
      [] e.op = "Query"  -> QueryOK(e)
      [] e.op = "Tamper" -> TamperOK(e)
      [] OTHER           -> TRUE

TraceNext ==
    /\ l <= Len(Trace)
    /\ l' = l + 1
    /\ LET e == Trace[l] IN
       IF "fail" \in DOMAIN e
         THEN /\ err' = IF err # <<>> THEN err ELSE <<l, e.op>>
              /\ UNCHANGED vars
         ELSE /\ Step(e)
              /\ err' = IF err # <<>> THEN err ELSE IF Agrees(e) THEN <<>> ELSE <<l, e.op>>

TraceSpec == TraceInit /\ [][TraceNext]_tvars

\* C05 on the real code's own answers and verdicts
C05_AnswersAndVerdicts == err = <<>>
TraceAccepted == TLCGet("stats").diameter = Len(Trace) + 1
=============================================================================
