------------------------------ MODULE TreeOps ------------------------------
(***************************************************************************)
(* The IAVL+ tree of store/iavl as pure operators: node representation,    *)
(* the copy-on-write recursive set / remove with AVL rebalancing           *)
(* (mutable_tree.go: recursiveSet, recursiveRemove, balance, rotateLeft,   *)
(* rotateRight; node.go: calcHeightAndSize, calcBalance), the read paths   *)
(* (node.go: has, get, getByIndex, traverseInRange) and the ordered-map    *)
(* model the property C03 compares them with.                              *)
(*                                                                         *)
(* Keys are positive integers (the harness maps them, order preserving, to *)
(* byte strings); values are positive integers; 0 stands for nil.          *)
(*                                                                         *)
(* A node is a tuple (tuples keep every TLC comparison well typed):        *)
(*    leaf   <<0, 1, version, key, value>>                                 *)
(*    inner  <<height, size, version, key, left, right>>                   *)
(* and the empty tree (root = nil) is <<>>.  Hashes are not part of the    *)
(* node: a node's hash is a function of the fields below (ProofOps.tla).   *)
(***************************************************************************)
EXTENDS Integers, Sequences, FiniteSets, TLC
LOCAL INSTANCE SequencesExt

EMPTY == <<>>

H(n)     == n[1]
Size(n)  == n[2]
Ver(n)   == n[3]
Key(n)   == n[4]
Val(n)   == n[5]          \* leaves only
Left(n)  == n[5]          \* inner nodes only
Right(n) == n[6]          \* inner nodes only
IsLeaf(n) == n[1] = 0

Leaf(k, v, ver)            == <<0, 1, ver, k, v>>                 \* NewNode
Mk(h, s, ver, key, l, r)   == <<h, s, ver, key, l, r>>
MaxI(a, b)                 == IF a > b THEN a ELSE b

\* node.clone(version): same fields, new version (hash reset, not persisted)
Clone(n, ver)   == Mk(H(n), Size(n), ver, Key(n), Left(n), Right(n))
WithLeft(n, l)  == Mk(H(n), Size(n), Ver(n), Key(n), l, Right(n))
WithRight(n, r) == Mk(H(n), Size(n), Ver(n), Key(n), Left(n), r)
WithKey(n, k)   == Mk(H(n), Size(n), Ver(n), k, Left(n), Right(n))

\* node.calcHeightAndSize
Calc(n) == Mk(MaxI(H(Left(n)), H(Right(n))) + 1, Size(Left(n)) + Size(Right(n)),
              Ver(n), Key(n), Left(n), Right(n))
\* node.calcBalance
Bal(n)  == H(Left(n)) - H(Right(n))

\* tree.rotateRight / rotateLeft: both the node and its promoted child are cloned at
\* the working version; heights and sizes are recomputed bottom-up.
RotateRight(n, ver) ==
    LET node    == Clone(n, ver)
        newNode == Clone(Left(node), ver)
        node2   == Calc(WithLeft(node, Right(newNode)))
    IN Calc(WithRight(newNode, node2))

RotateLeft(n, ver) ==
    LET node    == Clone(n, ver)
        newNode == Clone(Right(node), ver)
        node2   == Calc(WithRight(node, Left(newNode)))
    IN Calc(WithLeft(newNode, node2))

\* tree.balance
Balance(n, ver) ==
    IF Bal(n) > 1 THEN
        IF Bal(Left(n)) >= 0
          THEN RotateRight(n, ver)                                        \* left left
          ELSE RotateRight(WithLeft(n, RotateLeft(Left(n), ver)), ver)    \* left right
    ELSE IF Bal(n) < -1 THEN
        IF Bal(Right(n)) <= 0
          THEN RotateLeft(n, ver)                                         \* right right
          ELSE RotateLeft(WithRight(n, RotateRight(Right(n), ver)), ver)  \* right left
    ELSE n

\* tree.recursiveSet: <<new subtree, updated>>
RECURSIVE SetRec(_, _, _, _)
SetRec(n, k, v, ver) ==
    IF IsLeaf(n) THEN
        IF k < Key(n)      THEN <<Mk(1, 2, ver, Key(n), Leaf(k, v, ver), n), FALSE>>
        ELSE IF k > Key(n) THEN <<Mk(1, 2, ver, k, n, Leaf(k, v, ver)), FALSE>>
        ELSE <<Leaf(k, v, ver), TRUE>>
    ELSE
        LET c   == Clone(n, ver)
            sub == IF k < Key(n) THEN SetRec(Left(n), k, v, ver) ELSE SetRec(Right(n), k, v, ver)
            c2  == IF k < Key(n) THEN WithLeft(c, sub[1]) ELSE WithRight(c, sub[1])
        IN IF sub[2] THEN <<c2, TRUE>>                       \* value replaced: shape unchanged
           ELSE <<Balance(Calc(c2), ver), FALSE>>

\* MutableTree.Set on a tree whose saved version is ver-1: [tree, updated]
TreeSet(t, k, v, ver) ==
    IF t = EMPTY THEN [tree |-> Leaf(k, v, ver), updated |-> FALSE]
    ELSE LET r == SetRec(t, k, v, ver) IN [tree |-> r[1], updated |-> r[2]]

\* tree.recursiveRemove.  found = the key was in this subtree (the code tests
\* len(orphans) > 0); node = what replaces the subtree (EMPTY: the subtree was the
\* removed leaf); nk = new leftmost key of the subtree if it changed (0 = nil).
RECURSIVE RemRec(_, _, _)
RemRec(n, k, ver) ==
    IF IsLeaf(n) THEN
        IF k = Key(n) THEN [found |-> TRUE,  node |-> EMPTY, nk |-> 0, val |-> Val(n)]
                      ELSE [found |-> FALSE, node |-> n,     nk |-> 0, val |-> 0]
    ELSE IF k < Key(n) THEN
        LET s == RemRec(Left(n), k, ver) IN
        IF ~s.found THEN [found |-> FALSE, node |-> n, nk |-> 0, val |-> 0]
        ELSE IF s.node = EMPTY       \* left child was the leaf: the right child takes our place
             THEN [found |-> TRUE, node |-> Right(n), nk |-> Key(n), val |-> s.val]
        ELSE [found |-> TRUE, node |-> Balance(Calc(WithLeft(Clone(n, ver), s.node)), ver),
              nk |-> s.nk, val |-> s.val]
    ELSE
        LET s == RemRec(Right(n), k, ver) IN
        IF ~s.found THEN [found |-> FALSE, node |-> n, nk |-> 0, val |-> 0]
        ELSE IF s.node = EMPTY       \* right child was the leaf: the left child takes our place
             THEN [found |-> TRUE, node |-> Left(n), nk |-> 0, val |-> s.val]
        ELSE LET c  == WithRight(Clone(n, ver), s.node)
                 c2 == IF s.nk # 0 THEN WithKey(c, s.nk) ELSE c   \* our key was the removed leftmost key
             IN [found |-> TRUE, node |-> Balance(Calc(c2), ver), nk |-> 0, val |-> s.val]

\* MutableTree.Remove: [tree, removed, val]
TreeRemove(t, k, ver) ==
    IF t = EMPTY THEN [tree |-> t, removed |-> FALSE, val |-> 0]
    ELSE LET s == RemRec(t, k, ver) IN
         IF s.found THEN [tree |-> s.node, removed |-> TRUE, val |-> s.val]
                    ELSE [tree |-> t, removed |-> FALSE, val |-> 0]

-----------------------------------------------------------------------------
\* Read paths as the code has them (they rely on inner keys, sizes and heights).

\* node.has -- note that it answers TRUE on an inner node whose key matches
RECURSIVE NodeHas(_, _)
NodeHas(n, k) ==
    IF Key(n) = k THEN TRUE
    ELSE IF IsLeaf(n) THEN FALSE
    ELSE IF k < Key(n) THEN NodeHas(Left(n), k) ELSE NodeHas(Right(n), k)
TreeHas(t, k) == IF t = EMPTY THEN FALSE ELSE NodeHas(t, k)

\* node.get: <<index, value>>; absent: <<index the key would have, 0>>
RECURSIVE NodeGet(_, _)
NodeGet(n, k) ==
    IF IsLeaf(n) THEN
        IF Key(n) < k THEN <<1, 0>> ELSE IF Key(n) > k THEN <<0, 0>> ELSE <<0, Val(n)>>
    ELSE IF k < Key(n) THEN NodeGet(Left(n), k)
    ELSE LET r == NodeGet(Right(n), k) IN <<r[1] + Size(n) - Size(Right(n)), r[2]>>
TreeGet(t, k) == IF t = EMPTY THEN <<0, 0>> ELSE NodeGet(t, k)

\* node.getByIndex: <<key, value>> or <<0, 0>> (nil, nil)
RECURSIVE NodeByIndex(_, _)
NodeByIndex(n, i) ==
    IF IsLeaf(n) THEN IF i = 0 THEN <<Key(n), Val(n)>> ELSE <<0, 0>>
    ELSE IF i < Size(Left(n)) THEN NodeByIndex(Left(n), i)
    ELSE NodeByIndex(Right(n), i - Size(Left(n)))
TreeByIndex(t, i) == IF t = EMPTY THEN <<0, 0>> ELSE NodeByIndex(t, i)

\* node.traverseInRange restricted to leaves (IterateRange / IterateRangeInclusive):
\* lo = 0 is a nil start, hi = 0 a nil end.  Flat result <<k1, v1, k2, v2, ...>>.
RECURSIVE NodeRange(_, _, _, _, _)
NodeRange(n, lo, hi, asc, incl) ==
    LET afterStart   == lo = 0 \/ lo < Key(n)
        startOrAfter == lo = 0 \/ lo <= Key(n)
        beforeEnd    == hi = 0 \/ (IF incl THEN Key(n) <= hi ELSE Key(n) < hi)
    IN IF IsLeaf(n) THEN (IF startOrAfter /\ beforeEnd THEN <<Key(n), Val(n)>> ELSE <<>>)
       ELSE LET l == IF afterStart THEN NodeRange(Left(n), lo, hi, asc, incl) ELSE <<>>
                r == IF beforeEnd THEN NodeRange(Right(n), lo, hi, asc, incl) ELSE <<>>
            IN IF asc THEN l \o r ELSE r \o l
TreeRange(t, lo, hi, asc, incl) == IF t = EMPTY THEN <<>> ELSE NodeRange(t, lo, hi, asc, incl)

-----------------------------------------------------------------------------
\* The ordered-map model (what C03 says the tree must be).

\* the tree as a finite function key -> value (the empty tree is the empty function)
RECURSIVE MapOfNode(_)
MapOfNode(n) == IF IsLeaf(n) THEN (Key(n) :> Val(n)) ELSE MapOfNode(Left(n)) @@ MapOfNode(Right(n))
MapOf(t)  == IF t = EMPTY THEN <<>> ELSE MapOfNode(t)
KeysOf(t) == DOMAIN MapOf(t)

MapHas(m, k)  == k \in DOMAIN m
\* <<index, value>>: index = number of smaller keys; value 0 = absent
MapGet(m, k)  == <<Cardinality({j \in DOMAIN m : j < k}), IF k \in DOMAIN m THEN m[k] ELSE 0>>
\* the i-th smallest key (0-based) with its value, <<0, 0>> when out of range
MapByIndex(m, i) ==
    LET ord == SetToSortSeq(DOMAIN m, LAMBDA a, b : a < b)
    IN IF i >= 0 /\ i < Len(ord) THEN <<ord[i + 1], m[ord[i + 1]]>> ELSE <<0, 0>>
InRange(k, lo, hi, incl) == (lo = 0 \/ lo <= k) /\ (hi = 0 \/ (IF incl THEN k <= hi ELSE k < hi))
\* flat <<k1, v1, k2, v2, ...>> of the keys in range, ascending or descending
MapRange(m, lo, hi, asc, incl) ==
    LET ord == SetToSortSeq({k \in DOMAIN m : InRange(k, lo, hi, incl)},
                            LAMBDA a, b : IF asc THEN a < b ELSE a > b)
    IN [i \in 1..(2 * Len(ord)) |-> IF i % 2 = 1 THEN ord[(i + 1) \div 2] ELSE m[ord[i \div 2]]]

-----------------------------------------------------------------------------
\* Structural well-formedness ("height-balanced with correct subtree sizes").

RECURSIVE TrueHeight(_)
TrueHeight(t) == IF IsLeaf(t) THEN 0 ELSE MaxI(TrueHeight(Left(t)), TrueHeight(Right(t))) + 1
RECURSIVE LeafCount(_)
LeafCount(t) == IF IsLeaf(t) THEN 1 ELSE LeafCount(Left(t)) + LeafCount(Right(t))
RECURSIVE MinKey(_)
MinKey(t) == IF IsLeaf(t) THEN Key(t) ELSE MinKey(Left(t))
RECURSIVE MaxKey(_)
MaxKey(t) == IF IsLeaf(t) THEN Key(t) ELSE MaxKey(Right(t))

RECURSIVE NodeOK(_)
NodeOK(t) ==
    IF IsLeaf(t) THEN Size(t) = 1 /\ Val(t) # 0
    ELSE /\ NodeOK(Left(t)) /\ NodeOK(Right(t))
         /\ H(t) = TrueHeight(t)                           \* stored height is the real height
         /\ Size(t) = LeafCount(t)                         \* stored size is the number of leaves
         /\ Bal(t) \in {-1, 0, 1}                          \* AVL balance
         /\ MaxKey(Left(t)) < Key(t)                       \* search-tree order ...
         /\ Key(t) = MinKey(Right(t))                      \* ... inner key = least key on the right
WellFormed(t) == t = EMPTY \/ NodeOK(t)

\* versions stamped on nodes never exceed the version being built
RECURSIVE MaxVer(_)
MaxVer(t) == IF t = EMPTY THEN 0 ELSE IF IsLeaf(t) THEN Ver(t)
             ELSE MaxI(Ver(t), MaxI(MaxVer(Left(t)), MaxVer(Right(t))))
=============================================================================
