------------------------------ MODULE ProofOps ------------------------------
(***************************************************************************)
(* Existence / absence proofs of the IAVL store and the multistore proof   *)
(* operator, with IDEAL hashing (C05).                                     *)
(*                                                                         *)
(*   store/iavl/proof.go          ProofInnerNode.Hash, ProofLeafNode.Hash, *)
(*                                 PathToLeaf                               *)
(*   store/iavl/proof_range.go    getRangeProof (as used by GetWithProof), *)
(*                                 _computeRootHash, VerifyItem,            *)
(*                                 VerifyAbsence                            *)
(*   store/iavl/proof_iavl_*.go   ValueOp.Run, AbsenceOp.Run               *)
(*   store/rootmulti/proof.go     MultiStoreProofOp.Run, CommitInfo.Hash   *)
(*   tendermint crypto/merkle     ProofOperators.Verify (key path)         *)
(*                                                                         *)
(* A hash is a sequence of integers that spells out what was hashed, with  *)
(* length prefixes, so two hashes are equal iff their pre-images are equal *)
(* (collision resistance is assumed, not checked).  JUNK is a hash with no *)
(* known pre-image.  <<>> is the empty / nil hash.                         *)
(*                                                                         *)
(* The verifier below is a transcription of the code.  Three checks that   *)
(* the code does NOT make are guarded by constants; with all three FALSE   *)
(* the model is the code as it is:                                         *)
(*   RejectBothChildren   an inner proof node carrying both a left and a   *)
(*                        right hash is invalid (the code hashes only the  *)
(*                        left one and still follows the right one)        *)
(*   RequireLeftmostInner the path from a right sibling down to the next   *)
(*                        leaf must only go left (the code accepts any)    *)
(*   RejectDuplicateStore a multistore proof naming a store twice is       *)
(*                        invalid (the code hashes the last entry and      *)
(*                        checks the first one)                            *)
(*                                                                         *)
(* Abstraction: keys are integers.  The code computes "the key just after  *)
(* k" as cpIncr(k) (big-endian increment of the byte string); the model    *)
(* treats it as the position immediately after k, which is exact when no   *)
(* key of the store lies strictly between k and cpIncr(k), i.e. for key    *)
(* universes in which no key extends another (see checks/tree.py).         *)
(***************************************************************************)
EXTENDS TreeOps
LOCAL INSTANCE SequencesExt

CONSTANTS RejectBothChildren, RequireLeftmostInner, RejectDuplicateStore

SetAsSeq(S) == SetToSeq(S)      \* (SequencesExt is instantiated locally: its names clash downstream)

JUNK == <<-1>>
NOHASH == <<>>

\* ---- ideal hashes ---------------------------------------------------------------
VH(v) == v                                   \* tmhash.Sum(value): ideal, injective
LeafHash(k, vh, ver)          == <<0, 1, ver, k, vh>>                \* ProofLeafNode.Hash = leaf Node hash
InnerHash(h, s, ver, lh, rh)  == <<h, s, ver, Len(lh)>> \o lh \o <<Len(rh)>> \o rh
RECURSIVE NodeHash(_)
NodeHash(n) == IF IsLeaf(n) THEN LeafHash(Key(n), VH(Val(n)), Ver(n))
               ELSE InnerHash(H(n), Size(n), Ver(n), NodeHash(Left(n)), NodeHash(Right(n)))
RootHash(t) == IF t = EMPTY THEN NOHASH ELSE NodeHash(t)     \* the hash of an empty tree is nil

\* ---- proof data -----------------------------------------------------------------
\* ProofInnerNode: exactly one of left / right is set in an honest proof (the other
\* child is the one the path continues into)
Pin(n, goLeft) == [h |-> H(n), s |-> Size(n), ver |-> Ver(n),
                   left  |-> IF goLeft THEN NOHASH ELSE NodeHash(Left(n)),
                   right |-> IF goLeft THEN NodeHash(Right(n)) ELSE NOHASH]
PLeaf(n) == [key |-> Key(n), vh |-> VH(Val(n)), ver |-> Ver(n)]

\* RangeProof: lp = LeftPath (root first), inn = InnerNodes, lv = Leaves; nil = no proof (empty tree)
NilProof == [nil |-> TRUE, lp |-> <<>>, inn |-> <<>>, lv |-> <<>>]

\* node.pathToLeaf: the leaf where a lookup of k ends (k itself, else its predecessor,
\* else the first leaf) with the path to it
RECURSIVE PTL(_, _)
PTL(n, k) ==
    IF IsLeaf(n) THEN [path |-> <<>>, leaf |-> n]
    ELSE IF k < Key(n)
         THEN LET s == PTL(Left(n), k)  IN [path |-> <<Pin(n, TRUE)>>  \o s.path, leaf |-> s.leaf]
         ELSE LET s == PTL(Right(n), k) IN [path |-> <<Pin(n, FALSE)>> \o s.path, leaf |-> s.leaf]

\* the subtree a path leads to after its first j steps
RECURSIVE Descend(_, _, _)
Descend(n, path, j) ==
    IF j = 0 THEN n
    ELSE Descend(IF path[1].left = NOHASH THEN Left(n) ELSE Right(n), Tail(path), j - 1)

RECURSIVE LeftmostPath(_)
LeftmostPath(n) == IF IsLeaf(n) THEN <<>> ELSE <<Pin(n, TRUE)>> \o LeftmostPath(Left(n))
RECURSIVE LeftmostLeaf(_)
LeftmostLeaf(n) == IF IsLeaf(n) THEN n ELSE LeftmostLeaf(Left(n))

\* ImmutableTree.GetWithProof(k) = getRangeProof(k, cpIncr(k), limit 2): the leaf the
\* lookup ends in; if that leaf is smaller than k also the next leaf (the leftmost
\* leaf of the right sibling of the deepest left turn) with the path from that
\* sibling down to it.
GetWithProof(t, k) ==
    IF t = EMPTY THEN NilProof
    ELSE LET pl    == PTL(t, k)
             turns == {i \in 1..Len(pl.path) : pl.path[i].right # NOHASH}
         IN IF Key(pl.leaf) >= k \/ turns = {}
              THEN [nil |-> FALSE, lp |-> pl.path, inn |-> <<>>, lv |-> <<PLeaf(pl.leaf)>>]
              ELSE LET d == CHOOSE i \in turns : \A j \in turns : j <= i
                       r == Right(Descend(t, pl.path, d - 1))
                   IN [nil |-> FALSE, lp |-> pl.path, inn |-> <<LeftmostPath(r)>>,
                       lv |-> <<PLeaf(pl.leaf), PLeaf(LeftmostLeaf(r))>>]

\* ---- verification (transcribed) ---------------------------------------------------
\* ProofInnerNode.Hash(childHash): the child goes where the empty side is; if both
\* sides are set the right one is silently ignored
PinHash(pin, child) ==
    IF pin.left = NOHASH THEN InnerHash(pin.h, pin.s, pin.ver, child, pin.right)
                         ELSE InnerHash(pin.h, pin.s, pin.ver, pin.left, child)
\* PathToLeaf.computeRootHash(leafHash): from the leaf-most node up
RECURSIVE PathHash(_, _)
PathHash(path, hash) ==
    IF path = <<>> THEN hash
    ELSE PathHash(SubSeq(path, 1, Len(path) - 1), PinHash(path[Len(path)], hash))
IsLeftmost(path)  == \A i \in 1..Len(path) : path[i].left = NOHASH
IsRightmost(path) == \A i \in 1..Len(path) : path[i].right = NOHASH
PathWellFormed(path) ==
    RejectBothChildren => \A i \in 1..Len(path) : path[i].left = NOHASH \/ path[i].right = NOHASH

Fail == [ok |-> FALSE, hash |-> NOHASH, treeEnd |-> FALSE, done |-> FALSE, lv |-> <<>>, inn |-> <<>>]

\* _computeRootHash's COMPUTEHASH closure; lv / inn are the not yet consumed leaves / inner paths
RECURSIVE ComputeHash(_, _, _, _), WalkUp(_, _, _, _, _)
ComputeHash(path, rightmost, lv, inn) ==
    LET hash == PathHash(path, LeafHash(lv[1].key, lv[1].vh, lv[1].ver))
        rest == Tail(lv)
    IN IF ~PathWellFormed(path) THEN Fail
       ELSE IF rest = <<>>
         THEN [ok |-> TRUE, hash |-> hash, treeEnd |-> rightmost /\ IsRightmost(path), done |-> TRUE,
               lv |-> rest, inn |-> inn]
         ELSE WalkUp(path, hash, rightmost, rest, inn)
\* the loop "for len(path) > 0": drop the leaf-most node; one with a right hash must
\* be matched by the next inner path + leaves
WalkUp(path, hash, rightmost, lv, inn) ==
    IF path = <<>> THEN [ok |-> TRUE, hash |-> hash, treeEnd |-> FALSE, done |-> FALSE, lv |-> lv, inn |-> inn]
    ELSE LET rpath == SubSeq(path, 1, Len(path) - 1)
             lpath == path[Len(path)]
         IN IF lpath.right = NOHASH THEN WalkUp(rpath, hash, rightmost, lv, inn)
            ELSE IF inn = <<>> THEN Fail             \* (the code indexes an empty slice: panic)
            ELSE IF RequireLeftmostInner /\ ~IsLeftmost(inn[1]) THEN Fail
            ELSE LET r == ComputeHash(inn[1], rightmost /\ IsRightmost(rpath), lv, Tail(inn))
                 IN IF ~r.ok \/ r.hash # lpath.right THEN Fail
                    ELSE IF r.done THEN [ok |-> TRUE, hash |-> hash, treeEnd |-> r.treeEnd, done |-> TRUE,
                                         lv |-> r.lv, inn |-> r.inn]
                    ELSE WalkUp(rpath, hash, rightmost, r.lv, r.inn)

\* RangeProof._computeRootHash: [ok, hash, treeEnd]
ComputeRoot(p) ==
    IF p.lv = <<>> \/ Len(p.inn) + 1 # Len(p.lv) THEN Fail
    ELSE LET r == ComputeHash(p.lp, TRUE, p.lv, p.inn)
         IN IF r.ok /\ r.done THEN r ELSE Fail       \* not done: "left over leaves"

\* sort.Search(n, f): the binary search the code uses to find a leaf by key
RECURSIVE BinSearch(_, _, _, _)
BinSearch(lv, key, i, j) ==
    IF i >= j THEN i
    ELSE LET h == (i + j) \div 2
         IN IF ~(key <= lv[h + 1].key) THEN BinSearch(lv, key, h + 1, j) ELSE BinSearch(lv, key, i, h)

\* RangeProof.VerifyItem (after Verify(root) succeeded)
VerifyItem(p, key, val) ==
    LET i == BinSearch(p.lv, key, 0, Len(p.lv))
    IN i < Len(p.lv) /\ p.lv[i + 1].key = key /\ p.lv[i + 1].vh = VH(val)

\* RangeProof.VerifyAbsence (after Verify(root) succeeded)
VerifyAbsence(p, key, treeEnd) ==
    IF key < p.lv[1].key THEN IsLeftmost(p.lp)
    ELSE IF key = p.lv[1].key THEN FALSE
    ELSE IF p.lp = <<>> \/ IsRightmost(p.lp) THEN TRUE
    ELSE LET later == {i \in 2..Len(p.lv) : key <= p.lv[i].key}
         IN IF later # {}
              THEN LET i == CHOOSE i \in later : \A j \in later : i <= j IN key < p.lv[i].key
              ELSE treeEnd

\* ValueOp.Run / AbsenceOp.Run: [ok, root]
RunValueOp(p, key, val) ==
    IF p.nil THEN [ok |-> FALSE, root |-> NOHASH]                 \* Verify on a nil proof fails
    ELSE LET r == ComputeRoot(p) IN [ok |-> r.ok /\ VerifyItem(p, key, val), root |-> r.hash]
RunAbsenceOp(p, key) ==
    IF p.nil THEN [ok |-> TRUE, root |-> NOHASH]                  \* empty tree: everything is absent
    ELSE LET r == ComputeRoot(p) IN [ok |-> r.ok /\ VerifyAbsence(p, key, r.treeEnd), root |-> r.hash]

\* ---- multistore -------------------------------------------------------------------
\* StoreInfo: [name, hash, ver]; CommitInfo.Hash = SimpleHashFromMap(name -> Hash(commit hash)):
\* a later entry with the same name replaces an earlier one; the store version is not hashed.
StoreMap(infos) == [n \in {infos[i].name : i \in 1..Len(infos)} |->
                       infos[CHOOSE i \in 1..Len(infos) : infos[i].name = n /\
                                 \A j \in 1..Len(infos) : infos[j].name = n => j <= i].hash]
RECURSIVE MapHash(_, _)
MapHash(m, S) ==
    IF S = {} THEN <<>>
    ELSE LET n == CHOOSE n \in S : \A o \in S : n <= o
         IN <<n, Len(m[n])>> \o m[n] \o MapHash(m, S \ {n})
AppHash(infos) == LET m == StoreMap(infos) IN <<-2>> \o MapHash(m, DOMAIN m)

\* MultiStoreProofOp.Run(value): the FIRST entry named like the op key must carry the value
RunMultiStoreOp(mskey, infos, value) ==
    LET named == {i \in 1..Len(infos) : infos[i].name = mskey}
    IN IF named = {} THEN [ok |-> FALSE, root |-> NOHASH]
       ELSE IF RejectDuplicateStore /\
               \E i, j \in 1..Len(infos) : i # j /\ infos[i].name = infos[j].name
            THEN [ok |-> FALSE, root |-> NOHASH]
       ELSE LET i == CHOOSE i \in named : \A j \in named : i <= j
            IN [ok |-> infos[i].hash = value, root |-> AppHash(infos)]

\* ---- the whole check: ProofRuntime.Verify over [iavl op, multistore op] -------------
\* witness w  = [typ (1 = iavl:v, 2 = iavl:a), opkey, proof, mskey, infos]
\* claim   c  = [store, key, kind (1 = "key has value val", 2 = "key is absent"), val, root]
Verify(w, c) ==
    /\ w.opkey = c.key                                          \* key path, last element
    /\ LET r1 == IF w.typ = 1
                   THEN (IF c.kind = 1 THEN RunValueOp(w.proof, w.opkey, c.val)
                                       ELSE [ok |-> FALSE, root |-> NOHASH])    \* "value size is not 1"
                   ELSE (IF c.kind = 2 THEN RunAbsenceOp(w.proof, w.opkey)
                                       ELSE [ok |-> FALSE, root |-> NOHASH])    \* "expected 0 args"
       IN /\ r1.ok
          /\ w.mskey = c.store                                  \* key path, first element
          /\ LET r2 == RunMultiStoreOp(w.mskey, w.infos, r1.root)
             IN r2.ok /\ r2.root = c.root

\* ---- what an honest node answers (iavl Store.Query + rootmulti Store.Query) ----------
HonestWitness(t, store, infos, k) ==
    [typ |-> IF k \in KeysOf(t) THEN 1 ELSE 2, opkey |-> k, proof |-> GetWithProof(t, k),
     mskey |-> store, infos |-> infos]
TrueClaim(t, store, root, k) ==
    [store |-> store, key |-> k, kind |-> IF k \in KeysOf(t) THEN 1 ELSE 2,
     val |-> IF k \in KeysOf(t) THEN MapOf(t)[k] ELSE 0, root |-> root]

\* neighbours named by an absence witness: <<largest key below k or 0, smallest key above k or 0>>
Neighbours(t, k) ==
    LET lo == {j \in KeysOf(t) : j < k}
        hi == {j \in KeysOf(t) : j > k}
    IN <<IF lo = {} THEN 0 ELSE CHOOSE j \in lo : \A o \in lo : o <= j,
         IF hi = {} THEN 0 ELSE CHOOSE j \in hi : \A o \in hi : j <= o>>
=============================================================================
