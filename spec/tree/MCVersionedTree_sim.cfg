\* random deep histories: 8 keys, 2 values, up to 6 versions, depth 60, the expected state in every entry
CONSTANTS NK = 8  NV = 2  MaxVersion = 6  WithDelete = TRUE  WithOverwrite = TRUE
          RecordHist = TRUE  KeepStates = TRUE  SimDepth = 60  CoverDepth = 0  ObsCover = TRUE  RangeCover = TRUE
INIT Init
NEXT Next
INVARIANTS TypeOK C03_VersionsConsistent C03_WellFormed C03_NodeVersions EmitSim
CONSTRAINT HistBound
CHECK_DEADLOCK FALSE
