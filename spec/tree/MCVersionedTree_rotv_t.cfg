\* thorough: working tree + one saved version over 3 keys, 2 values: every observer instance
\* (all range bounds) also on the saved version, value replacement, rollback / reload
CONSTANTS NK = 3  NV = 2  MaxVersion = 1  WithDelete = FALSE  WithOverwrite = FALSE
          RecordHist = TRUE  KeepStates = FALSE  SimDepth = 0  CoverDepth = 100  ObsCover = TRUE  RangeCover = TRUE
INIT Init
NEXT NextCover
VIEW view
CONSTRAINT CoverBound
INVARIANTS TypeOK C03_VersionsConsistent C03_WellFormed C03_NodeVersions C03_ReadPathsAreTheMap
PROPERTIES C03_MutationsAreTheMap C03_SavedVersionsImmutable
