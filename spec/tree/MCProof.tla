------------------------------ MODULE MCProof ------------------------------
(* Model-checking / case-generation instance of ProofModel (C05).          *)
EXTENDS ProofModel
CONSTANTS CoverDepth

\* Case generation: TLC expands every distinct (working tree, latest version, latest saved
\* tree) once and prints every outgoing transition; a Prove transition carries all
\* mutation cases of one query.
ProofCover == ProofNext /\ PrintT(ToJson(hist'))
pview      == <<working, latest, IF latest > 0 THEN saved[latest] ELSE EMPTY>>
CoverBound == Len(hist) <= CoverDepth

\* development aid: name the offending cases instead of just failing
Unsound == UNION {{<<v, k, m>> : m \in {m \in Mutations(v, k) :
                 ~Neutral(m) /\ ~Known(v, k, m) /\ Accepts(v, k, m) /\ Demands(v, k, m) = 0}} : <<v, k>> \in versions \X KeyS}
FalseReject == UNION {{<<v, k, m>> : m \in {m \in Mutations(v, k) :
                 ~Neutral(m) /\ Demands(v, k, m) = 1 /\ ~Accepts(v, k, m)}} : <<v, k>> \in versions \X KeyS}
DbgSound == Unsound = {} \/ Assert(FALSE, <<"unsound", Unsound>>)
DbgReject == FalseReject = {} \/ Assert(FALSE, <<"false reject", FalseReject>>)
=============================================================================
