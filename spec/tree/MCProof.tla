------------------------------ MODULE MCProof ------------------------------
(* Model-checking / case-generation instance of ProofModel (C05).          *)
EXTENDS ProofModel
CONSTANTS CoverDepth

\* Case generation: TLC expands every distinct (working tree, latest version) once -- the view
\* drops the older saved trees, which is a coverage choice, not a soundness one -- and prints
\* every outgoing transition; a Prove transition carries all mutation cases of one query.
ProofCover == ProofNext /\ PrintT(ToJson(hist'))
wview == <<working, latest>>
CoverBound == Len(hist) <= CoverDepth

\* development aid: name the offending cases instead of just failing
DbgVerdicts ==
    \A q \in Queries : \A m \in MutationsFor(q) :
        LET j == Judge(q, m) IN (~j.unsound /\ ~j.falseReject /\ ~j.stale) \/ Assert(FALSE, <<"wrong verdict", q.v, q.k, m, j>>)
=============================================================================
