CONSTANTS NK = 100000  NV = 3  MaxVersion = 100000  WithDelete = TRUE  WithOverwrite = FALSE
          RecordHist = FALSE  KeepStates = FALSE
INIT TraceInit
NEXT TraceNext
INVARIANTS C03_ObservationsMatch
POSTCONDITION TraceAccepted
CHECK_DEADLOCK FALSE
