------------------------------ MODULE TraceTree ------------------------------
(***************************************************************************)
(* Trace validation for C03: every event recorded from a real              *)
(* iavl.MutableTree (random driver, large key universes, real byte-string  *)
(* keys mapped to their rank) is re-executed by the VersionedTree          *)
(* specification's own actions; the logged result must be the result the   *)
(* specification computes from its ordered-map model, and the logged real  *)
(* node structure must be the structure TreeOps builds.  Traces are        *)
(* concatenated; a "reset" event starts a fresh tree.                      *)
(***************************************************************************)
EXTENDS VersionedTree, IOUtils

Trace == ndJsonDeserialize(IOEnv.TRACE_FILE)

VARIABLES l,      \* next line to consume
          err     \* <<line, op>> of the first disagreement, or <<>>

tvars == <<vars, l, err>>

TraceInit == Init /\ l = 1 /\ err = <<>>

Reset ==
    /\ working' = EMPTY /\ saved' = <<>> /\ versions' = {} /\ latest' = 0
    /\ ret' = <<>> /\ hist' = hist

\* pre-order shape <<depth, key (0 for inner nodes), ...>> as the harness reads it
\* through ImmutableTree.RenderShape
RECURSIVE PreShape(_, _)
PreShape(t, d) ==
    IF t = EMPTY THEN <<>>
    ELSE IF IsLeaf(t) THEN <<d, Key(t)>>
    ELSE <<d, 0>> \o PreShape(Left(t), d + 1) \o PreShape(Right(t), d + 1)

Prefix(s, n) == IF Len(s) <= n THEN s ELSE SubSeq(s, 1, n)

\* a full dump of one tree: contents, real shape, root height / size, and for saved
\* versions the persisted nodes read back from the database
DumpOK(e) ==
    LET t == Tree(e.t) IN
    /\ e.ret = MapRange(MapOf(t), 0, 0, TRUE, FALSE)
    /\ e.shape = PreShape(t, 0)
    /\ e.height = IF t = EMPTY THEN <<0, 0, 0>> ELSE <<TrueHeight(t), H(t), Size(t)>>
    /\ "nodes" \in DOMAIN e => e.nodes = t
    /\ WellFormed(t)

Step(e) ==
    CASE e.op = "reset"    -> Reset
      [] e.op = "Set"      -> Set(e.k, e.v)
      [] e.op = "Remove"   -> Remove(e.k)
      [] e.op = "Save"     -> SaveVersion
      [] e.op = "Delete"   -> DeleteVersion(e.ver)
      [] e.op = "Rollback" -> Rollback
      [] e.op = "Reload"   -> Reload
      [] e.op = "Get"      -> Get(e.t, e.k)
      [] e.op = "Has"      -> Has(e.t, e.k)
      [] e.op = "ByIndex"  -> ByIndex(e.t, e.i)
      [] e.op = "Range"    -> Range(e.t, e.lo, e.hi, e.asc, e.incl)
      [] e.op = "Versions" -> Observe([v \in 1..e.n |-> B(v \in versions)]) /\ hist' = hist
      [] e.op = "Dump"     -> e.t \in Trees /\ Observe(<<>>) /\ hist' = hist

\* does the logged result agree with the specification's?
Agrees(e) ==
    CASE e.op \in {"reset", "Rollback"} -> TRUE
      [] e.op = "Range" -> e.ret = Prefix(ret', 2 * e.lim)
      [] e.op = "Dump"  -> DumpOK(e)
      [] OTHER          -> e.ret = ret'

TraceNext ==
    /\ l <= Len(Trace)
    /\ l' = l + 1
    /\ LET e == Trace[l] IN
       IF "fail" \in DOMAIN e
         THEN \* the real tree panicked, or its own observers contradicted each other / it is unbalanced
              /\ err' = IF err # <<>> THEN err ELSE <<l, e.op>>
              /\ UNCHANGED vars
         ELSE /\ Step(e)
              /\ err' = IF err # <<>> THEN err ELSE IF Agrees(e) THEN <<>> ELSE <<l, e.op>>

TraceSpec == TraceInit /\ [][TraceNext]_tvars

\* C03: every observation of the real tree (working and saved versions) equals the ordered-map
\* model's, and every dumped real node structure is the balanced tree of the specification
C03_ObservationsMatch == err = <<>>
\* the whole file was consumed (a disabled step = the driver did something the
\* specification does not allow, or the specification cannot explain the event)
TraceAccepted == TLCGet("stats").diameter = Len(Trace) + 1
=============================================================================
