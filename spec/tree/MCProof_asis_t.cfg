\* thorough: the verifier as the code is: sound and complete except for the named known forgeries
CONSTANTS NK = 5  NV = 1  MaxVersion = 3  WithDelete = FALSE  WithOverwrite = FALSE
          RecordHist = TRUE  KeepStates = FALSE  CoverDepth = 100
          RejectBothChildren = FALSE  RequireLeftmostInner = FALSE  RejectDuplicateStore = FALSE
INIT Init
NEXT ProofCover
VIEW wview
CONSTRAINT CoverBound
INVARIANTS C05_Completeness C05_Verdicts
