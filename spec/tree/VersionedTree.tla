--------------------------- MODULE VersionedTree ---------------------------
(***************************************************************************)
(* store/iavl MutableTree: a working tree plus immutable saved versions.   *)
(*                                                                         *)
(*   working   the working tree (MutableTree.ImmutableTree.root)           *)
(*   saved     saved[v] = the tree saved as version v (its root record     *)
(*             r<v> in the node database); EMPTY once deleted              *)
(*   versions  the retained versions (MutableTree.versions)                *)
(*   latest    MutableTree.version: the version the working tree is based  *)
(*             on; nodes created by the next mutation carry latest + 1     *)
(*                                                                         *)
(* One action per API call; the tree algorithms are TreeOps' operators,    *)
(* which transcribe the code.  The expected results of the observers are   *)
(* computed from the ORDERED-MAP model of the tree (MapOf), which is what  *)
(* C03 states; the invariant C03_ReadPathsAreTheMap shows on the design    *)
(* level that the code's read paths (which rely on inner keys, sizes,      *)
(* heights) compute the same on every reachable tree.                      *)
(*                                                                         *)
(* Trees are addressed by t: 0 = working tree, v > 0 = GetImmutable(v).    *)
(***************************************************************************)
EXTENDS TreeOps, TLC, Json

CONSTANTS NK,            \* keys 1..NK
          NV,            \* values 1..NV
          MaxVersion,    \* bound on SaveVersion
          WithDelete,    \* enable DeleteVersion
          WithOverwrite, \* enable LoadVersionForOverwriting
          RecordHist,    \* keep the history (behaviour generation)
          KeepStates     \* keep the expected state in every history entry (else only the last)

VARIABLES working, saved, versions, latest, ret, hist

vars == <<working, saved, versions, latest, ret, hist>>
view == <<working, saved, versions, latest>>

KeyS == 1..NK
ValS == 1..NV

Tree(t) == IF t = 0 THEN working ELSE saved[t]
Trees   == {0} \cup versions
B(b)    == IF b THEN 1 ELSE 0

\* expected abstract state carried to the harness: the working tree, the retained
\* saved trees (nested node tuples, exactly the shape the real tree must have)
StateRec(w, s, vs, l) == [w |-> w, s |-> s, vs |-> vs, latest |-> l]

\* history: only the newest entry carries the expected state unless KeepStates
Strip(h) == IF KeepStates \/ h = <<>> THEN h
            ELSE [h EXCEPT ![Len(h)] = [f \in (DOMAIN @) \ {"st"} |-> @[f]]]
Rec(r)   == IF RecordHist THEN Append(Strip(hist), r) ELSE hist

-----------------------------------------------------------------------------
Init ==
    /\ working = EMPTY /\ saved = <<>> /\ versions = {} /\ latest = 0
    /\ ret = <<>> /\ hist = <<>>

\* ---- mutations of the working tree -------------------------------------------
SetCore(k, v) ==
    /\ working' = TreeSet(working, k, v, latest + 1).tree
    /\ UNCHANGED <<saved, versions, latest>>
Set(k, v) ==
    /\ SetCore(k, v)
    /\ ret' = <<B(TreeSet(working, k, v, latest + 1).updated)>>
    /\ hist' = Rec([op |-> "Set", k |-> k, v |-> v, ret |-> ret',
                    st |-> StateRec(working', saved, versions, latest)])

RemoveCore(k) ==
    /\ working' = TreeRemove(working, k, latest + 1).tree
    /\ UNCHANGED <<saved, versions, latest>>
Remove(k) ==
    /\ RemoveCore(k)
    /\ LET r == TreeRemove(working, k, latest + 1) IN ret' = <<B(r.removed), r.val>>
    /\ hist' = Rec([op |-> "Remove", k |-> k, ret |-> ret',
                    st |-> StateRec(working', saved, versions, latest)])

\* ---- versions ----------------------------------------------------------------
\* SaveVersion: the working tree (possibly empty) becomes version latest + 1.
SaveCore ==
    /\ latest < MaxVersion
    /\ (latest + 1) \notin versions        \* (re-saving an existing version is not modelled)
    /\ saved' = Append(saved, working)
    /\ versions' = versions \cup {latest + 1}
    /\ latest' = latest + 1
    /\ UNCHANGED working
SaveVersion ==
    /\ SaveCore
    /\ ret' = <<latest + 1>>
    /\ hist' = Rec([op |-> "Save", ret |-> ret',
                    st |-> StateRec(working, saved', versions', latest')])

\* DeleteVersion(v): refused (ret 0) for version 0, the latest version, an unknown
\* version; otherwise v disappears and nothing else changes.
DeleteOK(v) == v # 0 /\ v # latest /\ v \in versions
DeleteCore(v) ==
    /\ WithDelete
    /\ IF DeleteOK(v)
         THEN /\ versions' = versions \ {v}
              /\ saved' = [saved EXCEPT ![v] = EMPTY]
         ELSE UNCHANGED <<versions, saved>>
    /\ UNCHANGED <<working, latest>>
DeleteVersion(v) ==
    /\ DeleteCore(v)
    /\ ret' = <<B(DeleteOK(v))>>
    /\ hist' = Rec([op |-> "Delete", ver |-> v, ret |-> ret',
                    st |-> StateRec(working, saved', versions', latest)])

\* Rollback(): drop the unsaved changes.
RollbackCore ==
    /\ working' = IF latest > 0 THEN saved[latest] ELSE EMPTY
    /\ UNCHANGED <<saved, versions, latest>>
Rollback ==
    /\ RollbackCore
    /\ ret' = <<>>
    /\ hist' = Rec([op |-> "Rollback", st |-> StateRec(working', saved, versions, latest)])

\* A new MutableTree over the same database + Load(): the newest retained version.
NewestOr0 == IF versions = {} THEN 0 ELSE CHOOSE v \in versions : \A w \in versions : w <= v
ReloadCore ==
    /\ working' = IF versions = {} THEN EMPTY ELSE saved[NewestOr0]
    /\ latest' = NewestOr0
    /\ UNCHANGED <<saved, versions>>
Reload ==
    /\ ReloadCore
    /\ ret' = <<NewestOr0>>
    /\ hist' = Rec([op |-> "Reload", ret |-> ret',
                    st |-> StateRec(working', saved, versions, latest')])

\* LoadVersionForOverwriting(v): back to version v, newer versions are deleted.
OverwriteCore(v) ==
    /\ WithOverwrite
    /\ v \in versions
    /\ working' = saved[v]
    /\ latest' = v
    /\ versions' = {w \in versions : w <= v}
    /\ saved' = SubSeq(saved, 1, v)
Overwrite(v) ==
    /\ OverwriteCore(v)
    /\ ret' = <<v>>
    /\ hist' = Rec([op |-> "Overwrite", ver |-> v, ret |-> ret',
                    st |-> StateRec(working', saved', versions', latest')])

\* ---- observers: expected results come from the map model -----------------------
Observe(r) == UNCHANGED <<working, saved, versions, latest>> /\ ret' = r

Get(t, k) ==
    /\ t \in Trees
    /\ Observe(MapGet(MapOf(Tree(t)), k))
    /\ hist' = Rec([op |-> "Get", t |-> t, k |-> k, ret |-> ret'])
Has(t, k) ==
    /\ t \in Trees
    /\ Observe(<<B(MapHas(MapOf(Tree(t)), k))>>)
    /\ hist' = Rec([op |-> "Has", t |-> t, k |-> k, ret |-> ret'])
ByIndex(t, i) ==
    /\ t \in Trees
    /\ Observe(MapByIndex(MapOf(Tree(t)), i))
    /\ hist' = Rec([op |-> "ByIndex", t |-> t, i |-> i, ret |-> ret'])
\* IterateRange (incl = FALSE) / IterateRangeInclusive (incl = TRUE); lo, hi = 0: nil
Range(t, lo, hi, asc, incl) ==
    /\ t \in Trees
    /\ Observe(MapRange(MapOf(Tree(t)), lo, hi, asc, incl))
    /\ hist' = Rec([op |-> "Range", t |-> t, lo |-> lo, hi |-> hi, asc |-> asc, incl |-> incl,
                    ret |-> ret'])
\* VersionExists(v) for every v, and GetImmutable(v) succeeds exactly for those
VersionsObs ==
    /\ Observe([v \in 1..MaxVersion |-> B(v \in versions)])
    /\ hist' = Rec([op |-> "Versions", ret |-> ret'])

Mutation ==
    \/ \E k \in KeyS, v \in ValS : Set(k, v)
    \/ \E k \in KeyS : Remove(k)
    \/ SaveVersion
    \/ \E v \in 0..MaxVersion : DeleteVersion(v)
    \/ Rollback \/ Reload
    \/ \E v \in 1..MaxVersion : Overwrite(v)

Observation ==
    \/ \E t \in 0..MaxVersion, k \in KeyS : Get(t, k) \/ Has(t, k)
    \/ \E t \in 0..MaxVersion, i \in -1..NK : ByIndex(t, i)
    \/ \E t \in 0..MaxVersion, lo \in 0..NK, hi \in 0..NK, asc \in BOOLEAN, incl \in BOOLEAN :
          Range(t, lo, hi, asc, incl)
    \/ VersionsObs

Next == Mutation \/ Observation
Spec == Init /\ [][Next]_vars

-----------------------------------------------------------------------------
\* C03 on the design level.

AllTrees == {working} \cup {saved[v] : v \in versions}

TypeOK ==
    /\ versions \subseteq 1..Len(saved)
    /\ latest \in 0..MaxVersion
    /\ Len(saved) <= MaxVersion
    /\ \A t \in AllTrees : KeysOf(t) \subseteq KeyS

\* "the set of retained versions is exactly what was saved and not deleted"; the
\* version the working tree is based on is always retained
C03_VersionsConsistent ==
    /\ latest = Len(saved)
    /\ latest > 0 => latest \in versions
    /\ \A v \in 1..Len(saved) : v \notin versions => saved[v] = EMPTY

\* "height-balanced with correct subtree sizes" (and search-tree order, inner keys)
C03_WellFormed == \A t \in AllTrees : WellFormed(t)

\* node versions: nothing in version v is newer than v; the working tree at most latest + 1
C03_NodeVersions ==
    /\ MaxVer(working) <= latest + 1
    /\ \A v \in versions : MaxVer(saved[v]) <= v

\* the code's read paths compute the ordered-map answers on every reachable tree
\* (stated for the working tree: every saved tree was the working tree when it was saved)
C03_ReadPathsAreTheMap ==
    \A t \in {working} :
        LET m == MapOf(t) IN
        /\ \A k \in KeyS : TreeHas(t, k) = MapHas(m, k) /\ TreeGet(t, k) = MapGet(m, k)
        /\ \A i \in -1..NK : TreeByIndex(t, i) = MapByIndex(m, i)
        /\ \A lo \in 0..NK, hi \in 0..NK, asc \in BOOLEAN, incl \in BOOLEAN :
              TreeRange(t, lo, hi, asc, incl) = MapRange(m, lo, hi, asc, incl)

\* Set / Remove act on the map exactly as an ordered map does
C03_MutationsAreTheMap ==
    [][/\ \A k \in KeyS, v \in ValS : SetCore(k, v) =>
             MapOf(working') = [x \in DOMAIN MapOf(working) \cup {k} |->
                                   IF x = k THEN v ELSE MapOf(working)[x]]
       /\ \A k \in KeyS : RemoveCore(k) =>
             MapOf(working') = [x \in DOMAIN MapOf(working) \ {k} |-> MapOf(working)[x]]]_vars

\* copy-on-write: a retained version never changes, whatever happens to the working tree
C03_SavedVersionsImmutable ==
    [][\A v \in versions \cap versions' : saved'[v] = saved[v]]_vars

-----------------------------------------------------------------------------
EmitAtDepth(D) == Len(hist) = D => PrintT(ToJson(hist))
=============================================================================
