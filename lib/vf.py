"""Shared machinery for /verif checks: build the Go harness from /repo's working tree,
run TLC (exhaustive / simulate / trace validation), run harness engines, collect
evidence, print verdict lines.

Verdict discipline (DESIGN.md section 2):
  exit 0  property held on everything explored (KNOWN-FINDING lines allowed)
  exit 1  + "VIOLATION property=<id> replay=<path>" : predicate false on real-code behaviour
  exit 2  machinery problem (never a violation)
"""
import fcntl
import json
import os
import re
import shutil
import subprocess
import sys
import tempfile
import time

VERIF = os.path.dirname(os.path.dirname(os.path.abspath(__file__)))
REPO = os.environ.get("VERIF_REPO", "/repo")
# VERIF_REPO (development only): run the checks against a scratch worktree of /repo, e.g. to try a
# mutant without touching /repo.  Binaries then go to a build directory of their own.
BUILD = os.path.join(VERIF, ".build" if REPO == "/repo" else ".build-" + re.sub(r"[^A-Za-z0-9]+", "_", REPO).strip("_"))
GOENV = dict(GOFLAGS="-mod=mod", GOPROXY="off", GOSUMDB="off", GOTOOLCHAIN="local")
NCPU = os.cpu_count() or 4


class MachineryError(Exception):
    pass


def log(*a):
    print("[vf]", *a, file=sys.stderr, flush=True)


# --------------------------------------------------------------------------- build
def build_harness(targets=None):
    """(Re)build harness binaries with -tags verif against /repo's current tree."""
    os.makedirs(BUILD, exist_ok=True)
    hdir = os.path.join(VERIF, "harness")
    env = dict(os.environ, **GOENV)
    with open(os.path.join(BUILD, ".lock"), "w") as lk:
        fcntl.flock(lk, fcntl.LOCK_EX)
        src = os.path.join(REPO, "go.sum")
        modargs = []
        if REPO == "/repo":
            dst = os.path.join(hdir, "go.sum")
        else:
            alt = os.path.join(BUILD, "go.mod")
            with open(alt, "w") as f:
                f.write(open(os.path.join(hdir, "go.mod")).read().replace("=> /repo", "=> " + REPO))
            dst = os.path.join(BUILD, "go.sum")
            modargs = ["-modfile=" + alt]
        try:
            if not os.path.exists(dst) or open(src, "rb").read() != open(dst, "rb").read():
                shutil.copy(src, dst)
        except OSError as e:
            raise MachineryError("go.sum copy failed: %s" % e)
        pk = ["./cmd/" + t for t in targets] if targets else ["./cmd/..."]
        t0 = time.time()
        p = subprocess.run(["go", "build"] + modargs + ["-tags", "verif", "-o", BUILD + "/"] + pk,
                           cwd=hdir, env=env, capture_output=True, text=True)
        if p.returncode != 0:
            raise MachineryError("harness build failed:\n" + p.stdout + p.stderr)
        log("harness built in %.1fs" % (time.time() - t0))


# --------------------------------------------------------------------------- TLC
class TLCResult:
    def __init__(self):
        self.generated = 0
        self.distinct = 0
        self.depth = 0
        self.violated = None       # name of violated invariant / property
        self.error = None          # other TLC error text
        self.stdout_path = None
        self.wall = 0.0
        self.final_state = {}      # var -> text, last state of an error trace
        self.ok = False

    def __repr__(self):
        return "TLC(gen=%d distinct=%d depth=%d violated=%r error=%r wall=%.1fs)" % (
            self.generated, self.distinct, self.depth, self.violated,
            (self.error or "")[:200] if self.error else None, self.wall)


def _parse_tlc(path, res):
    err_lines = []
    state_lines = []
    in_state = False
    with open(path, errors="replace") as f:
        for line in f:
            if line.startswith('"['):
                continue
            m = re.search(r"(\d+) states generated, (\d+) distinct states found", line)
            if m:
                res.generated, res.distinct = int(m.group(1)), int(m.group(2))
            m = re.search(r"The number of states generated: (\d+)", line)
            if m:
                res.generated = res.distinct = int(m.group(1))
            m = re.search(r"depth of the complete state graph search is (\d+)", line)
            if m:
                res.depth = int(m.group(1))
            m = re.match(r"Error: Invariant (\S+) is violated", line)
            if m:
                res.violated = m.group(1)
                continue
            m = re.match(r"Error: Action property (\S+) is violated", line)
            if m:
                res.violated = m.group(1)
                continue
            if "Error: The postcondition has been violated" in line or "POSTCONDITION" in line and "violated" in line:
                res.violated = res.violated or "POSTCONDITION"
                continue
            if re.match(r"State \d+:", line):
                in_state = True
                state_lines = []
                continue
            if in_state:
                if line.strip() == "":
                    in_state = False
                else:
                    state_lines.append(line.rstrip("\n"))
                continue
            if line.startswith("Error:"):
                if "The behavior up to this point is" in line or "The error occurred when TLC was evaluating" in line:
                    continue
                err_lines.append(line.strip())
    if state_lines:
        cur = None
        for l in state_lines:
            m = re.match(r"/\\ (\w+) = (.*)", l)
            if m:
                cur = m.group(1)
                res.final_state[cur] = m.group(2)
            elif cur:
                res.final_state[cur] += " " + l.strip()
    real = [e for e in err_lines if not e.startswith("Error: Evaluating")]
    if err_lines and not res.violated:
        res.error = "\n".join(err_lines)
    elif real and res.violated and any("Attempted" in e or "exception" in e.lower() for e in real):
        res.error = "\n".join(real)


def run_tlc(spec_dir, module, cfg, scratch, *, workers=None, simulate=None, seed=None,
            env=None, timeout=900, depth_first=False, extra=None, tag=None, heap=None):
    """Run TLC on spec_dir/module.tla with spec_dir/cfg inside a scratch copy.
    simulate: dict(num=, depth=) -> `-simulate num=N -depth D` (num is per worker).
    Returns TLCResult; raises MachineryError on timeout / JVM failure."""
    tag = tag or (module + "-" + os.path.splitext(cfg)[0])
    wd = os.path.join(scratch, "tlc-" + tag)
    if os.path.exists(wd):
        shutil.rmtree(wd)
    os.makedirs(wd)
    for fn in os.listdir(spec_dir):
        if fn.endswith((".tla", ".cfg")):
            shutil.copy(os.path.join(spec_dir, fn), wd)
    if workers is None:
        workers = min(NCPU, 8)
    cmd = ["tlc", "-workers", str(workers), "-metadir", os.path.join(wd, "md"), "-config", cfg]
    if simulate:
        cmd += ["-simulate", "num=%d" % simulate["num"], "-depth", str(simulate["depth"])]
        if seed is not None:
            cmd += ["-seed", str(seed)]
    if extra:
        cmd += extra
    cmd += [module + ".tla"]
    e = dict(os.environ)
    jopts = []
    if depth_first:
        jopts.append("-Dtlc2.tool.queue.IStateQueue=StateDeque")
    if heap:
        jopts.append("-Xmx" + heap)
    jopts.append("-Xss512m")
    e["JAVA_TOOL_OPTIONS"] = " ".join(jopts)
    if env:
        e.update(env)
    res = TLCResult()
    res.stdout_path = os.path.join(wd, "tlc.out")
    t0 = time.time()
    with open(res.stdout_path, "w") as out:
        try:
            p = subprocess.run(cmd, cwd=wd, env=e, stdout=out, stderr=subprocess.STDOUT, timeout=timeout)
        except subprocess.TimeoutExpired:
            raise MachineryError("TLC timeout after %ds: %s" % (timeout, " ".join(cmd)))
    res.wall = time.time() - t0
    _parse_tlc(res.stdout_path, res)
    res.rc = p.returncode
    if res.error:
        tail = subprocess.run(["grep", "-v", '^"\\[', res.stdout_path], capture_output=True, text=True).stdout[-3000:]
        raise MachineryError("TLC error in %s/%s: %s\n%s" % (module, cfg, res.error, tail))
    if p.returncode != 0 and not res.violated:
        tail = subprocess.run(["grep", "-v", '^"\\[', res.stdout_path], capture_output=True, text=True).stdout[-3000:]
        raise MachineryError("TLC exit %d in %s/%s\n%s" % (p.returncode, module, cfg, tail))
    res.ok = res.violated is None
    log("%s %s: %r" % (module, cfg, res))
    return res


def extract_behaviours(tlc_out, dest, limit=None):
    """Behaviours are printed by TLC as JSON string literals, one per line (`"[...`).
    The harness unquotes them itself; here they are only filtered into `dest`."""
    n = 0
    with open(tlc_out, errors="replace") as f, open(dest, "w") as o:
        for line in f:
            if line.startswith('"['):
                o.write(line)
                n += 1
                if limit and n >= limit:
                    break
    return n


# --------------------------------------------------------------------------- harness
def run_harness(binary, args, *, timeout=1800, env=None, allow_fail=False):
    """Run a harness engine; its stdout is one JSON report object."""
    e = dict(os.environ, **GOENV)
    if env:
        e.update({k: str(v) for k, v in env.items()})
    cmd = [os.path.join(BUILD, binary)] + [str(a) for a in args]
    t0 = time.time()
    try:
        p = subprocess.run(cmd, capture_output=True, text=True, timeout=timeout, env=e)
    except subprocess.TimeoutExpired:
        raise MachineryError("harness timeout after %ds: %s" % (timeout, " ".join(cmd)))
    if p.returncode != 0 and not allow_fail:
        raise MachineryError("harness exit %d: %s\n%s" % (p.returncode, " ".join(cmd), p.stderr[-4000:]))
    try:
        rep = json.loads(p.stdout.strip().splitlines()[-1])
    except Exception:
        raise MachineryError("harness output not JSON: %s\n%s\n%s" % (" ".join(cmd), p.stdout[-2000:], p.stderr[-2000:]))
    rep["_wall"] = time.time() - t0
    rep["_cmd"] = " ".join(cmd)
    log("%s %s: behaviours=%s steps=%s mismatches=%s (%.1fs)" % (
        binary, args[0] if args else "", rep.get("behaviours"), rep.get("steps"), rep.get("n_mismatches"), rep["_wall"]))
    return rep


# --------------------------------------------------------------------------- known findings
def load_known(pid):
    path = os.path.join(VERIF, "known_findings.json")
    if not os.path.exists(path):
        return []
    data = json.load(open(path))
    return [f for f in data.get("findings", []) if f.get("property") == pid and f.get("status", "open") == "open"]


# --------------------------------------------------------------------------- check context
class Check:
    def __init__(self, pid, level, tier="quick", seed=1):
        self.pid = pid
        self.level = level
        self.tier = tier
        self.seed = seed
        self.t0 = time.time()
        self.scratch = tempfile.mkdtemp(prefix="verif-%s-" % pid)
        self.cov = {"samples": []}
        self.assumptions = []
        self.violations = []       # list of (summary, replay_path)
        self.known_hits = []       # list of strings
        self.pre_finish = []       # stages appended by bin/check, run once before a passing check finishes
        self._pre_finish_ran = False
        self.known = load_known(pid)
        self.parts = []            # human-readable record of what ran

    # -- bookkeeping
    def add(self, key, n):
        self.cov[key] = self.cov.get(key, 0) + int(n)

    def sample(self, s):
        if len(self.cov["samples"]) < 6:
            self.cov["samples"].append(s)

    def note(self, s):
        self.parts.append(s)
        log(self.pid, s)

    def assume(self, s):
        if s not in self.assumptions:
            self.assumptions.append(s)

    def add_tlc(self, res, what):
        self.add("states", res.distinct)
        self.add("transitions", res.generated)
        self.parts.append("%s: %d distinct states, %d transitions, depth %d, %.1fs" % (
            what, res.distinct, res.generated, res.depth, res.wall))

    def add_replay(self, rep, what):
        self.add("traces_validated_against_impl", rep.get("behaviours", 0))
        self.add("evaluations", rep.get("behaviours", 0))
        self.add("distinct_nontrivial", rep.get("nontrivial", 0))
        self.add("impl_steps", rep.get("steps", 0))
        for s in rep.get("samples", [])[:2]:
            self.sample(s)
        self.parts.append("%s: %d behaviours / %d steps on the real code, %d mismatches" % (
            what, rep.get("behaviours", 0), rep.get("steps", 0), rep.get("n_mismatches", 0)))

    # -- verdicts
    def violation(self, summary, replay):
        """Record a violation observed on real code; `replay` is a JSON-able object."""
        os.makedirs(os.path.join(VERIF, "replays"), exist_ok=True)
        path = os.path.join(VERIF, "replays", "%s-seed%d-%d.json" % (self.pid, self.seed, len(self.violations) + 1))
        replay = dict(replay)
        replay.setdefault("property", self.pid)
        replay.setdefault("seed", self.seed)
        replay.setdefault("tier", self.tier)
        replay["summary"] = summary
        with open(path, "w") as f:
            json.dump(replay, f, indent=1, default=str)
        self.violations.append((summary, path))
        log(self.pid, "VIOLATION:", summary)

    def known_finding(self, text):
        if text not in self.known_hits:
            self.known_hits.append(text)

    def finish(self, rule=None, exhaustive=None, extra_cov=None):
        if self.pre_finish and not self.violations and not self._pre_finish_ran:
            self._pre_finish_ran = True
            for stage in self.pre_finish:
                stage(self)
                if self.violations:
                    break
        wall = time.time() - self.t0
        cov = dict(self.cov)
        if rule:
            cov["rule"] = rule
        if exhaustive is not None:
            cov["exhaustive"] = bool(exhaustive)
        cov["parts"] = self.parts
        if extra_cov:
            cov.update(extra_cov)
        if self.known_hits:
            cov["known_findings_reproduced"] = self.known_hits
        ev = {
            "property_id": self.pid, "tier": self.tier, "seed": self.seed, "level": self.level,
            "coverage": cov, "assumptions": self.assumptions, "wall_s": round(wall, 2),
            "violations": len(self.violations),
        }
        # development runs against a scratch worktree (VERIF_REPO) never touch the real evidence
        evdir = os.path.join(VERIF, "evidence") if REPO == "/repo" else os.path.join(BUILD, "evidence")
        os.makedirs(evdir, exist_ok=True)
        with open(os.path.join(evdir, self.pid + ".json"), "w") as f:
            json.dump(ev, f, indent=1, default=str)
        shutil.rmtree(self.scratch, ignore_errors=True)
        for k in self.known_hits:
            print("KNOWN-FINDING: property=%s %s" % (self.pid, k))
        for summary, path in self.violations:
            print("VIOLATION property=%s replay=%s" % (self.pid, path))
            print("  " + summary)
        if self.violations:
            return 1
        print("OK property=%s tier=%s seed=%d wall=%.1fs" % (self.pid, self.tier, self.seed, wall))
        return 0

    def cleanup(self):
        shutil.rmtree(self.scratch, ignore_errors=True)


# --------------------------------------------------------------------------- generic pieces
def replay_mismatch_violations(c, rep, what, harness_cmd, known_matcher=None):
    """Turn harness mismatches into violations (or KNOWN-FINDING lines)."""
    for m in rep.get("mismatches", []):
        if known_matcher:
            k = known_matcher(m)
            if k:
                c.known_finding(k)
                continue
        summary = "%s: step %s op=%s %s: spec=%s real=%s (variant %s)" % (
            what, m.get("step"), m.get("op"), m.get("what"), json.dumps(m.get("want"))[:200],
            json.dumps(m.get("got"))[:200], m.get("variant"))
        c.violation(summary, {"kind": "behaviour", "harness_cmd": harness_cmd,
                              "behaviour": m.get("history"), "mismatch": m})


def trace_violation_from_tlc(c, res, trace_path, what, harness_cmd):
    """A violated invariant of a Trace* specification = the real code's logged behaviour
    contradicts the specification at the reported line."""
    st = res.final_state
    line = None
    err = st.get("err", "") or st.get("errs", "")
    m = None
    for m in re.finditer(r"<<(\d+), \"?[\w-]*\"?>>", err):   # the LAST recorded failure is the violated one
        pass
    m = m or re.search(r"<<(\d+)", err)
    if m:
        line = int(m.group(1))
    elif "l" in st:
        try:
            line = int(st["l"]) - 1
        except ValueError:
            pass
    ctx = []
    if line:
        with open(trace_path) as f:
            for i, l in enumerate(f, 1):
                if line - 6 <= i <= line:
                    ctx.append(l.strip())
                if i > line:
                    break
    summary = "%s: TLC %s violated at trace line %s (err=%s)" % (what, res.violated, line, err)
    c.violation(summary, {"kind": "trace", "harness_cmd": harness_cmd, "violated": res.violated,
                          "line": line, "context": ctx, "final_state": st})


def validate_trace(c, spec_dir, module, cfg, trace_path, what, harness_cmd, n_traces, timeout=900):
    """code -> spec: TLC re-executes the recorded events with the specification's own
    actions (Trace*.tla).  A violated named invariant / unconsumed trace is a violation
    observed on the real code."""
    res = run_tlc(spec_dir, module, cfg, c.scratch, workers=1, env={"TRACE_FILE": trace_path},
                  timeout=timeout, tag=module + "-" + what.replace(" ", "_"))
    c.add("trace_events_validated", max(res.distinct - 1, 0))
    if res.ok:
        c.add("traces_validated_against_impl", n_traces)
        c.parts.append("%s: %d recorded traces / %d events accepted by %s" % (what, n_traces, res.distinct - 1, module))
    else:
        trace_violation_from_tlc(c, res, trace_path, what, harness_cmd)
    return res


def binding_selftest(c, spec_dir, module, cfg, trace_path, corrupt, what):
    """Demonstrate that the trace specification is bound to the log: a copy of the
    accepted trace with one logged field corrupted (and one with an event removed)
    must be rejected.  Failure here is a machinery error, not a verdict."""
    lines = open(trace_path).read().splitlines()
    bad = corrupt(lines)
    if bad is None:
        raise MachineryError("binding self-test: nothing to corrupt in " + trace_path)
    p = os.path.join(c.scratch, "corrupt-" + os.path.basename(trace_path))
    with open(p, "w") as f:
        f.write("\n".join(bad) + "\n")
    res = run_tlc(spec_dir, module, cfg, c.scratch, workers=1, env={"TRACE_FILE": p}, tag=module + "-selftest")
    if res.ok:
        raise MachineryError("binding self-test failed: corrupted trace accepted by %s (%s)" % (module, what))
    c.parts.append("binding self-test (%s): corrupted trace rejected (%s)" % (what, res.violated))


def generic_replay(c, path):
    """Re-execute a replay file written by Check.violation against the current tree."""
    r = json.load(open(path))
    cmd = r.get("harness_cmd")
    if not cmd:
        raise MachineryError("replay file has no harness_cmd")
    build_harness([cmd[0]])
    if r.get("kind") == "behaviour":
        bf = os.path.join(c.scratch, "beh.ndjson")
        with open(bf, "w") as f:
            f.write(json.dumps(r["behaviour"]) + "\n")
        args = [bf if a == "{in}" else a for a in cmd[1:]]
        rep = run_harness(cmd[0], args)
        if rep.get("n_mismatches", 0) > 0:
            print("VIOLATION property=%s replay=%s" % (c.pid, path))
            print("  reproduced: " + json.dumps(rep["mismatches"][0])[:500])
            c.cleanup()
            return 1
        print("NOT-REPRODUCED property=%s replay=%s" % (c.pid, path))
        c.cleanup()
        return 0
    raise MachineryError("replay kind %r needs the engine's own replay function" % r.get("kind"))


def run_harness_sharded(binary, args, shards, *, timeout=3600, env=None):
    """Run `shards` processes of a harness command with -shard i -of n appended and merge
    their reports (engines whose real code has process-global state replay sequentially
    inside one process, so parallelism comes from processes)."""
    import concurrent.futures
    def one(i):
        return run_harness(binary, list(args) + ["-shard", i, "-of", shards], timeout=timeout, env=env)
    with concurrent.futures.ThreadPoolExecutor(max_workers=shards) as ex:
        reps = list(ex.map(one, range(shards)))
    out = dict(reps[0])
    for k in ("behaviours", "steps", "nontrivial", "distinct", "n_mismatches"):
        out[k] = sum(r.get(k, 0) for r in reps)
    out["mismatches"] = [m for r in reps for m in r.get("mismatches", [])][:5]
    out["samples"] = [s for r in reps for s in r.get("samples", [])][:3]
    oc = {}
    for r in reps:
        for k, v in (r.get("op_counts") or {}).items():
            oc[k] = oc.get(k, 0) + v
    out["op_counts"] = oc
    ex = {}
    for r in reps:
        for k, v in (r.get("extra") or {}).items():
            if isinstance(v, (int, float)) and not isinstance(v, bool):
                ex[k] = ex.get(k, 0) + v
            elif isinstance(v, list):
                ex[k] = (ex.get(k) or []) + v
            else:
                ex.setdefault(k, v)
    out["extra"] = ex
    out["_wall"] = max(r["_wall"] for r in reps)
    return out
